"""
Whole-file behaviour-preserving transformations used by the thorough tier to
test that no rule reacts to them (a reaction is a defect of the checker):

  reformat     .py: ast.unparse of the module (comments dropped, quotes,
               parentheses and line breaks normalised, all line numbers moved)
  rename       .py: every local variable of every function renamed (AST);
               .pyx: the same on the token level, C-declared locals included
"""

import ast
import io
import tokenize

from . import localnames, pyxfront


def reformat_py(text):
    return ast.unparse(ast.parse(text)) + "\n"


def rename_py(text, suffix="_rn"):
    tree = ast.parse(text)
    for fn in ast.walk(tree):
        if not isinstance(fn, (ast.FunctionDef, ast.AsyncFunctionDef)):
            continue
        params = localnames._params(fn)
        glob = {n for st in ast.walk(fn) if isinstance(st, (ast.Global, ast.Nonlocal)) for n in st.names}
        stored = {n.id for n in ast.walk(fn) if isinstance(n, ast.Name) and isinstance(n.ctx, ast.Store)}
        inner_params = set()
        for sub in ast.walk(fn):
            if sub is not fn and isinstance(sub, (ast.FunctionDef, ast.AsyncFunctionDef, ast.Lambda)):
                inner_params |= localnames._params(sub)
        loc = stored - params - glob - inner_params
        for n in ast.walk(fn):
            if isinstance(n, ast.Name) and n.id in loc and not n.id.endswith(suffix):
                n.id = n.id + suffix
    return ast.unparse(tree) + "\n"


class _Yoda(ast.NodeTransformer):
    def visit_Compare(self, n):
        self.generic_visit(n)
        if len(n.ops) == 1 and type(n.ops[0]) in localnames._FLIP and localnames._is_const(n.comparators[0]) \
                and not localnames._is_const(n.left):
            return ast.Compare(left=n.comparators[0], ops=[localnames._FLIP[type(n.ops[0])]()], comparators=[n.left])
        return n


def yoda_py(text):
    """`x > 0` -> `0 < x` for every comparison with a constant"""
    return ast.unparse(ast.fix_missing_locations(_Yoda().visit(ast.parse(text)))) + "\n"


def _is_doc(st):
    return isinstance(st, ast.Expr) and isinstance(st.value, ast.Constant) and isinstance(st.value.value, str)


def noop_py(text):
    """an unused local assigned at the top of every non-trivial function and loop body"""
    tree = ast.parse(text)
    for n in ast.walk(tree):
        if isinstance(n, (ast.FunctionDef, ast.AsyncFunctionDef)):
            body = [st for st in n.body if not _is_doc(st)]
            if not body or all(isinstance(st, (ast.Pass, ast.Raise)) or (isinstance(st, ast.Expr) and isinstance(st.value, ast.Constant)) for st in body):
                continue  # abstract / trivial hooks stay trivial
            k = 1 if n.body and _is_doc(n.body[0]) else 0
            n.body.insert(k, ast.parse("_probe_unused = None").body[0])
        elif isinstance(n, (ast.For, ast.While)):
            n.body.insert(0, ast.parse("_probe_unused = None").body[0])
    return ast.unparse(ast.fix_missing_locations(tree)) + "\n"


_SKIP = (tokenize.NL, tokenize.COMMENT, tokenize.NEWLINE, tokenize.INDENT, tokenize.DEDENT)


def rename_pyx(rel, text, suffix="_rn"):
    low = pyxfront.lower(rel, text)
    funcs = dict(pyxfront.iter_funcs(low.tree))
    ranges = []
    for q, fn in funcs.items():
        if "." in q and q.rsplit(".", 1)[0] in funcs:
            continue  # nested function: renamed with its parent
        locs = set(localnames.local_names(fn)) | (set(low.decls.get(q, {})) - localnames._params(fn))
        ranges.append((fn.lineno, fn.end_lineno, locs))
    toks = list(tokenize.generate_tokens(io.StringIO(text).readline))
    edits = []
    depth = 0
    for i, t in enumerate(toks):
        if t.type == tokenize.OP and t.string in "([{":
            depth += 1
        elif t.type == tokenize.OP and t.string in ")]}":
            depth -= 1
        if t.type != tokenize.NAME:
            continue
        locs = next((l for a, b, l in ranges if a <= t.start[0] <= b), None)
        if not locs or t.string not in locs:
            continue
        j = i - 1
        while j >= 0 and toks[j].type in _SKIP:
            j -= 1
        prev = toks[j] if j >= 0 else None
        nxt = toks[i + 1] if i + 1 < len(toks) else None
        is_attr = prev is not None and prev.type == tokenize.OP and prev.string == "."
        is_kw = depth > 0 and nxt is not None and nxt.type == tokenize.OP and nxt.string == "=" \
            and prev is not None and prev.type == tokenize.OP and prev.string in "(,"
        if not is_attr and not is_kw:
            edits.append((t.start, t.end, t.string + suffix))
    lines = text.splitlines(keepends=True)
    for (sl, sc), (el, ec), new in sorted(edits, reverse=True):
        lines[sl - 1] = lines[sl - 1][:sc] + new + lines[sl - 1][ec:]
    return "".join(lines)


def variants(ctx):
    """{name: overrides} for the files the property read"""
    ref, ren, yod, nop = {}, {}, {}, {}
    for rel in sorted(ctx.files):
        text = ctx.src(rel).text
        if rel.endswith(".py"):
            ref[rel] = reformat_py(text)
            ren[rel] = rename_py(text)
            yod[rel] = yoda_py(text)
            nop[rel] = noop_py(text)
        elif rel.endswith(".pyx"):
            ren[rel] = rename_pyx(rel, text)
    out = {}
    if ref:
        out["auto-reformat-all-sources"] = ref
    if ren:
        out["auto-rename-all-locals"] = ren
    if yod:
        out["auto-constants-on-the-left"] = yod
    if nop:
        out["auto-unused-local-inserted"] = nop
    return out
