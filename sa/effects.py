"""
Which of its parameters does a function change in place?  (interprocedural inside one module, a fixpoint over the call graph)

An object is changed by: a mutating method called on a name that may refer to it (`xs.remove(..)`, `arr.sort()`), a store
into it (`x[i] = ..`, `x.attr = ..`, `del x[i]`), an augmented assignment to the name (`x += ..` changes lists / arrays in
place), `out=x`, or by handing it to a function of the module that changes the corresponding parameter.
A local name may refer to the parameter's object when it was assigned from it by identity: `y = p`, `y = p if c else q`,
`y = p or []`, `y = np.asarray(p)`, and attributes of it (`y = p.bonds`: part of the state of p).  Every other expression (calls, literals, arithmetic, `p.copy()`, `list(p)`, `set(p)`,
`p + [..]`) yields a new object.  A forward may-alias analysis over the statement structure: an assignment replaces what the name may refer
to on its path, states are joined where branches meet and around loops.
"""

import ast

from . import alias as _alias
from .astutil import call_name

MUTATING_METHODS = {"remove", "append", "extend", "pop", "clear", "sort", "reverse", "insert", "add", "discard", "update",
                    "fill", "resize", "put", "itemset", "setdefault", "popitem", "partition", "setflags", "byteswap",
                    "difference_update", "intersection_update", "symmetric_difference_update",
                    "__setitem__", "__delitem__", "__iadd__", "__isub__", "__imul__", "__ior__", "__iand__", "__itruediv__", "__ifloordiv__",
                    "__imod__", "__ipow__", "__ixor__", "__ilshift__", "__irshift__", "__imatmul__", "__setattr__", "__delattr__",
                    "setfield", "appendleft", "extendleft", "popleft", "rotate", "move_to_end", "subtract", "writelines", "truncate",
                    # the repository's own in-place operations (BondList, atom arrays)
                    "remove_aromaticity", "remove_bond_order", "add_bond", "remove_bond", "remove_bonds", "remove_bonds_to",
                    "set_annotation", "add_annotation", "del_annotation"}
_IDENTITY_CALLS = {"np.asarray", "np.asanyarray", "numpy.asarray", "np.ascontiguousarray", "np.atleast_1d", "np.atleast_2d", "np.ravel", "np.reshape", "np.squeeze"}
_IDENTITY_METHODS = {"view", "reshape", "ravel", "squeeze", "transpose", "swapaxes"}


def _params(fn):
    a = fn.args
    return [x.arg for x in a.posonlyargs + a.args + a.kwonlyargs]


def _may_alias(e, al, local_callables=(), on_call=None):
    """origins (parameters) whose objects the value of `e` may share storage with (alias.roots)"""
    return _alias.roots(e, al, local_callables, on_call)


def _base(t):
    while isinstance(t, (ast.Subscript, ast.Attribute)):
        t = t.value
    return t


def param_mutations(funcs):
    """funcs: {qualname: FunctionDef} of one module -> {qualname: {param: [(line, what), ...]}}"""
    by_name = {}
    for q, f in funcs.items():
        by_name.setdefault(q.split(".")[-1], []).append(q)
    result = {q: {} for q in funcs}
    changed = True
    rounds = 0
    while changed and rounds < 10:
        changed = False
        rounds += 1
        for q, f in funcs.items():
            found = _scan(q, f, funcs, by_name, result)
            if {k: len(v) for k, v in found.items()} != {k: len(v) for k, v in result[q].items()} or \
                    found.get("__returns__") != result[q].get("__returns__"):
                result[q] = found
                changed = True
    # `__returns__` (parameters the return value may share storage with) is the callee summary used for calls inside the module
    return {q: {k: v for k, v in r.items() if k != "__returns__"} for q, r in result.items()}


def return_aliases(funcs):
    """{qualname: [parameters whose object the return value may be / hold]} (the `__returns__` part of the fixpoint above)"""
    by_name = {}
    for q, f in funcs.items():
        by_name.setdefault(q.split(".")[-1], []).append(q)
    result = {q: {} for q in funcs}
    for _ in range(6):
        changed = False
        for q, f in funcs.items():
            found = _scan(q, f, funcs, by_name, result)
            if found.get("__returns__") != result[q].get("__returns__") or set(found) != set(result[q]):
                result[q] = found
                changed = True
        if not changed:
            break
    return {q: list(r.get("__returns__", [])) for q, r in result.items()}


_ESCAPES = {}


def params_kept_by_identity(func):
    """{parameter: [(line, 'self.attr')]}: the object the caller passed is stored in the instance as it is (no copy)"""
    _scan("<f>", func, {}, {}, {})
    return dict(_ESCAPES.get(id(func), {}))


def _union(a, b):
    return {k: set(a.get(k, ())) | set(b.get(k, ())) for k in set(a) | set(b)}


def _scan(q, f, funcs, by_name, result):
    """one pass over a function.  State `al`: name -> origins (parameters) whose object the name may BE; "*name" -> origins whose
    objects it may HOLD as items (alias.roots2).  A store into `c[k]` changes c, a store into `c[k][i]` what c holds."""
    ps = _params(f)
    found = {}
    escapes = _ESCAPES.setdefault(id(f), {})
    escapes.clear()
    local_callables = _alias.local_callable_names(f)
    returned = set()
    nested = []
    depth = [0]
    state = {"al": {}}

    # locals that may be a function of this module: `f = _helper`, `f = _a if c else _b`, `fs = [_a, _b]` ... `for f in fs`
    fn_values = {}
    for _ in range(3):
        for n_ in ast.walk(f):
            tv = []
            if isinstance(n_, ast.Assign):
                tv = [(t, n_.value) for t in n_.targets]
            elif isinstance(n_, (ast.AnnAssign, ast.NamedExpr)) and n_.value is not None:
                tv = [(n_.target, n_.value)]
            elif isinstance(n_, (ast.For, ast.comprehension)):
                tv = [(n_.target, n_.iter)]
            for t, v in tv:
                callee_pos = {id(c_.func) for c_ in ast.walk(v) if isinstance(c_, ast.Call)}
                got = set()
                for x in ast.walk(v):
                    if isinstance(x, ast.Name) and id(x) not in callee_pos:
                        if x.id in by_name and x.id not in ps:
                            got.add(x.id)
                        got |= fn_values.get(x.id, set())
                if got:
                    for x in ast.walk(t):
                        if isinstance(x, ast.Name):
                            fn_values.setdefault(x.id, set()).update(got)

    def R2(e, al):
        state["al"] = al
        same = {k: v for k, v in al.items() if not k.startswith("*")}
        held = {k[1:]: v for k, v in al.items() if k.startswith("*")}
        return _alias.roots2(e, same, local_callables, on_call, held)

    def both(pr):
        return pr[0] | pr[1]

    def elem(pr):
        return pr[0] | pr[1], set(pr[1])

    def setname(al, name, pr):
        al[name] = set(pr[0])
        al["*" + name] = set(pr[1])

    def hold(al, target_value, pr, target=None):
        # a store with a multi-dimensional index (`a.coord[:, :, 0] = v`) is NumPy's: the values are copied in, nothing is held
        if isinstance(target, ast.Subscript) and isinstance(target.slice, ast.Tuple):
            return
        b = _alias.base_name(target_value)
        b = b.split(".")[0] if b else b
        if b is not None and (pr[0] or pr[1]):
            al["*" + b] = set(al.get("*" + b, ())) | pr[0] | pr[1]

    def on_call(c):
        """result of a call of a function of this module: what the callee's own return value may share storage with"""
        cn = call_name(c) or ""
        short = cn.split(".")[-1]
        cands = [x for x in by_name.get(short, []) if cn == short or cn.startswith(("self.", "cls."))]
        if not cands or (isinstance(c.func, ast.Name) and c.func.id in local_callables):
            return None
        al = state["al"]
        out = set()
        for callee in cands:
            cps = _params(funcs[callee])
            rets = result.get(callee, {}).get("__returns__", ())
            if "." in callee and cps and cps[0] in ("self", "cls") and cn.startswith(("self.", "cls.")):
                if cps[0] in rets:
                    out |= both(R2(c.func.value, al))
                cps = cps[1:]
            for k, a in enumerate(c.args):
                if k < len(cps) and cps[k] in rets:
                    out |= both(R2(a, al))
            for kw in c.keywords:
                if kw.arg in rets:
                    out |= both(R2(kw.value, al))
        state["al"] = al
        return out

    def hit(names, line, what):
        for p in names:
            found.setdefault(p, [])
            if (line, what) not in found[p]:
                found[p].append((line, what))

    def weakname(al, name, pr):
        setname(al, name, (set(al.get(name, ())) | pr[0], set(al.get("*" + name, ())) | pr[1]))

    def visit_expr(node, al):
        # names bound inside the expression: comprehension targets are items of what is iterated; the parameters of a lambda may be
        # anything the expression has in sight
        for c in ast.walk(node):
            if isinstance(c, (ast.ListComp, ast.SetComp, ast.DictComp, ast.GeneratorExp)):
                for g in c.generators:
                    pr_ = elem(R2(g.iter, al))
                    for t_ in ast.walk(g.target):
                        if isinstance(t_, ast.Name) and isinstance(t_.ctx, ast.Store):
                            weakname(al, t_.id, pr_)
                    if not isinstance(g.target, ast.Name):
                        for t_ in ast.walk(g.target):
                            if isinstance(t_, (ast.Subscript, ast.Attribute)) and isinstance(t_.ctx, ast.Store):
                                store_into(t_, al, getattr(c, "lineno", 0), "store into " + ast.unparse(t_)[:30], pr_)
            elif isinstance(c, ast.Lambda):
                s_l, h_l = set(), set()
                for n_ in ast.walk(node):
                    if isinstance(n_, ast.Name) and isinstance(n_.ctx, ast.Load):
                        s_l |= set(al.get(n_.id, ()))
                        h_l |= set(al.get("*" + n_.id, ()))
                for a_ in ast.walk(c.args):
                    if isinstance(a_, ast.arg):
                        weakname(al, a_.arg, (s_l | h_l, h_l))
        for c in ast.walk(node):
            if isinstance(c, ast.NamedExpr) and not isinstance(c.target, ast.Name):
                bind_target(c.target, R2(c.value, al), al, getattr(c, "lineno", 0))
            if isinstance(c, ast.NamedExpr) and isinstance(c.target, ast.Name):
                pr = R2(c.value, al)
                setname(al, c.target.id, (set(al.get(c.target.id, ())) | pr[0], set(al.get("*" + c.target.id, ())) | pr[1]))
            if isinstance(c, ast.Call):
                if isinstance(c.func, ast.Attribute) and c.func.attr in MUTATING_METHODS:
                    hit(R2(c.func.value, al)[0], c.lineno, f".{c.func.attr}()")
                    for a in list(c.args) + [k.value for k in c.keywords]:
                        hold(al, c.func.value, R2(a, al))          # xs.append(p): xs now holds p
                from .exprnorm import _out_arguments
                for o_ in _out_arguments(c):
                    # out=, the positional out of numpy functions / array methods, np.copyto / putmask / place / put (first argument)
                    hit(R2(o_, al)[0], c.lineno, "written by " + (call_name(c) or ast.unparse(c.func))[:30] + "()")
                # setattr(self, name, v): the instance keeps v
                if isinstance(c.func, ast.Name) and c.func.id == "setattr" and len(c.args) == 3 and isinstance(c.args[0], ast.Name) \
                        and c.args[0].id == "self":
                    for p_ in R2(c.args[2], al)[0] - {"self"}:
                        escapes.setdefault(p_, []).append((c.lineno, "self." + (c.args[1].value if isinstance(c.args[1], ast.Constant) else "?")))
                # a callee that is not a plain name - `(f if c else g)(..)`, `functools.partial(f, a)(b)`, `table[k](..)`: every function
                # of the module that the callee expression mentions may be the one that runs, with any of the arguments in sight
                if not isinstance(c.func, (ast.Name, ast.Attribute)) or (isinstance(c.func, ast.Attribute) and isinstance(c.func.value, ast.Call)):
                    mentioned = {x.id for x in ast.walk(c.func) if isinstance(x, ast.Name) and x.id in by_name}
                    in_sight = list(c.args) + [k.value for k in c.keywords] + \
                        [a for x in ast.walk(c.func) if isinstance(x, ast.Call) for a in list(x.args) + [k.value for k in x.keywords]]
                    for g_ in sorted(mentioned):
                        for callee in by_name.get(g_, []):
                            if any(k_ != "__returns__" for k_ in result.get(callee, {})):
                                for a in in_sight:
                                    hit(R2(a, al)[0], c.lineno, f"{g_}() (called indirectly) changes a parameter")
                # calls of functions of this module that change their parameter
                cn = call_name(c) or ""
                short = cn.split(".")[-1]
                cands = [x for x in by_name.get(short, []) if cn == short or cn.startswith(("self.", "cls."))]
                if isinstance(c.func, ast.Name) and c.func.id in local_callables:
                    # a local that was bound to functions of the module (`f = _helper`): any of them may run
                    cands = [x for g_ in sorted(fn_values.get(c.func.id, ())) for x in by_name.get(g_, [])]
                # a function of the module handed to another callable (`map(_helper, xs)`, `sorted(xs, key=_helper)`): it may be run
                # with any of the other arguments, or with their items
                for a in list(c.args) + [k.value for k in c.keywords]:
                    if isinstance(a, ast.Name) and (a.id in by_name and a.id not in local_callables or a.id in fn_values):
                        for g_ in sorted(fn_values.get(a.id, {a.id})):
                            for callee in by_name.get(g_, []):
                                if any(k_ != "__returns__" for k_ in result.get(callee, {})):
                                    for o_ in list(c.args) + [k.value for k in c.keywords]:
                                        if o_ is not a:
                                            hit(both(R2(o_, al)), c.lineno, f"{g_}() (handed to {(call_name(c) or '?')[:20]}()) changes a parameter")
                for callee in cands:
                    cps = _params(funcs[callee])
                    if "." in callee and cps and cps[0] in ("self", "cls") and cn.startswith(("self.", "cls.")):
                        cps = cps[1:]
                    for k, a in enumerate(c.args):
                        if k < len(cps) and cps[k] in result.get(callee, {}) and cps[k] != "__returns__":
                            hit(R2(a, al)[0], c.lineno, f"{short}() changes its parameter {cps[k]}")
                    for kw in c.keywords:
                        if kw.arg in result.get(callee, {}) and kw.arg != "__returns__":
                            hit(R2(kw.value, al)[0], c.lineno, f"{short}() changes its parameter {kw.arg}")

    def note_escape(t, pr, line):
        """`self.a = v`, `self.__dict__["a"] = v` (in any assignment shape): the instance keeps the object v may be"""
        b = _base(t)
        if not (isinstance(b, ast.Name) and (b.id == "self" or ps[:1] == ["self"] and "self" in state["al"].get(b.id, ()))):
            return
        if isinstance(t, ast.Attribute) and t.value is b:
            what = "self." + t.attr
        elif isinstance(t, ast.Subscript) and isinstance(t.value, ast.Attribute) and t.value.value is b and t.value.attr == "__dict__":
            what = "self." + (t.slice.value if isinstance(t.slice, ast.Constant) and isinstance(t.slice.value, str) else "?")
        else:
            return
        for p_ in pr[0] - {"self"}:
            escapes.setdefault(p_, []).append((line, what))

    def store_into(t, al, line, what, value_pr=None):
        """`t` is a Subscript / Attribute target: the object that changes is what `t.value` may be"""
        if value_pr is not None:
            note_escape(t, value_pr, line)
        b = _base(t)
        if not (isinstance(t, ast.Attribute) and isinstance(b, ast.Name) and b.id in ("self", "cls") and t.value is b and "self" not in ps[:1]):
            if not (isinstance(t, ast.Attribute) and isinstance(b, ast.Name) and b.id in ("self", "cls") and t.value is b):
                hit(R2(t.value, al)[0], line, what)
            elif isinstance(b, ast.Name) and b.id in ps[:1]:
                hit(R2(t.value, al)[0], line, what)
        if value_pr is not None:
            hold(al, t.value, value_pr, t)

    def bind_target(t, pr, al, line=0):
        """any binding construct (assignment, annotated assignment, for / with / comprehension target, walrus): a name is bound, a
        subscript / attribute target is a store into its object"""
        if isinstance(t, ast.Name):
            setname(al, t.id, pr)
        elif isinstance(t, ast.Starred):
            bind_target(t.value, pr, al, line)
        elif isinstance(t, (ast.Tuple, ast.List)):
            for x in t.elts:
                bind_target(x, elem(pr), al, line)
        elif isinstance(t, (ast.Subscript, ast.Attribute)):
            store_into(t, al, line or getattr(t, "lineno", 0), "store into " + ast.unparse(t)[:30], pr)

    def bind_nested_params(nf, inner, al):
        """the parameters of a nested function: whatever the calls of that function in the enclosing function hand over (by position
        or keyword, in the state at hand); a function that is handed on as a value may be called with anything in sight"""
        names = [a_.arg for a_ in nf.args.posonlyargs + nf.args.args]
        every = [a_.arg for a_ in ast.walk(nf.args) if isinstance(a_, ast.arg)]
        got = {n_: (set(), set()) for n_ in every}
        escaped = False
        for c_ in ast.walk(f):
            if isinstance(c_, ast.Call) and isinstance(c_.func, ast.Name) and c_.func.id == nf.name:
                for k_, a_ in enumerate(c_.args):
                    pr_ = R2(a_.value if isinstance(a_, ast.Starred) else a_, al)
                    tgt = [names[k_]] if k_ < len(names) and not isinstance(a_, ast.Starred) else every
                    for n_ in tgt:
                        got[n_] = (got[n_][0] | pr_[0] | (pr_[1] if isinstance(a_, ast.Starred) else set()), got[n_][1] | pr_[1])
                for kw in c_.keywords:
                    pr_ = R2(kw.value, al)
                    for n_ in ([kw.arg] if kw.arg in got else every):
                        got[n_] = (got[n_][0] | pr_[0], got[n_][1] | pr_[1])
            elif isinstance(c_, ast.Name) and c_.id == nf.name and isinstance(c_.ctx, ast.Load):
                escaped = True
        called_directly = {id(c_.func) for c_ in ast.walk(f) if isinstance(c_, ast.Call)}
        escaped = any(isinstance(c_, ast.Name) and c_.id == nf.name and isinstance(c_.ctx, ast.Load) and id(c_) not in called_directly for c_ in ast.walk(f))
        if escaped:
            s_a, h_a = set(), set()
            for k_, v_ in al.items():
                (h_a if k_.startswith("*") else s_a).update(v_)
            for n_ in every:
                got[n_] = (got[n_][0] | s_a | h_a, got[n_][1] | h_a)
        for n_ in every:
            setname(inner, n_, got[n_])

    def copy_state(al):
        return {k: set(v) for k, v in al.items()}

    def run(block, al):
        """forward may-alias analysis: returns the state after the block (assignments are strong updates of the path's state,
        states are joined where paths meet)"""
        for st in block:
            if isinstance(st, ast.ClassDef):
                continue
            if isinstance(st, (ast.FunctionDef, ast.AsyncFunctionDef)):
                # a nested function sees the caller's names; whatever it does to them happens when it is called
                nested.append(st)
                inner = copy_state(al)
                bind_nested_params(st, inner, al)
                depth[0] += 1
                run(st.body, inner)
                depth[0] -= 1
                continue
            if isinstance(st, ast.Assign):
                visit_expr(st.value, al)
                new = R2(st.value, al)
                for t in st.targets:
                    if isinstance(t, (ast.Tuple, ast.List)) and isinstance(st.value, (ast.Tuple, ast.List)) and len(t.elts) == len(st.value.elts) \
                            and not any(isinstance(x, ast.Starred) for x in list(t.elts) + list(st.value.elts)):
                        parts = [R2(v, al) for v in st.value.elts]
                        for x, pv in zip(t.elts, parts):
                            if isinstance(x, (ast.Subscript, ast.Attribute)):
                                store_into(x, al, st.lineno, "store into " + ast.unparse(x)[:30], pv)
                            else:
                                bind_target(x, pv, al)
                        continue
                    if isinstance(t, (ast.Subscript, ast.Attribute)):
                        b = _base(t)
                        if isinstance(b, ast.Name) and not (isinstance(t, ast.Attribute) and b.id in ("self", "cls")):
                            hit(R2(t.value, al)[0], st.lineno, "store into " + ast.unparse(t)[:30])
                        note_escape(t, new, st.lineno)
                        hold(al, t.value, new, t)          # the container / object now holds the value: `box[0] = p`
                    elif isinstance(t, (ast.Tuple, ast.List)):
                        for x in t.elts:
                            if isinstance(x, (ast.Subscript, ast.Attribute)):
                                store_into(x, al, st.lineno, "store into " + ast.unparse(x)[:30], elem(new))
                            else:
                                bind_target(x, elem(new), al)      # items of what is unpacked
                    else:
                        bind_target(t, new, al)
                continue
            if isinstance(st, ast.AnnAssign):
                if st.value is not None:
                    visit_expr(st.value, al)
                    bind_target(st.target, R2(st.value, al), al, st.lineno)
                continue
            if isinstance(st, ast.AugAssign):
                visit_expr(st.value, al)
                b = _base(st.target)
                if isinstance(b, ast.Name) and not getattr(st, "_rebind", False) and not (isinstance(st.target, ast.Attribute) and b.id in ("self", "cls")):
                    if isinstance(st.target, ast.Name) and isinstance(st.value, (ast.Constant, ast.JoinedStr)) and not isinstance(st.op, ast.Mult) \
                            and b.id in ps and set(al.get(b.id, ())) <= {b.id}:
                        pass     # `n += 1`, `s += "x"` on the parameter itself: a counter / text (numbers and strings are immutable)
                    elif isinstance(st.target, ast.Name):
                        hit(al.get(b.id, ()), st.lineno, ast.unparse(st)[:30])
                    else:
                        hit(R2(st.target.value, al)[0], st.lineno, ast.unparse(st)[:30])
                elif isinstance(b, ast.Name) and getattr(st, "_rebind", False) and isinstance(st.target, ast.Name):
                    setname(al, b.id, (set(), set()))
                continue
            if isinstance(st, ast.Delete):
                for t in st.targets:
                    b = _base(t)
                    if isinstance(b, ast.Name) and b is not t:
                        hit(R2(t.value, al)[0], st.lineno, "del " + ast.unparse(t)[:30])
                    elif isinstance(t, ast.Name):
                        setname(al, t.id, (set(), set()))
                continue
            if isinstance(st, (ast.For, ast.AsyncFor, ast.While)):
                if isinstance(st, ast.While):
                    visit_expr(st.test, al)
                else:
                    visit_expr(st.iter, al)
                    bind_target(st.target, elem(R2(st.iter, al)), al, st.lineno)      # iterating a container hands out its items
                state_ = copy_state(al)
                for _ in range(40):      # to a fixpoint (the lattice is finite: sets of parameter names per local)
                    after = run(st.body, copy_state(state_))
                    joined = _union(state_, after)
                    if joined == state_:
                        break
                    state_ = joined
                al = _union(state_, run(st.orelse, copy_state(state_)))
                continue
            if isinstance(st, ast.If):
                visit_expr(st.test, al)
                a1 = run(st.body, copy_state(al))
                a2 = run(st.orelse, copy_state(al))
                al = _union(a1, a2)
                continue
            if isinstance(st, (ast.With, ast.AsyncWith)):
                for i in st.items:
                    visit_expr(i.context_expr, al)
                    if i.optional_vars is not None:
                        bind_target(i.optional_vars, elem(R2(i.context_expr, al)), al, st.lineno)
                al = run(st.body, al)
                continue
            if isinstance(st, ast.Try):
                start = copy_state(al)
                a_body = run(st.body, copy_state(al))
                state_ = _union(start, a_body)
                outs = [run(st.orelse, copy_state(a_body))]
                for h in st.handlers:
                    hs = copy_state(state_)
                    if h.name:
                        # the exception carries what it was raised with (and may be an object raised by name)
                        s_h, h_h = set(), set()
                        for r_ in ast.walk(ast.Module(body=list(st.body), type_ignores=[])):
                            if isinstance(r_, ast.Raise) and r_.exc is not None:
                                if isinstance(r_.exc, ast.Call):
                                    for a_ in list(r_.exc.args) + [k.value for k in r_.exc.keywords]:
                                        h_h |= both(R2(a_, hs))
                                else:
                                    pr_ = R2(r_.exc, hs)
                                    s_h |= pr_[0]
                                    h_h |= pr_[1]
                        setname(hs, h.name, (s_h, h_h))
                    outs.append(run(h.body, hs))
                al = outs[0]
                for o in outs[1:]:
                    al = _union(al, o)
                al = run(st.finalbody, al)
                continue
            if isinstance(st, (ast.Return, ast.Raise, ast.Expr)):
                for ch in ast.iter_child_nodes(st):
                    if isinstance(ch, ast.expr):
                        visit_expr(ch, al)
                if isinstance(st, ast.Return) and st.value is not None and depth[0] == 0:
                    returned.update(both(R2(st.value, al)) & set(ps))
                continue
            for ch in ast.iter_child_nodes(st):
                if isinstance(ch, ast.expr):
                    visit_expr(ch, al)
        return al

    final = run(f.body, {p: {p} for p in ps})
    # late binding: a nested function reads the caller's names as they are when it RUNS - once more with the final state
    for st in list(nested):
        inner = copy_state(final)
        bind_nested_params(st, inner, final)
        depth[0] += 1
        run(st.body, inner)
        depth[0] -= 1
    if returned:
        found["__returns__"] = sorted(returned)
    return found
