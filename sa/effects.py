"""
Which of its parameters does a function change in place?  (interprocedural inside one module, a fixpoint over the call graph)

An object is changed by: a mutating method called on a name that may refer to it (`xs.remove(..)`, `arr.sort()`), a store
into it (`x[i] = ..`, `x.attr = ..`, `del x[i]`), an augmented assignment to the name (`x += ..` changes lists / arrays in
place), `out=x`, or by handing it to a function of the module that changes the corresponding parameter.
A local name may refer to the parameter's object when it was assigned from it by identity: `y = p`, `y = p if c else q`,
`y = p or []`, `y = np.asarray(p)`, and attributes of it (`y = p.bonds`: part of the state of p).  Every other expression (calls, literals, arithmetic, `p.copy()`, `list(p)`, `set(p)`,
`p + [..]`) yields a new object.  A forward may-alias analysis over the statement structure: an assignment replaces what the name may refer
to on its path, states are joined where branches meet and around loops.
"""

import ast

from .astutil import call_name

MUTATING_METHODS = {"remove", "append", "extend", "pop", "clear", "sort", "reverse", "insert", "add", "discard", "update",
                    "fill", "resize", "put", "itemset", "setdefault", "popitem", "partition", "setflags", "byteswap",
                    "difference_update", "intersection_update", "symmetric_difference_update",
                    "__setitem__", "__delitem__", "__iadd__", "__isub__", "__imul__", "__ior__", "__iand__",
                    # the repository's own in-place operations (BondList, atom arrays)
                    "remove_aromaticity", "remove_bond_order", "add_bond", "remove_bond", "remove_bonds", "remove_bonds_to",
                    "set_annotation", "add_annotation", "del_annotation"}
_IDENTITY_CALLS = {"np.asarray", "np.asanyarray", "numpy.asarray", "np.ascontiguousarray", "np.atleast_1d", "np.atleast_2d", "np.ravel", "np.reshape", "np.squeeze"}
_IDENTITY_METHODS = {"view", "reshape", "ravel", "squeeze", "transpose", "swapaxes"}


def _params(fn):
    a = fn.args
    return [x.arg for x in a.posonlyargs + a.args + a.kwonlyargs]


def _may_alias(e, al):
    if isinstance(e, ast.Name):
        return set(al.get(e.id, ()))
    if isinstance(e, ast.IfExp):
        return _may_alias(e.body, al) | _may_alias(e.orelse, al)
    if isinstance(e, ast.BoolOp):
        out = set()
        for v in e.values:
            out |= _may_alias(v, al)
        return out
    if isinstance(e, ast.NamedExpr):
        return _may_alias(e.value, al)
    if isinstance(e, ast.Attribute):
        return _may_alias(e.value, al)       # `p.bonds`, `p.coord`: part of the state of p
    if isinstance(e, ast.Call):
        fn = call_name(e) or ""
        if fn in _IDENTITY_CALLS and e.args:
            return _may_alias(e.args[0], al)
        if isinstance(e.func, ast.Attribute) and e.func.attr in _IDENTITY_METHODS:
            return _may_alias(e.func.value, al)
        if isinstance(e.func, ast.Attribute) and e.func.attr == "astype" and any(
                k.arg == "copy" and isinstance(k.value, ast.Constant) and k.value.value is False for k in e.keywords):
            return _may_alias(e.func.value, al)
    if isinstance(e, ast.Subscript) and isinstance(e.slice, (ast.Slice, ast.Tuple)) or \
            isinstance(e, ast.Subscript) and isinstance(e.slice, ast.Constant) and e.slice.value is Ellipsis:
        return _may_alias(e.value, al)       # basic slicing of an array is a view
    return set()


def _base(t):
    while isinstance(t, (ast.Subscript, ast.Attribute)):
        t = t.value
    return t


def param_mutations(funcs):
    """funcs: {qualname: FunctionDef} of one module -> {qualname: {param: [(line, what), ...]}}"""
    by_name = {}
    for q, f in funcs.items():
        by_name.setdefault(q.split(".")[-1], []).append(q)
    result = {q: {} for q in funcs}
    changed = True
    rounds = 0
    while changed and rounds < 10:
        changed = False
        rounds += 1
        for q, f in funcs.items():
            found = _scan(q, f, funcs, by_name, result)
            if {k: len(v) for k, v in found.items()} != {k: len(v) for k, v in result[q].items()}:
                result[q] = found
                changed = True
    return result


_ESCAPES = {}


def params_kept_by_identity(func):
    """{parameter: [(line, 'self.attr')]}: the object the caller passed is stored in the instance as it is (no copy)"""
    _scan("<f>", func, {}, {}, {})
    return dict(_ESCAPES.get(id(func), {}))


def _union(a, b):
    return {k: set(a.get(k, ())) | set(b.get(k, ())) for k in set(a) | set(b)}


def _scan(q, f, funcs, by_name, result):
    ps = _params(f)
    found = {}
    escapes = _ESCAPES.setdefault(id(f), {})
    escapes.clear()

    def hit(names, line, what):
        for p in names:
            found.setdefault(p, [])
            if (line, what) not in found[p]:
                found[p].append((line, what))

    def visit_expr(node, al):
        for c in ast.walk(node):
            if isinstance(c, ast.Call):
                if isinstance(c.func, ast.Attribute) and c.func.attr in MUTATING_METHODS:
                    hit(_may_alias(c.func.value, al), c.lineno, f".{c.func.attr}()")
                for k in c.keywords:
                    if k.arg == "out":
                        hit(_may_alias(k.value, al), c.lineno, "out=")
                # calls of functions of this module that change their parameter
                cn = call_name(c) or ""
                short = cn.split(".")[-1]
                cands = [x for x in by_name.get(short, []) if cn == short or cn.startswith(("self.", "cls."))]
                for callee in cands:
                    cps = _params(funcs[callee])
                    if "." in callee and cps and cps[0] in ("self", "cls") and cn.startswith(("self.", "cls.")):
                        cps = cps[1:]
                    for k, a in enumerate(c.args):
                        if k < len(cps) and cps[k] in result.get(callee, {}):
                            hit(_may_alias(a, al), c.lineno, f"{short}() changes its parameter {cps[k]}")
                    for kw in c.keywords:
                        if kw.arg in result.get(callee, {}):
                            hit(_may_alias(kw.value, al), c.lineno, f"{short}() changes its parameter {kw.arg}")

    def run(block, al):
        """forward may-alias analysis: returns the state after the block (assignments are strong updates of the path's state,
        states are joined where paths meet)"""
        for st in block:
            if isinstance(st, (ast.FunctionDef, ast.AsyncFunctionDef, ast.ClassDef)):
                continue
            if isinstance(st, ast.Assign):
                visit_expr(st.value, al)
                new = _may_alias(st.value, al)
                for t in st.targets:
                    if isinstance(t, ast.Name):
                        al[t.id] = set(new)
                    elif isinstance(t, (ast.Subscript, ast.Attribute)):
                        b = _base(t)
                        if isinstance(b, ast.Name) and not (isinstance(t, ast.Attribute) and b.id in ("self", "cls")):
                            hit(al.get(b.id, ()), st.lineno, "store into " + ast.unparse(t)[:30])
                        if isinstance(t, ast.Attribute) and isinstance(b, ast.Name) and b.id == "self" and t.value is b:
                            for p_ in new - {"self"}:
                                escapes.setdefault(p_, []).append((st.lineno, "self." + t.attr))
                    elif isinstance(t, (ast.Tuple, ast.List)):
                        for x in ast.walk(t):
                            if isinstance(x, ast.Name) and isinstance(x.ctx, ast.Store):
                                al[x.id] = set()
                continue
            if isinstance(st, ast.AnnAssign):
                if st.value is not None and isinstance(st.target, ast.Name):
                    visit_expr(st.value, al)
                    al[st.target.id] = _may_alias(st.value, al)
                continue
            if isinstance(st, ast.AugAssign):
                visit_expr(st.value, al)
                b = _base(st.target)
                if isinstance(b, ast.Name) and not getattr(st, "_rebind", False) and not (isinstance(st.target, ast.Attribute) and b.id in ("self", "cls")):
                    if isinstance(st.target, ast.Name) and isinstance(st.value, (ast.Constant, ast.JoinedStr)) and not isinstance(st.op, ast.Mult):
                        pass     # `n += 1`, `s += "x"`: numbers and strings are immutable
                    else:
                        hit(al.get(b.id, ()), st.lineno, ast.unparse(st)[:30])
                continue
            if isinstance(st, ast.Delete):
                for t in st.targets:
                    b = _base(t)
                    if isinstance(b, ast.Name) and b is not t:
                        hit(al.get(b.id, ()), st.lineno, "del " + ast.unparse(t)[:30])
                    elif isinstance(t, ast.Name):
                        al[t.id] = set()
                continue
            if isinstance(st, (ast.For, ast.AsyncFor, ast.While)):
                if isinstance(st, ast.While):
                    visit_expr(st.test, al)
                else:
                    visit_expr(st.iter, al)
                    elem = _may_alias(st.iter, al)       # iterating a container of the caller hands out its elements
                    for x in ast.walk(st.target):
                        if isinstance(x, ast.Name):
                            al[x.id] = set()
                state = dict(al)
                for _ in range(3):       # to a fixpoint for the small lattices at hand
                    after = run(st.body, {k: set(v) for k, v in state.items()})
                    joined = _union(state, after)
                    if joined == state:
                        break
                    state = joined
                al = _union(state, run(st.orelse, {k: set(v) for k, v in state.items()}))
                continue
            if isinstance(st, ast.If):
                visit_expr(st.test, al)
                a1 = run(st.body, {k: set(v) for k, v in al.items()})
                a2 = run(st.orelse, {k: set(v) for k, v in al.items()})
                # `if p is None: p = <fresh>`: on the path where the test holds the name held None, not the caller's object
                al = _union(a1, a2)
                continue
            if isinstance(st, (ast.With, ast.AsyncWith)):
                for i in st.items:
                    visit_expr(i.context_expr, al)
                    if i.optional_vars is not None:
                        for x in ast.walk(i.optional_vars):
                            if isinstance(x, ast.Name):
                                al[x.id] = set()
                al = run(st.body, al)
                continue
            if isinstance(st, ast.Try):
                start = {k: set(v) for k, v in al.items()}
                a_body = run(st.body, {k: set(v) for k, v in al.items()})
                state = _union(start, a_body)
                outs = [run(st.orelse, {k: set(v) for k, v in a_body.items()})]
                for h in st.handlers:
                    outs.append(run(h.body, {k: set(v) for k, v in state.items()}))
                al = outs[0]
                for o in outs[1:]:
                    al = _union(al, o)
                al = run(st.finalbody, al)
                continue
            if isinstance(st, (ast.Return, ast.Raise, ast.Expr)):
                for ch in ast.iter_child_nodes(st):
                    if isinstance(ch, ast.expr):
                        visit_expr(ch, al)
                continue
            for ch in ast.iter_child_nodes(st):
                if isinstance(ch, ast.expr):
                    visit_expr(ch, al)
        return al

    run(f.body, {p: {p} for p in ps})
    return found
