"""
Statement-level control-flow graph with exception edges for one function.

Nodes are simple statements and the heads of compound statements.  Three
distinguished nodes: ENTRY, EXIT (normal return) and RAISE (exception leaves
the function).  `finally` bodies are instantiated once per continuation kind
(normal, exception, return, break, continue) so that paths stay precise.

Which statements may raise is a *policy* passed in by the rule (a predicate on
the statement head): a path nobody can take must not raise an alarm, so there
is no blanket "every call may raise".
"""

import ast
from collections import defaultdict, deque


class Node:
    __slots__ = ("id", "kind", "ast", "label", "line")

    def __init__(self, id, kind, node=None, label=""):
        self.id = id
        self.kind = kind  # entry exit raise stmt test loop handler dispatch join
        self.ast = node
        self.label = label
        self.line = getattr(node, "lineno", None)

    def __repr__(self):
        return f"<{self.id}:{self.kind}:{self.label or (ast.unparse(self.ast)[:40] if self.ast is not None else '')}@{self.line}>"


def head_exprs(st):
    """expressions evaluated by the statement head itself (not nested bodies)"""
    if isinstance(st, (ast.If, ast.While)):
        return [st.test]
    if isinstance(st, (ast.For, ast.AsyncFor)):
        return [st.iter]
    if isinstance(st, (ast.With, ast.AsyncWith)):
        return [i.context_expr for i in st.items]
    if isinstance(st, ast.Try):
        return []
    if isinstance(st, (ast.FunctionDef, ast.AsyncFunctionDef, ast.ClassDef)):
        return list(st.decorator_list)
    if isinstance(st, ast.Match):
        return [st.subject]
    if isinstance(st, ast.expr):
        return [st]
    return [st]


def head_calls(st):
    out = []
    for e in head_exprs(st):
        for n in ast.walk(e):
            if isinstance(n, ast.Call):
                out.append(n)
    return out


class CFG:
    def __init__(self, func, may_raise=None):
        self.func = func
        self.may_raise = may_raise or (lambda st: False)
        self.nodes = []
        self.succ = defaultdict(list)
        self.pred = defaultdict(list)
        self.ekind = {}
        self.entry = self._new("entry", None, "ENTRY")
        self.exit = self._new("exit", None, "EXIT")
        self.raise_ = self._new("raise", None, "RAISE")
        env = {"ret": [], "exc": [], "brk": None, "cont": None}
        out = self._seq(func.body, [(self.entry.id, "n")], env)
        for p in out:
            self._edge(p, self.exit.id)
        for p in env["ret"]:
            self._edge(p, self.exit.id)
        for p in env["exc"]:
            self._edge((p[0], "exc"), self.raise_.id)

    # ---- construction -------------------------------------------------
    def _new(self, kind, node=None, label=""):
        n = Node(len(self.nodes), kind, node, label)
        self.nodes.append(n)
        return n

    def _edge(self, p, b):
        a, k = p[0], p[1]
        if b not in self.succ[a]:
            self.succ[a].append(b)
            self.pred[b].append(a)
        self.ekind[(a, b)] = k

    def _connect(self, preds, n):
        for p in preds:
            self._edge(p, n.id)

    def _stmt_node(self, st, preds, env, kind="stmt"):
        n = self._new(kind, st)
        self._connect(preds, n)
        r = self.may_raise(st)
        if r:
            env["exc"].append((n.id, "exc", None if r is True else frozenset(r)))
        return n

    def _seq(self, stmts, preds, env):
        for st in stmts:
            if not preds:
                break  # unreachable code
            if (
                isinstance(st, ast.Expr)
                and isinstance(st.value, ast.Constant)
                and isinstance(st.value.value, str)
            ):
                continue  # docstring / bare string
            preds = self._visit(st, preds, env)
        return preds

    def _visit(self, st, preds, env):
        if isinstance(st, ast.If):
            n = self._stmt_node(st, preds, env, "test")
            const = _const_truth(st.test)
            t = [] if const is False else self._seq(st.body, [(n.id, "t")], env)
            if const is True:
                f = []
            elif st.orelse:
                f = self._seq(st.orelse, [(n.id, "f")], env)
            else:
                f = [(n.id, "f")]
            return t + f
        if isinstance(st, ast.While):
            n = self._stmt_node(st, preds, env, "loop")
            inner = dict(env, brk=[], cont=[])
            body_out = self._seq(st.body, [(n.id, "t")], inner)
            for p in body_out + inner["cont"]:
                self._edge(p, n.id)
            const = _const_truth(st.test)
            out = [] if const is True else [(n.id, "f")]
            if st.orelse and out:
                out = self._seq(st.orelse, out, env)
            return out + inner["brk"]
        if isinstance(st, (ast.For, ast.AsyncFor)):
            it = self._stmt_node(st, preds, env, "stmt")
            n = self._new("loop", st, "for-head")
            self._edge((it.id, "n"), n.id)
            inner = dict(env, brk=[], cont=[])
            body_out = self._seq(st.body, [(n.id, "t")], inner)
            for p in body_out + inner["cont"]:
                self._edge(p, n.id)
            out = [(n.id, "f")]
            if st.orelse:
                out = self._seq(st.orelse, out, env)
            return out + inner["brk"]
        if isinstance(st, (ast.With, ast.AsyncWith)):
            n = self._stmt_node(st, preds, env, "stmt")
            return self._seq(st.body, [(n.id, "n")], env)
        if isinstance(st, ast.Try):
            return self._try(st, preds, env)
        if isinstance(st, ast.Return):
            n = self._stmt_node(st, preds, env)
            env["ret"].append((n.id, "ret"))
            return []
        if isinstance(st, ast.Raise):
            n = self._new("stmt", st)
            self._connect(preds, n)
            env["exc"].append((n.id, "exc", _raise_types(st)))
            return []
        if isinstance(st, ast.Break):
            n = self._stmt_node(st, preds, env)
            if env["brk"] is not None:
                env["brk"].append((n.id, "n"))
            return []
        if isinstance(st, ast.Continue):
            n = self._stmt_node(st, preds, env)
            if env["cont"] is not None:
                env["cont"].append((n.id, "n"))
            return []
        if isinstance(st, ast.Match):
            n = self._stmt_node(st, preds, env, "test")
            out = []
            exhaustive = False
            for c in st.cases:
                out += self._seq(c.body, [(n.id, "t")], env)
                if isinstance(c.pattern, ast.MatchAs) and c.pattern.pattern is None and c.guard is None:
                    exhaustive = True
            if not exhaustive:
                out.append((n.id, "f"))
            return out
        if isinstance(st, ast.Assert):
            n = self._new("stmt", st)
            self._connect(preds, n)
            env["exc"].append((n.id, "exc", frozenset(["AssertionError"])))
            return [(n.id, "n")]
        # simple statement (incl. nested def/class as opaque)
        n = self._stmt_node(st, preds, env)
        return [(n.id, "n")]

    def _try(self, st, preds, env):
        has_fin = bool(st.finalbody)
        if has_fin:
            inner = {
                "ret": [],
                "exc": [],
                "brk": [] if env["brk"] is not None else None,
                "cont": [] if env["cont"] is not None else None,
            }
        else:
            inner = env
        if st.handlers:
            body_env = dict(inner, exc=[])
        else:
            body_env = inner
        out = self._seq(st.body, preds, body_env)
        if st.orelse:
            out = self._seq(st.orelse, out, inner)
        if st.handlers and body_env["exc"]:
            disp = self._new("dispatch", st, "except-dispatch")
            for p in body_env["exc"]:
                self._edge((p[0], "exc"), disp.id)
            catch_all = False
            caught = set()
            for h in st.handlers:
                hn = self._new("handler", h, "except " + (ast.unparse(h.type) if h.type else ""))
                self._edge((disp.id, "n"), hn.id)
                out = out + self._seq(h.body, [(hn.id, "n")], inner)
                if h.type is None:
                    catch_all = True
                else:
                    names = [h.type] if not isinstance(h.type, ast.Tuple) else h.type.elts
                    for nm in names:
                        if isinstance(nm, ast.Name) and nm.id in ("Exception", "BaseException"):
                            catch_all = True
                        d = ast.unparse(nm).split(".")[-1]
                        caught.add(d)
            if not catch_all:
                # propagate only what no handler is known to catch
                rest = set()
                unknown = False
                for p in body_env["exc"]:
                    ty = p[2] if len(p) > 2 else None
                    if ty is None:
                        unknown = True
                    else:
                        rest |= set(ty) - caught
                if unknown or rest:
                    inner["exc"].append((disp.id, "exc", None if unknown else frozenset(rest)))
        if has_fin:
            out = self._seq(st.finalbody, out, env) if out else []
            for kind in ("ret", "exc", "brk", "cont"):
                col = inner[kind]
                if col:
                    j = self._new("join", st, f"finally-after-{kind}")
                    for p in col:
                        self._edge(p, j.id)
                    o = self._seq(st.finalbody, [(j.id, "n")], env)
                    for p in o:
                        if kind == "exc":
                            tys = [q[2] if len(q) > 2 else None for q in col]
                            ty = None if any(t is None for t in tys) else frozenset().union(*tys)
                            env[kind].append((p[0], "exc", ty))
                        else:
                            env[kind].append((p[0], p[1]))
        return out

    # ---- queries ------------------------------------------------------
    def reachable(self, start_ids, blocked=frozenset(), skip_exc=False):
        seen = set()
        dq = deque(start_ids)
        while dq:
            a = dq.popleft()
            if a in seen or a in blocked:
                continue
            seen.add(a)
            for b in self.succ[a]:
                if skip_exc and self.ekind.get((a, b)) == "exc":
                    continue
                if b not in seen and b not in blocked:
                    dq.append(b)
        return seen

    def path(self, start, goal, blocked=frozenset()):
        """a shortest path start -> goal avoiding `blocked` (list of Node) or None"""
        if start in blocked:
            return None
        prev = {start: None}
        dq = deque([start])
        while dq:
            a = dq.popleft()
            if a == goal:
                out = []
                while a is not None:
                    out.append(self.nodes[a])
                    a = prev[a]
                return out[::-1]
            for b in self.succ[a]:
                if b not in prev and b not in blocked:
                    prev[b] = a
                    dq.append(b)
        return None

    def find(self, pred):
        return [n for n in self.nodes if n.ast is not None and n.kind in ("stmt", "test", "loop") and pred(n)]

    def dominators(self):
        """dom[n] = set of node ids dominating n (reachable nodes only)"""
        reach = self.reachable([self.entry.id])
        order = self._rpo(reach)
        dom = {n: set(reach) for n in reach}
        dom[self.entry.id] = {self.entry.id}
        changed = True
        while changed:
            changed = False
            for n in order:
                if n == self.entry.id:
                    continue
                ps = [p for p in self.pred[n] if p in reach]
                if ps:
                    new = set.intersection(*(dom[p] for p in ps)) | {n}
                else:
                    new = {n}
                if new != dom[n]:
                    dom[n] = new
                    changed = True
        return dom

    def _rpo(self, reach):
        seen = set()
        post = []

        def dfs(a):
            stack = [(a, iter(self.succ[a]))]
            seen.add(a)
            while stack:
                node, it = stack[-1]
                for b in it:
                    if b in reach and b not in seen:
                        seen.add(b)
                        stack.append((b, iter(self.succ[b])))
                        break
                else:
                    post.append(node)
                    stack.pop()

        dfs(self.entry.id)
        return post[::-1]

    def postdominators(self, exits=None):
        """postdom over a virtual sink joining EXIT and RAISE"""
        exits = exits or [self.exit.id, self.raise_.id]
        reach = self.reachable([self.entry.id])
        SINK = -1
        succ = {n: [b for b in self.succ[n] if b in reach] for n in reach}
        for e in exits:
            if e in reach:
                succ[e] = [SINK]
        succ[SINK] = []
        nodes = list(reach) + [SINK]
        pdom = {n: set(nodes) for n in nodes}
        pdom[SINK] = {SINK}
        changed = True
        while changed:
            changed = False
            for n in nodes:
                if n == SINK:
                    continue
                ss = succ[n]
                if ss:
                    new = set.intersection(*(pdom[s] for s in ss)) | {n}
                else:
                    new = {n}
                if new != pdom[n]:
                    pdom[n] = new
                    changed = True
        return pdom

    def control_deps(self):
        """cd[n] = set of (test node id, edge kind) n is control dependent on"""
        pdom = self.postdominators()
        cd = defaultdict(set)
        for a in list(self.succ):
            if a not in pdom:
                continue
            if len(self.succ[a]) < 2:
                continue
            for b in self.succ[a]:
                if b not in pdom:
                    continue
                # n is control dependent on edge a->b iff n postdominates b
                # and does not strictly postdominate a
                for n in pdom[b]:
                    if n == -1:
                        continue
                    if n in pdom[a] and n != a:
                        continue
                    cd[n].add((a, self.ekind.get((a, b), "n")))
        return cd


def _raise_types(st):
    """exception type names of a raise statement; None = unknown (re-raise)"""
    if st.exc is None:
        return None
    e = st.exc.func if isinstance(st.exc, ast.Call) else st.exc
    try:
        return frozenset([ast.unparse(e).split(".")[-1]])
    except Exception:
        return None


def _const_truth(e):
    if isinstance(e, ast.Constant):
        return bool(e.value)
    return None


def must_pass(cfg, starts, is_target, goals):
    """Every path from a node in `starts` to a node in `goals` passes a target
    node.  Returns None if it holds, else a witness path (list of Node)."""
    targets = {n.id for n in cfg.nodes if n.ast is not None and is_target(n)}
    for s in starts:
        if s in targets:
            continue
        for g in goals:
            p = cfg.path(s, g, blocked=targets)
            if p is not None:
                return p
    return None
