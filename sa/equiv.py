"""
Equivalence of a function with a reference text, modulo the normal forms of the engine.

`same_function(func, reference_source)`: both are copied, every `for` over a literal sequence is written out
(normalize.unroll_new_literal_loops without reference loops), both are summarised (exprnorm.summarize: final result
expression and refusing guards as expressions in the parameters, with in-place effects as terms) and the canonical forms
are compared.  The reference text is the behaviour the rule demands, written as code; any spelling of the same
computation that the normal forms identify is accepted, anything else - a second loop whose result is returned instead,
another digit order, a dropped update - differs.  A function the summariser cannot model (`unsupported`) equals nothing.
"""

import ast
import copy

from . import normalize
from .exprnorm import canon, summarize


def _unrolled(func):
    mod = ast.Module(body=[copy.deepcopy(func)], type_ignores=[])
    normalize.unroll_new_literal_loops(mod, {})
    normalize._Aug().visit(mod)
    ast.fix_missing_locations(mod)
    return mod.body[0]


def summary_form(func, env0=None):
    """(canonical result, sorted canonical guards) or None if the function cannot be summarised"""
    fn = _unrolled(func)
    sm = summarize(fn, env0=env0)
    if sm.unsupported or (sm.result is None and sm.always_raises):
        return None
    if sm.result is None:
        sm.result = ast.Constant(None)          # a procedure: falls off its end
    try:
        # what the function does to the objects it was handed belongs to its behaviour: the final term of every parameter that
        # is not simply the parameter itself (an in-place change, a call that may write it)
        params = [a.arg for a in fn.args.posonlyargs + fn.args.args + fn.args.kwonlyargs]
        left = []
        for p_ in params:
            v = sm.env.get("@" + p_, sm.env.get(p_))
            if v is not None and (any(isinstance(c_, ast.Call) and (getattr(c_.func, "id", "") or "").startswith("__") for c_ in ast.walk(v))
                                  or "@" + p_ in sm.env and not (isinstance(v, ast.Name) and v.id == p_)):
                left.append((p_, repr(canon(v))))
        # values that are computed and never read (`_ = 1 // (2 - x.ndim)`): evaluated for nothing but the exception they may raise
        loaded = {x.id for x in ast.walk(fn) if isinstance(x, ast.Name) and isinstance(x.ctx, ast.Load)}
        dead = sorted(repr(canon(st.value)) for st in ast.walk(fn) if isinstance(st, ast.Assign) and len(st.targets) == 1
                      and isinstance(st.targets[0], ast.Name) and st.targets[0].id not in loaded and st.targets[0].id not in params
                      and not isinstance(st.value, (ast.Constant, ast.Name)))
        return canon(sm.result), tuple(sorted((repr(canon(g)) for g in sm.guards))), tuple(left), tuple(dead)
    except Exception:
        return None


def same_function(func, reference_source, env0=None):
    """-> (equal, what the code computes (text, truncated))"""
    ref = ast.parse(reference_source).body[0]
    a, b = summary_form(func, env0), summary_form(ref, env0)
    if b is None:
        raise ValueError("reference text cannot be summarised")
    shown = "not summarisable"
    if a is not None:
        from .exprnorm import show
        shown = show(a[0], 200)
    return a is not None and a == b, shown
