"""
Shared analyses of the trace tables used by the dynamic-programming aligners
(tracetable.pyx / tracetable.pxd).

selector_check   the functions get_trace_linear / get_trace_affine touch their
                 score arguments only through comparisons, so their behaviour is
                 a function of the *weak ordering* of each argument group: they
                 are evaluated from the AST under every ordering (abstract
                 domain = order types) against the oracle "flag set = arg-max
                 set, stored value = maximum".
dispatch_check   follow_trace tests every trace flag; for a flag A_TO_B it
                 moves to B's predecessor cell and continues in state A; each
                 state mask is the union of the *_TO_<state> flags.
stencil          the predecessor cells of match / gap_left / gap_top, banded
                 and non-banded, as written in follow_trace.
"""

import ast
import itertools

from .astutil import call_name, dotted, names_in, param_names, stmts, walk_local
from .core import AnalysisError

TT = "sequence/align/tracetable.pyx"
PXD = "sequence/align/tracetable.pxd"
CMP = {ast.Gt: lambda a, b: a > b, ast.Lt: lambda a, b: a < b, ast.Eq: lambda a, b: a == b,
       ast.GtE: lambda a, b: a >= b, ast.LtE: lambda a, b: a <= b, ast.NotEq: lambda a, b: a != b}


def enums(ctx):
    low = ctx.src(PXD).low
    need = ("TraceDirectionLinear", "TraceDirectionAffine", "TraceState")
    for n in need:
        if n not in low.enums or not low.enums[n]:
            raise AnalysisError(f"anchor vanished: enum {n} in tracetable.pxd")
    return {n: {k: int(v) for k, v in low.enums[n].items()} for n in need}


def flag_names(e):
    """set of enum member names in a |-expression"""
    out = set()
    for n in ast.walk(e):
        if isinstance(n, ast.Attribute) and isinstance(n.value, ast.Name) and n.value.id.startswith("TraceDirection"):
            out.add(n.attr)
    return out


def comparison_only(func, score_params):
    """every use of a score parameter is an operand of a comparison with another
    score parameter or the value stored into max_*[0]"""
    bad = []
    parents = {}
    for p in ast.walk(func):
        for ch in ast.iter_child_nodes(p):
            parents[id(ch)] = p
    for n in ast.walk(func):
        if isinstance(n, ast.Name) and n.id in score_params and isinstance(n.ctx, ast.Load):
            par = parents.get(id(n))
            if isinstance(par, ast.Compare):
                others = [x for x in [par.left] + par.comparators if x is not n]
                if all(isinstance(o, ast.Name) and o.id in score_params for o in others):
                    continue
            if isinstance(par, ast.Assign) and par.value is n and isinstance(par.targets[0], ast.Subscript):
                continue
            bad.append(n)
    return bad


def evaluate(func, values):
    """interpret the if/elif structure; returns (flag set, {pointer: value})"""
    flags = set()
    stored = {}

    def test(t):
        if isinstance(t, ast.Compare) and len(t.ops) == 1:
            return CMP[type(t.ops[0])](values[t.left.id], values[t.comparators[0].id])
        raise AnalysisError("selector: unsupported test " + ast.unparse(t))

    def run(body):
        nonlocal flags
        for st in body:
            if isinstance(st, ast.If):
                run(st.body if test(st.test) else st.orelse)
            elif isinstance(st, ast.Assign) and isinstance(st.targets[0], ast.Name) and st.targets[0].id == "trace":
                flags = set(flag_names(st.value))
            elif isinstance(st, ast.AugAssign) and isinstance(st.target, ast.Name) and st.target.id == "trace" \
                    and isinstance(st.op, ast.BitOr):
                flags |= flag_names(st.value)
            elif isinstance(st, ast.Assign) and isinstance(st.targets[0], ast.Subscript) \
                    and isinstance(st.targets[0].value, ast.Name) and isinstance(st.value, ast.Name):
                stored[st.targets[0].value.id] = values[st.value.id]
            elif isinstance(st, (ast.Return, ast.Pass)):
                pass
            elif isinstance(st, ast.Expr) and isinstance(st.value, ast.Constant):
                pass
            else:
                raise AnalysisError("selector: unsupported statement " + ast.unparse(st)[:60])

    run(func.body)
    return flags, stored


def orderings(n):
    """one representative value tuple per weak ordering of n items"""
    seen = set()
    out = []
    for tup in itertools.product(range(n), repeat=n):
        ranks = sorted(set(tup))
        norm = tuple(ranks.index(v) for v in tup)
        if norm not in seen:
            seen.add(norm)
            out.append(norm)
    return out


def selector_check(ctx, rule, qual, groups):
    """groups: [(pointer name, [score params])]"""
    src = ctx.src(TT)
    f = src.func(qual)
    score_params = [p for _, ps in groups for p in ps]
    missing = [p for p in score_params if p not in param_names(f)]
    if missing:
        raise AnalysisError(f"anchor vanished: parameters {missing} of {qual}")
    bad = comparison_only(f, set(score_params))
    ctx.ob(rule + ".comparison-only", TT, qual, f"{len(score_params)} score arguments used only in comparisons and stores",
           not bad, "a score argument is used outside comparisons: the ordering enumeration is not exhaustive "
           f"(`{ast.unparse(bad[0])}` at line {bad[0].lineno})" if bad else "", f.lineno)
    if bad:
        return 0
    per_group = [orderings(len(ps)) for _, ps in groups]
    n = 0
    for combo in itertools.product(*per_group):
        values = {}
        for (ptr, ps), tup in zip(groups, combo):
            for p, v in zip(ps, tup):
                values[p] = v * 10 + 1
        flags, stored = evaluate(f, values)
        ok = True
        why = ""
        for (ptr, ps), tup in zip(groups, combo):
            mx = max(values[p] for p in ps)
            want = {p[:-len("_score")].upper() for p in ps if values[p] == mx}
            got = flags & {p[:-len("_score")].upper() for p in ps}
            if got != want:
                ok = False
                why = f"group {ptr}: flags {sorted(got)} but the maximal candidates are {sorted(want)}"
            if stored.get(ptr) != mx:
                ok = False
                why += f"; {ptr}[0] receives a value that is not the maximum"
        n += 1
        desc = ", ".join(f"{p}={values[p]}" for p in score_params)
        ctx.ob(rule + ".argmax-flags", TT, qual, f"ordering {desc}", ok,
               f"under the ordering {desc} the selector yields {why}: the traceback then misses a co-optimal "
               "predecessor or follows a non-optimal one, and the stored score is not the cell's optimum", f.lineno)
    return n


def stencil(ctx):
    """{banded(bool): {'match': (di, dj), 'gap_left': ..., 'gap_top': ...}} from follow_trace.
    The predecessor cells are the variables i_<move>, j_<move>; they are assigned in the two arms of `if banded:` or,
    when both arms agree, once before it."""
    f = ctx.src(TT).func("follow_trace")
    out = {}
    MOVES = ("match", "gap_left", "gap_top")

    def cell_assignments(stmts_):
        cells = {}
        for b in stmts_:
            pairs = []
            if isinstance(b, ast.Assign) and isinstance(b.targets[0], ast.Tuple) and isinstance(b.value, ast.Tuple) \
                    and len(b.targets[0].elts) == len(b.value.elts):
                pairs = list(zip(b.targets[0].elts, b.value.elts))
            elif isinstance(b, ast.Assign) and isinstance(b.targets[0], ast.Name):
                pairs = [(b.targets[0], b.value)]
            for t, v in pairs:
                if not isinstance(t, ast.Name):
                    continue
                axis, _, move = t.id.partition("_")
                if axis not in ("i", "j") or move not in MOVES:
                    continue
                off = None
                if isinstance(v, ast.Name) and v.id == axis:
                    off = 0
                elif isinstance(v, ast.BinOp) and isinstance(v.left, ast.Name) and v.left.id == axis and isinstance(v.right, ast.Constant) \
                        and isinstance(v.op, (ast.Add, ast.Sub)):
                    off = v.right.value * (1 if isinstance(v.op, ast.Add) else -1)
                if off is None:
                    raise AnalysisError("anchor vanished: predecessor cell " + ast.unparse(b)[:60])
                cells.setdefault(move, {})[axis] = off
        return cells

    for parent in ast.walk(f):
        for fld in ("body", "orelse"):
            block = getattr(parent, fld, None)
            if not isinstance(block, list):
                continue
            for k, st in enumerate(block):
                if isinstance(st, ast.If) and isinstance(st.test, ast.Name) and st.test.id == "banded":
                    common = cell_assignments(block[:k])
                    for banded, body in ((True, st.body), (False, st.orelse)):
                        cells = {m: dict(d) for m, d in common.items()}
                        for m, d in cell_assignments(body).items():
                            cells.setdefault(m, {}).update(d)
                        sten = {m: (d["i"], d["j"]) for m, d in cells.items() if "i" in d and "j" in d}
                        if banded in out and out[banded] != sten:
                            raise AnalysisError("follow_trace: linear and affine parts use different stencils")
                        out[banded] = sten
    if set(out) != {True, False} or any(set(v) != set(MOVES) for v in out.values()):
        raise AnalysisError("anchor vanished: stencil assignments of follow_trace")
    return out


def dispatch_check(ctx, rule):
    en = enums(ctx)
    f = ctx.src(TT).func("follow_trace")
    top = next(st for st in f.body if isinstance(st, ast.If))
    lin_body, aff_body = top.body, top.orelse
    n = 0
    # linear
    seen = {}
    for st in ast.walk(ast.Module(body=lin_body, type_ignores=[])):
        if isinstance(st, ast.If) and isinstance(st.test, ast.BinOp) and isinstance(st.test.op, ast.BitAnd) \
                and flag_names(st.test):
            fl = next(iter(flag_names(st.test)))
            apps = [c for b in st.body for c in ast.walk(b) if isinstance(c, ast.Call) and (call_name(c) or "").endswith("next_indices.append")]
            if apps:
                cell = [e.id for e in apps[0].args[0].elts]
                seen[fl] = cell
    for fl in en["TraceDirectionLinear"]:
        n += 1
        want = [f"i_{fl.lower()}", f"j_{fl.lower()}"]
        ctx.ob(rule + ".linear-dispatch", TT, "follow_trace", f"{fl} -> {seen.get(fl)}", seen.get(fl) == want,
               f"flag {fl} must move to the predecessor cell ({', '.join(want)}); found {seen.get(fl)}", f.lineno)
    # affine
    seen = {}
    for st in ast.walk(ast.Module(body=aff_body, type_ignores=[])):
        if isinstance(st, ast.If) and isinstance(st.test, ast.BinOp) and isinstance(st.test.op, ast.BitAnd) \
                and isinstance(st.test.left, ast.Name) and len(flag_names(st.test)) == 1:
            fl = next(iter(flag_names(st.test)))
            cell, state = None, None
            for b in st.body:
                for c in ast.walk(b):
                    if isinstance(c, ast.Call) and (call_name(c) or "").endswith("next_indices.append"):
                        cell = [e.id for e in c.args[0].elts]
                    if isinstance(c, ast.Call) and (call_name(c) or "").endswith("next_states.append"):
                        state = dotted(c.args[0]).split(".")[-1]
            seen[fl] = (cell, state)
    for fl in en["TraceDirectionAffine"]:
        n += 1
        a, _, b = fl.partition("_TO_")
        want = ([f"i_{b.lower()}", f"j_{b.lower()}"], f"{a}_STATE")
        ctx.ob(rule + ".affine-dispatch", TT, "follow_trace", f"{fl} -> cell {seen.get(fl, (None, None))[0]}, state {seen.get(fl, (None, None))[1]}",
               seen.get(fl) == want,
               f"flag {fl} (come from table {a} into table {b}) must step to {b}'s predecessor cell and continue "
               f"in {a}_STATE; found {seen.get(fl)}", f.lineno)
    # state masks
    masks = []
    for node in ast.walk(ast.Module(body=aff_body, type_ignores=[])):
        # (state == TraceState.X and table & (A|B) != 0)   and   if state == X: trace_value = table & (A|B)
        if isinstance(node, ast.BoolOp) and isinstance(node.op, ast.And):
            st = [dotted(c.comparators[0]).split(".")[-1] for c in node.values
                  if isinstance(c, ast.Compare) and isinstance(c.left, ast.Name) and c.left.id == "state"]
            fl = set()
            for c in node.values:
                if not (isinstance(c, ast.Compare) and isinstance(c.left, ast.Name) and c.left.id == "state"):
                    fl |= flag_names(c)
            if st and fl:
                masks.append((st[0], fl))
    # if/elif/else chain assigning trace_value
    for node in ast.walk(ast.Module(body=aff_body, type_ignores=[])):
        if isinstance(node, ast.If) and isinstance(node.test, ast.Compare) and isinstance(node.test.left, ast.Name) \
                and node.test.left.id == "state":
            chain = node
            states_seen = []
            while True:
                stt = dotted(chain.test.comparators[0]).split(".")[-1]
                states_seen.append(stt)
                asg = [b for b in chain.body if isinstance(b, ast.Assign) and isinstance(b.targets[0], ast.Name) and b.targets[0].id == "trace_value"]
                if asg:
                    masks.append((stt, flag_names(asg[0].value)))
                if chain.orelse and isinstance(chain.orelse[0], ast.If) and isinstance(chain.orelse[0].test, ast.Compare):
                    chain = chain.orelse[0]
                else:
                    asg = [b for b in chain.orelse if isinstance(b, ast.Assign) and isinstance(b.targets[0], ast.Name) and b.targets[0].id == "trace_value"]
                    if asg:
                        rest = [s_ for s_ in ("MATCH_STATE", "GAP_LEFT_STATE", "GAP_TOP_STATE") if s_ not in states_seen]
                        if len(rest) == 1:
                            masks.append((rest[0], flag_names(asg[0].value)))
                    break
            break
    if len(masks) < 6:
        raise AnalysisError("anchor vanished: state masks of follow_trace")
    for stt, fl in masks:
        n += 1
        b = stt[:-len("_STATE")]
        want = {m for m in en["TraceDirectionAffine"] if m.endswith("_TO_" + b)}
        ctx.ob(rule + ".state-mask", TT, "follow_trace", f"{stt}: {sorted(fl)}", fl == want,
               f"in {stt} exactly the flags {sorted(want)} are meaningful; the mask uses {sorted(fl)}", f.lineno)
    # flags are distinct powers of two
    for name in ("TraceDirectionLinear", "TraceDirectionAffine"):
        vals = sorted(en[name].values())
        ctx.ob(rule + ".flag-values", PXD, name, str(vals),
               all(v & (v - 1) == 0 and v > 0 for v in vals) and len(set(vals)) == len(vals) and max(vals) < 256,
               "trace flags must be distinct single bits fitting the uint8 trace table", 1)
    # branching is bounded
    for body, tag in ((lin_body, "linear"), (aff_body, "affine")):
        rec = [c for b in body for c in ast.walk(b) if isinstance(c, ast.Call) and call_name(c) == "follow_trace"]
        guarded = True
        for c in rec:
            ok = False
            for node in ast.walk(ast.Module(body=body, type_ignores=[])):
                if isinstance(node, ast.If) and "curr_trace_count[0] < max_trace_count" in ast.unparse(node.test) \
                        and any(x is c for x in ast.walk(node)):
                    ok = any(isinstance(b, ast.AugAssign) and "curr_trace_count[0]" in ast.unparse(b.target) for b in node.body)
            guarded = guarded and ok
        n += 1
        ctx.ob(rule + ".branch-budget", TT, "follow_trace", f"{tag}: {len(rec)} recursive branch(es) behind count < max with increment",
               bool(rec) and guarded, "every additional trace must be counted against max_trace_count before it is followed",
               f.lineno)
        copied = all("np.copy(trace)" in ast.unparse(c) for c in rec)
        ctx.ob(rule + ".branch-copies-trace", TT, "follow_trace", f"{tag}: branch continues on np.copy(trace)", copied,
               "a branch must continue on its own copy of the partial trace", f.lineno)
    return n
