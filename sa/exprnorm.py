"""
Expression summaries of straight-line numeric functions and a canonical form
to compare them with a specification expression *modulo harmless rewrites*.

summarize(func) symbolically composes the function body into one expression
over its parameters (never executing anything):
  * `x = e` binds, `x op= e` composes, `x[s] = e` becomes __set__(x, s, e);
  * `a, b = call` gives __item__(call, i);
  * `if t: ... else: ...` merges differing bindings into conditional
    expressions; a branch ending in `raise` is recorded as a guard (a
    precondition) and does not contribute; an early `return` becomes the
    true-arm of a conditional around the remainder;
  * helpers named in `mutators` (name -> indices of arguments changed in place)
    rebind those arguments to __mut__<name>(args...);
  * loops / with / try are opaque: names bound inside become fresh symbols.

canon(expr) maps an expression to nested tuples such that expressions equal
under the following laws get equal forms: commutativity/associativity of
+, *, &, | and of and/or; a - b = a + (-b), sign distribution over sums and
products; associativity of @; np.matmul(a, b) = a @ b; x.sum/mean/copy(...) =
np.sum/mean/copy(x, ...); `linalg.` = `np.linalg.`; a > b = b < a; `x is not
None`-conditionals with swapped arms; keyword order; lower slice bound 0.
Local names, temporaries and statement order (where dataflow is unchanged)
therefore do not matter.  Anything else is kept literally.
"""

import ast
import copy

from .astutil import call_name
from .core import AnalysisError


class _Subst(ast.NodeTransformer):
    def __init__(self, env):
        self.env = env

    def visit_Name(self, node):
        if isinstance(node.ctx, ast.Load) and node.id in self.env:
            return copy.deepcopy(self.env[node.id])
        return node

    def visit_Lambda(self, node):
        return node

    def visit_ListComp(self, node):
        return node

    visit_GeneratorExp = visit_SetComp = visit_DictComp = visit_ListComp


def subst(e, env):
    return _Subst(env).visit(copy.deepcopy(e))


def _call(name, *args):
    return ast.Call(func=ast.Name(id=name, ctx=ast.Load()), args=list(args), keywords=[])


def _assigned_names(stmts_):
    out = set()
    for st in stmts_:
        for n in ast.walk(st):
            if isinstance(n, ast.Name) and isinstance(n.ctx, (ast.Store, ast.Del)):
                out.add(n.id)
            elif isinstance(n, (ast.Assign, ast.AugAssign)):
                for t in (n.targets if isinstance(n, ast.Assign) else [n.target]):
                    attr = False
                    while isinstance(t, (ast.Subscript, ast.Attribute)):
                        attr = attr or isinstance(t, ast.Attribute)
                        t = t.value
                    if isinstance(t, ast.Name) and not attr:   # `obj.a = ...` leaves the name `obj` bound to the same object
                        out.add(t.id)
    return out


_NEVER_NONE = (ast.BinOp, ast.Compare, ast.List, ast.Tuple, ast.Dict, ast.Set, ast.JoinedStr, ast.ListComp, ast.BoolOp)


def _known_truth(test):
    """True/False if the (substituted) test is decided syntactically, else None"""
    if isinstance(test, ast.Constant):
        return bool(test.value)
    if isinstance(test, ast.UnaryOp) and isinstance(test.op, ast.Not):
        k = _known_truth(test.operand)
        return None if k is None else not k
    if isinstance(test, ast.Compare) and len(test.ops) == 1 and isinstance(test.ops[0], (ast.Is, ast.IsNot)) \
            and isinstance(test.comparators[0], ast.Constant) and test.comparators[0].value is None:
        l = test.left
        is_none = None
        if isinstance(l, ast.Constant):
            is_none = l.value is None
        elif isinstance(l, _NEVER_NONE):
            is_none = False
        if is_none is None:
            return None
        return is_none if isinstance(test.ops[0], ast.Is) else not is_none
    return None


class Summary:
    def __init__(self):
        self.guards = []   # test expressions whose truth raises
        self.result = None
        self.env = {}


def summarize(func, mutators=None):
    mutators = mutators or {}
    sm = Summary()

    def ends_in_raise(block):
        return bool(block) and isinstance(block[-1], ast.Raise)

    pc = []   # branch conditions under which the current block runs (raising guards before it are implicit by order)

    def guard(test):
        conds = [copy.deepcopy(c) for c in pc] + [test]
        sm.guards.append(conds[0] if len(conds) == 1 else ast.BoolOp(op=ast.And(), values=conds))

    def run_under(cond, block, env):
        pc.append(cond)
        try:
            return run(block, env)
        finally:
            pc.pop()

    def neg(t):
        return ast.UnaryOp(op=ast.Not(), operand=copy.deepcopy(t))

    def run(block, env):
        """returns (env, ret) - ret is an expression if every path through the block returned"""
        for i, st in enumerate(block):
            if isinstance(st, ast.Expr) and isinstance(st.value, ast.Constant):
                continue
            if isinstance(st, (ast.Import, ast.ImportFrom, ast.Pass, ast.Global, ast.Nonlocal, ast.Assert)):
                continue
            if isinstance(st, ast.Return):
                return env, subst(st.value, env) if st.value is not None else ast.Constant(None)
            if isinstance(st, ast.Raise):
                return env, None
            if isinstance(st, (ast.Assign, ast.AnnAssign)):
                if isinstance(st, ast.AnnAssign):
                    if st.value is None:
                        continue
                    targets = [st.target]
                else:
                    targets = st.targets
                val = subst(st.value, env)
                for t in targets:
                    _bind(t, val, env)
                continue
            if isinstance(st, ast.AugAssign):
                t = st.target
                cur = subst(_load(t), env)
                val = ast.BinOp(left=cur, op=st.op, right=subst(st.value, env))
                _bind(t, val, env)
                continue
            if isinstance(st, ast.Expr) and isinstance(st.value, ast.Call):
                cn = call_name(st.value)
                c_ = st.value
                # list building: `xs.append(e)` / `xs.extend([..])` on a local bound to a list literal
                if isinstance(c_.func, ast.Attribute) and isinstance(c_.func.value, ast.Name) and c_.func.attr in ("append", "extend") \
                        and len(c_.args) == 1 and not c_.keywords and isinstance(env.get(c_.func.value.id), ast.List):
                    cur = env[c_.func.value.id]
                    arg = subst(c_.args[0], env)
                    if c_.func.attr == "append":
                        env[c_.func.value.id] = ast.List(elts=list(cur.elts) + [arg], ctx=ast.Load())
                        continue
                    if isinstance(arg, (ast.List, ast.Tuple)):
                        env[c_.func.value.id] = ast.List(elts=list(cur.elts) + list(arg.elts), ctx=ast.Load())
                        continue
                if cn in mutators:
                    args = [subst(a, env) for a in st.value.args]
                    for k in mutators[cn]:
                        a = st.value.args[k]
                        base = a
                        while isinstance(base, ast.Subscript):
                            base = base.value
                        if isinstance(base, ast.Name):
                            _bind(a if isinstance(a, ast.Name) else a, _call(f"__mut__{cn}", *copy.deepcopy(args)), env)
                continue
            if isinstance(st, ast.If):
                test = subst(st.test, env)
                known = _known_truth(test)
                if known is not None:
                    # the test is decided by what is bound (e.g. `acc is None` right after `acc = None`)
                    env, r = run(st.body if known else st.orelse, env)
                    if r is not None:
                        return env, r
                    continue
                if ends_in_raise(st.body) and not st.orelse:
                    guard(test)
                    continue
                if ends_in_raise(st.body) and st.orelse:
                    guard(test)
                    env, r = run(st.orelse, env)
                    if r is not None:
                        return env, r
                    continue
                if st.orelse and ends_in_raise(st.orelse) and not any(isinstance(x, ast.If) for x in st.orelse[:-1]):
                    guard(neg(test))
                    env, r = run(st.body, env)
                    if r is not None:
                        return env, r
                    continue
                e1, r1 = run_under(test, st.body, dict(env))
                e2, r2 = run_under(neg(test), st.orelse, dict(env)) if st.orelse else (dict(env), None)
                rest = block[i + 1:]
                if r1 is not None and r2 is not None:
                    return env, ast.IfExp(test=test, body=r1, orelse=r2)
                if r1 is not None:
                    envr, rr = run_under(neg(test), rest, e2)
                    return envr, (ast.IfExp(test=test, body=r1, orelse=rr) if rr is not None else None)
                if r2 is not None:
                    envr, rr = run_under(test, rest, e1)
                    return envr, (ast.IfExp(test=test, body=rr, orelse=r2) if rr is not None else None)
                merged = dict(env)
                for n in set(e1) | set(e2):
                    a = e1.get(n, ast.Name(id=n, ctx=ast.Load()))
                    b = e2.get(n, ast.Name(id=n, ctx=ast.Load()))
                    if ast.dump(a) == ast.dump(b):
                        merged[n] = a
                    else:
                        merged[n] = ast.IfExp(test=copy.deepcopy(test), body=a, orelse=b)
                env = merged
                continue
            # opaque compound statement
            for n in _assigned_names([st]):
                env[n] = ast.Name(id=n + "'", ctx=ast.Load())
        return env, None

    def _load(t):
        t = copy.deepcopy(t)
        for n in ast.walk(t):
            if hasattr(n, "ctx"):
                n.ctx = ast.Load()
        return t

    def _bind(t, val, env):
        if isinstance(t, ast.Name):
            env[t.id] = val
        elif isinstance(t, (ast.Tuple, ast.List)):
            if isinstance(val, (ast.Tuple, ast.List)) and len(val.elts) == len(t.elts):
                for a, b in zip(t.elts, val.elts):
                    _bind(a, b, env)
            else:
                for k, a in enumerate(t.elts):
                    _bind(a, _call("__item__", copy.deepcopy(val), ast.Constant(k)), env)
        elif isinstance(t, ast.Subscript):
            base = t.value
            cur = subst(_load(base), env)
            new = _call("__set__", cur, subst(_slice_expr(t.slice), env), val)
            _bind(base, new, env)
        elif isinstance(t, ast.Attribute):
            base = t.value
            if isinstance(base, ast.Name):
                env[base.id] = _call("__setattr__", subst(_load(base), env), ast.Constant(t.attr), val)
        elif isinstance(t, ast.Starred):
            _bind(t.value, val, env)

    def _slice_expr(s):
        return ast.Subscript(value=ast.Name(id="__idx__", ctx=ast.Load()), slice=copy.deepcopy(s), ctx=ast.Load())

    env, ret = run(list(func.body), {})
    sm.result = ret
    sm.env = env
    return sm


# ---------------------------------------------------------------------------
# canonical form

_METHOD_TO_FUNC = {"sum": "np.sum", "mean": "np.mean", "copy": "np.copy", "astype": "np.astype", "transpose": "np.transpose"}
_FUNC_ALIASES = {"linalg.inv": "np.linalg.inv", "linalg.det": "np.linalg.det", "linalg.norm": "np.linalg.norm",
                 "numpy.tile": "np.tile", "cos": "np.cos", "sin": "np.sin"}


def _neg(c):
    if isinstance(c, tuple) and c and c[0] == "neg":
        return c[1]
    if isinstance(c, tuple) and c and c[0] == "+":
        return ("+",) + tuple(sorted((_neg(t) for t in c[1:]), key=repr))
    if isinstance(c, tuple) and c and c[0] == "const" and isinstance(c[1], (int, float)) and not isinstance(c[1], bool):
        return ("const", -c[1])
    return ("neg", c)


def _assume(c, t, val):
    """simplify conditionals on the same test inside an arm where the test's value is known"""
    if not isinstance(c, tuple):
        return c
    if len(c) == 4 and c[0] == "if" and c[1] == t:
        return _assume(c[2] if val else c[3], t, val)
    return tuple(_assume(x, t, val) for x in c)


_SEQ_FUNCS = {"np.concatenate", "np.stack", "np.hstack", "np.vstack", "np.column_stack"}


def _hoist(c, depth=0):
    """conditionals to the top: f(.., (if t a b), ..) -> if t f(.., a, ..) f(.., b, ..)"""
    if not isinstance(c, tuple) or depth > 6:
        return c
    if c and c[0] == "if" and len(c) == 4:
        t, a, b = c[1], _hoist(c[2], depth), _hoist(c[3], depth)
        a, b = _assume(a, t, True), _assume(b, t, False)
        return a if a == b else ("if", t, a, b)
    kids = [_hoist(x, depth) for x in c]
    for k, x in enumerate(kids):
        if isinstance(x, tuple) and len(x) == 4 and x[0] == "if" and k > 0:
            t = x[1]
            left = tuple(kids[:k]) + (x[2],) + tuple(kids[k + 1:])
            right = tuple(kids[:k]) + (x[3],) + tuple(kids[k + 1:])
            a, b = _hoist(_assume(left, t, True), depth + 1), _hoist(_assume(right, t, False), depth + 1)
            return a if a == b else ("if", t, a, b)
    return tuple(kids)


def _has_sequence_operand(e):
    """does a chain of + contain an operand that is visibly a string, list or tuple (then + is concatenation)"""
    def seqlike(x):
        if isinstance(x, ast.Constant) and isinstance(x.value, (str, bytes)):
            return True
        if isinstance(x, (ast.JoinedStr, ast.List, ast.Tuple, ast.ListComp)):
            return True
        if isinstance(x, ast.Call):
            fn = ast.unparse(x.func)
            if fn in ("str", "repr", "list", "tuple", "chr", "format") or fn.endswith((".join", ".format", ".strip", ".lower", ".upper", ".ljust", ".rjust", ".replace")):
                return True
        return False

    def walk(x):
        if isinstance(x, ast.BinOp) and isinstance(x.op, ast.Add):
            return walk(x.left) or walk(x.right)
        return seqlike(x)
    return walk(e)


def _seqfix(c):
    if not isinstance(c, tuple):
        return c
    c = tuple(_seqfix(x) for x in c)
    if len(c) >= 3 and c[0] == "call" and c[1] in _SEQ_FUNCS and isinstance(c[2], tuple) and c[2] and c[2][0] in ("list", "tuple"):
        c = c[:2] + (("seq",) + c[2][1:],) + c[3:]
    return c


def canon(e):
    return _seqfix(_hoist(_canon(e)))


def _canon(e):
    if isinstance(e, ast.Name):
        return e.id
    if isinstance(e, ast.Constant):
        return ("const", e.value if not isinstance(e.value, type(Ellipsis)) else "...")
    if isinstance(e, ast.Attribute):
        d = ast.unparse(e)
        if d in _FUNC_ALIASES:
            return _FUNC_ALIASES[d]
        return ("attr", _canon(e.value), e.attr)
    if isinstance(e, ast.UnaryOp):
        if isinstance(e.op, ast.USub):
            return _neg(_canon(e.operand))
        if isinstance(e.op, ast.UAdd):
            return _canon(e.operand)
        if isinstance(e.op, ast.Not):
            c = _canon(e.operand)
            return c[1] if isinstance(c, tuple) and c[0] == "not" else ("not", c)
        return ("~", _canon(e.operand))
    if isinstance(e, ast.BinOp):
        if isinstance(e.op, ast.Add) and _has_sequence_operand(e):
            # concatenation of strings / lists / tuples is ordered
            parts = []

            def flats(x):
                if isinstance(x, ast.BinOp) and isinstance(x.op, ast.Add):
                    flats(x.left); flats(x.right)
                else:
                    parts.append(_canon(x))
            flats(e)
            return ("concat",) + tuple(parts)
        if isinstance(e.op, (ast.Add, ast.Sub)):
            terms = []

            def flat(x, sign):
                if isinstance(x, ast.BinOp) and isinstance(x.op, ast.Add):
                    flat(x.left, sign); flat(x.right, sign)
                elif isinstance(x, ast.BinOp) and isinstance(x.op, ast.Sub):
                    flat(x.left, sign); flat(x.right, -sign)
                elif isinstance(x, ast.UnaryOp) and isinstance(x.op, ast.USub):
                    flat(x.operand, -sign)
                else:
                    c = _canon(x)
                    if isinstance(c, tuple) and c and c[0] == "+":
                        for t in c[1:]:
                            terms.append(t if sign > 0 else _neg(t))
                    else:
                        terms.append(c if sign > 0 else _neg(c))
            flat(e, 1)
            return ("+",) + tuple(sorted(terms, key=repr))
        if isinstance(e.op, ast.Mult):
            facs = []
            sign = [1]

            def flatm(x):
                if isinstance(x, ast.BinOp) and isinstance(x.op, ast.Mult):
                    flatm(x.left); flatm(x.right)
                else:
                    c = _canon(x)
                    if isinstance(c, tuple) and c and c[0] == "neg":
                        sign[0] = -sign[0]; c = c[1]
                    if isinstance(c, tuple) and c and c[0] == "*":
                        facs.extend(c[1:])
                    else:
                        facs.append(c)
            flatm(e)
            r = ("*",) + tuple(sorted(facs, key=repr))
            return r if sign[0] > 0 else ("neg", r)
        if isinstance(e.op, ast.MatMult):
            parts = []

            def flatmm(x):
                if isinstance(x, ast.BinOp) and isinstance(x.op, ast.MatMult):
                    flatmm(x.left); flatmm(x.right)
                elif isinstance(x, ast.Call) and call_name(x) == "np.matmul" and len(x.args) == 2 and not x.keywords:
                    flatmm(x.args[0]); flatmm(x.args[1])
                else:
                    parts.append(_canon(x))
            flatmm(e)
            return ("@",) + tuple(parts)
        if isinstance(e.op, (ast.BitAnd, ast.BitOr)):
            k = type(e.op)
            parts = []

            def flatb(x):
                if isinstance(x, ast.BinOp) and isinstance(x.op, k):
                    flatb(x.left); flatb(x.right)
                else:
                    parts.append(_canon(x))
            flatb(e)
            return ("&" if k is ast.BitAnd else "|",) + tuple(sorted(parts, key=repr))
        return (type(e.op).__name__, _canon(e.left), _canon(e.right))
    if isinstance(e, ast.BoolOp):
        return ("and" if isinstance(e.op, ast.And) else "or",) + tuple(sorted((_canon(v) for v in e.values), key=repr))
    if isinstance(e, ast.Compare):
        if len(e.ops) == 1:
            a, b, op = _canon(e.left), _canon(e.comparators[0]), e.ops[0]
            if isinstance(op, ast.Gt):
                return ("<", b, a)
            if isinstance(op, ast.GtE):
                return ("<=", b, a)
            if isinstance(op, ast.Lt):
                return ("<", a, b)
            if isinstance(op, ast.LtE):
                return ("<=", a, b)
            if isinstance(op, (ast.Eq, ast.NotEq)):
                x, y = sorted((a, b), key=repr)
                return ("==" if isinstance(op, ast.Eq) else "!=", x, y)
            if isinstance(op, ast.IsNot):
                return ("not", ("is", a, b))
            if isinstance(op, ast.Is):
                return ("is", a, b)
        return ("cmp", tuple(type(o).__name__ for o in e.ops), _canon(e.left)) + tuple(_canon(c) for c in e.comparators)
    if isinstance(e, ast.IfExp):
        t, a, b = _canon(e.test), _canon(e.body), _canon(e.orelse)
        if isinstance(t, tuple) and t and t[0] == "not":
            t, a, b = t[1], b, a
        a, b = _assume(a, t, True), _assume(b, t, False)
        if a == b:
            return a
        return ("if", t, a, b)
    if isinstance(e, ast.Call):
        fn = e.func
        args = [_canon(a) for a in e.args]
        kws = tuple(sorted(((k.arg or "**", _canon(k.value)) for k in e.keywords), key=repr))
        if isinstance(fn, ast.Attribute):
            d = ast.unparse(fn)
            base_is_mod = isinstance(fn.value, ast.Name) and fn.value.id in ("np", "numpy", "linalg", "math") or \
                (isinstance(fn.value, ast.Attribute) and ast.unparse(fn.value) in ("np.linalg", "numpy.linalg"))
            if base_is_mod:
                name = _FUNC_ALIASES.get(d, d)
                if name == "np.matmul" and len(args) == 2 and not kws:
                    return _canon(ast.BinOp(left=e.args[0], op=ast.MatMult(), right=e.args[1]))
                if name in _SEQ_FUNCS and args and isinstance(args[0], tuple) and args[0] and args[0][0] in ("list", "tuple"):
                    args[0] = ("seq",) + args[0][1:]
                return ("call", name) + tuple(args) + (kws,)
            if fn.attr in _METHOD_TO_FUNC:
                return ("call", _METHOD_TO_FUNC[fn.attr], _canon(fn.value)) + tuple(args) + (kws,)
            return ("mcall", _canon(fn.value), fn.attr) + tuple(args) + (kws,)
        name = ast.unparse(fn)
        name = _FUNC_ALIASES.get(name, name)
        return ("call", name) + tuple(args) + (kws,)
    if isinstance(e, ast.Subscript):
        return ("[]", _canon(e.value), _canon(e.slice))
    if isinstance(e, ast.Slice):
        lo = _canon(e.lower) if e.lower is not None else None
        if lo == ("const", 0):
            lo = None
        return ("slice", lo, _canon(e.upper) if e.upper is not None else None, _canon(e.step) if e.step is not None else None)
    if isinstance(e, (ast.Tuple, ast.List)):
        return ("tuple" if isinstance(e, ast.Tuple) else "list",) + tuple(_canon(x) for x in e.elts)
    if isinstance(e, ast.Starred):
        return ("*arg", _canon(e.value))
    return ("raw", ast.unparse(e))


def spec(src):
    return canon(ast.parse(src, mode="eval").body)


def result_matches(func, spec_src, mutators=None):
    sm = summarize(func, mutators)
    if sm.result is None:
        raise AnalysisError(f"anchor vanished: {func.name} has no single result expression")
    return canon(sm.result) == spec(spec_src), sm


def show(c, limit=160):
    s = repr(c)
    return s if len(s) <= limit else s[:limit] + "..."


def check_spec(ctx, rule, rel, qual, spec_src, reason, var=None, mutators=None):
    """obligation: the summary of `qual` (its result, or the final value of
    `var`) equals the specification expression modulo the laws of canon()"""
    f = ctx.src(rel).func(qual)
    sm = summarize(f, mutators)
    got = sm.result if var is None else sm.env.get(var)
    if got is None:
        raise AnalysisError(f"anchor vanished: {qual} has no summarisable {'result' if var is None else var}")
    ok = canon(got) == spec(spec_src)
    txt = ast.unparse(got)
    txt = txt if len(txt) < 300 else txt[:300] + "..."
    ctx.ob(rule, rel, qual, ("result" if var is None else var) + " == " + spec_src, ok,
           reason + f"; the code computes {txt}", f.lineno)
    return ok


def same_expr(node, src):
    """is the expression equal to `src` modulo the laws of canon() (comparison orientation, commutativity, ...)"""
    return node is not None and canon(node) == spec(src)


def contains_expr(root, src):
    """does some sub-expression of `root` equal `src` modulo canon()"""
    want = spec(src)
    for n in ast.walk(root):
        if isinstance(n, ast.expr):
            try:
                if canon(n) == want:
                    return True
            except Exception:
                continue
    return False


def summarize_block(stmts_, skip=lambda st: False):
    """final bindings of a statement list treated as straight-line code (e.g. one loop iteration); `skip` drops statements"""
    body = [copy.deepcopy(st) for st in stmts_ if not skip(st)] or [ast.Pass()]
    fn = ast.FunctionDef(name="_block", args=ast.arguments(posonlyargs=[], args=[], kwonlyargs=[], kw_defaults=[], defaults=[]),
                         body=body, decorator_list=[], returns=None, type_comment=None)
    ast.fix_missing_locations(fn)
    return summarize(fn)
