"""
Expression summaries of straight-line numeric functions and a canonical form
to compare them with a specification expression *modulo harmless rewrites*.

summarize(func) symbolically composes the function body into one expression
over its parameters (never executing anything):
  * `x = e` binds, `x op= e` composes, `x[s] = e` becomes __set__(x, s, e);
  * `a, b = call` gives __item__(call, i);
  * `if t: ... else: ...` merges differing bindings into conditional
    expressions; a branch ending in `raise` is recorded as a guard (a
    precondition) and does not contribute; an early `return` becomes the
    true-arm of a conditional around the remainder;
  * helpers named in `mutators` (name -> indices of arguments changed in place)
    rebind those arguments to __mut__<name>(args...);
  * loops / with / try are opaque: names bound inside become fresh symbols.

canon(expr) maps an expression to nested tuples such that expressions equal
under the following laws get equal forms: commutativity/associativity of
+, *, &, | and of and/or; a - b = a + (-b), sign distribution over sums and
products; associativity of @; np.matmul(a, b) = a @ b; x.sum/mean/copy(...) =
np.sum/mean/copy(x, ...); `linalg.` = `np.linalg.`; a > b = b < a; `x is not
None`-conditionals with swapped arms; keyword order; lower slice bound 0.
Local names, temporaries and statement order (where dataflow is unchanged)
therefore do not matter.  Anything else is kept literally.
"""

import ast
import copy

from . import alias as _alias
from .astutil import call_name
from .core import AnalysisError


class _Subst(ast.NodeTransformer):
    def __init__(self, env):
        self.env = env

    def visit_Name(self, node):
        if isinstance(node.ctx, ast.Load) and node.id in self.env:
            return copy.deepcopy(self.env[node.id])
        return node

    def _scoped(self, node, bound):
        inner = _Subst({k: v for k, v in self.env.items() if k not in bound})
        return inner.generic_visit(node)

    def visit_Lambda(self, node):
        a = node.args
        bound = {x.arg for x in a.posonlyargs + a.args + a.kwonlyargs} | ({a.vararg.arg} if a.vararg else set()) | ({a.kwarg.arg} if a.kwarg else set())
        return self._scoped(node, bound)

    def visit_ListComp(self, node):
        bound = set()
        for g in node.generators:
            bound |= {n.id for n in ast.walk(g.target) if isinstance(n, ast.Name)}
        return self._scoped(node, bound)

    visit_GeneratorExp = visit_SetComp = visit_DictComp = visit_ListComp


def subst(e, env):
    return fold(_Subst(env).visit(copy.deepcopy(e)))


def _call(name, *args):
    return ast.Call(func=ast.Name(id=name, ctx=ast.Load()), args=list(args), keywords=[])


def _assigned_names(stmts_):
    out = set()
    for st in stmts_:
        for n in ast.walk(st):
            if isinstance(n, ast.Name) and isinstance(n.ctx, (ast.Store, ast.Del)):
                out.add(n.id)
            elif isinstance(n, ast.alias) and n.name != "*":
                out.add((n.asname or n.name).split(".")[0])
            elif isinstance(n, (ast.FunctionDef, ast.AsyncFunctionDef, ast.ClassDef)):
                out.add(n.name)
            elif isinstance(n, ast.ExceptHandler) and n.name:
                out.add(n.name)
            elif isinstance(n, (ast.Assign, ast.AugAssign)):
                for t in (n.targets if isinstance(n, ast.Assign) else [n.target]):
                    attr = False
                    while isinstance(t, (ast.Subscript, ast.Attribute)):
                        attr = attr or isinstance(t, ast.Attribute)
                        t = t.value
                    if isinstance(t, ast.Name) and not attr:   # `obj.a = ...` leaves the name `obj` bound to the same object
                        out.add(t.id)
    return out


_NEVER_NONE = (ast.BinOp, ast.Compare, ast.List, ast.Tuple, ast.Dict, ast.Set, ast.JoinedStr, ast.ListComp)
# names of modules: a method call on them changes no local object.  (`self` / `cls` are objects: `self.rescale()`, `setattr(self, ..)`
# may change any field)
_MODULE_NAMES = {"np", "numpy", "warnings", "math", "sys", "os", "re", "itertools", "logging", "struct", "nx", "Chem", "AllChem", "functools",
                 "operator", "collections", "numbers", "copy"}


def _mutated_names(st):
    """names whose object is (possibly) changed in place inside the statement without the name being rebound"""
    out = set()
    for n in ast.walk(st):
        if isinstance(n, ast.Expr) and isinstance(n.value, ast.Call):
            c_ = n.value
            if isinstance(c_.func, ast.Attribute):
                base = c_.func.value
                while isinstance(base, (ast.Subscript, ast.Attribute)):
                    base = base.value
                if isinstance(base, ast.Name) and base.id not in _MODULE_NAMES:
                    out.add(base.id)
        if isinstance(n, ast.Call):
            for k in n.keywords:
                if k.arg == "out":
                    base = k.value
                    while isinstance(base, (ast.Subscript, ast.Attribute)):
                        base = base.value
                    if isinstance(base, ast.Name):
                        out.add(base.id)
        if isinstance(n, (ast.Assign, ast.AugAssign)):
            for t in (n.targets if isinstance(n, ast.Assign) else [n.target]):
                attr = False
                while isinstance(t, (ast.Subscript, ast.Attribute)):
                    attr = attr or isinstance(t, ast.Attribute)
                    t = t.value
                if isinstance(t, ast.Name) and attr and t.id not in ("self", "cls"):
                    out.add(t.id)
        elif isinstance(n, (ast.Subscript, ast.Attribute)) and isinstance(n.ctx, (ast.Store, ast.Del)):
            # a store wherever it stands: the target of a for / with / comprehension / annotated assignment / walrus / del
            t = n
            while isinstance(t, (ast.Subscript, ast.Attribute)):
                t = t.value
            if isinstance(t, ast.Name) and t.id not in ("self", "cls"):
                out.add(t.id)
    return out


def _scalar_like(rhs, cur):
    """`x += <string>`: strings are immutable, the augmented assignment is a plain rebinding"""
    return isinstance(rhs, ast.JoinedStr) or isinstance(rhs, ast.Constant) and isinstance(rhs.value, (str, bytes))


def _symconst(e):
    """identity of a named constant: a literal, or an attribute chain ending in an upper-case member of a name (CigarOp.MATCH)"""
    if isinstance(e, ast.Constant):
        return ("lit", type(e.value).__name__, e.value)
    if isinstance(e, ast.Attribute) and e.attr.isupper():
        b = e
        parts = []
        while isinstance(b, ast.Attribute):
            parts.append(b.attr)
            b = b.value
        if isinstance(b, ast.Name):
            return ("member", ".".join([b.id] + parts[::-1]))
    return None


ENUMS = {}      # "CigarOp" / "Location.Strand" -> {member: value}: enumerations whose class body was read (register_enums)


def register_enums(tree):
    """remember the members of every Enum / IntEnum / Flag class of a module (values that are literals, auto() or arithmetic on
    literals); a member assigned from outside the class body (`CigarOp.CLIP = ..`) makes the whole enumeration unknown"""
    from .astutil import const_eval, NotConst

    def visit(node, prefix):
        for ch in ast.iter_child_nodes(node):
            if isinstance(ch, ast.ClassDef):
                q = prefix + ch.name
                if any((isinstance(b_, ast.Name) and b_.id in ("Enum", "IntEnum", "Flag", "IntFlag")) or
                       (isinstance(b_, ast.Attribute) and b_.attr in ("Enum", "IntEnum", "Flag", "IntFlag")) for b_ in ch.bases):
                    members, k_auto, ok = {}, 0, True
                    for st in ch.body:
                        if isinstance(st, ast.Assign) and len(st.targets) == 1 and isinstance(st.targets[0], ast.Name):
                            k_auto += 1
                            v = st.value
                            if isinstance(v, ast.Call) and isinstance(v.func, ast.Name) and v.func.id == "auto":
                                members[st.targets[0].id] = ("auto", k_auto)
                            else:
                                try:
                                    members[st.targets[0].id] = const_eval(v)
                                except Exception:
                                    ok = False
                    if ok and members:
                        ENUMS[q] = members
                visit(ch, prefix + ch.name + ".")
            elif not isinstance(ch, (ast.FunctionDef, ast.AsyncFunctionDef)):
                visit(ch, prefix)
    visit(tree, "")
    for st in ast.walk(tree):
        if isinstance(st, (ast.Assign, ast.AugAssign)):
            for t in (st.targets if isinstance(st, ast.Assign) else [st.target]):
                if isinstance(t, ast.Attribute):
                    d_ = []
                    b_ = t
                    while isinstance(b_, ast.Attribute):
                        d_.append(b_.attr)
                        b_ = b_.value
                    if isinstance(b_, ast.Name):
                        owner = ".".join([b_.id] + d_[::-1][:-1])
                        ENUMS.pop(owner, None)
                        ENUMS[owner] = None
        elif isinstance(st, ast.Call) and isinstance(st.func, ast.Name) and st.func.id == "setattr" and st.args:
            try:
                ENUMS[ast.unparse(st.args[0])] = None
            except Exception:
                pass


def _const_equal(a, b):
    """True / False when `a == b` is decided for two named constants, else None: literals by Python's own equality
    (1 == 1.0 == True); members of one enumeration that was read by their values (aliases are equal); members of an
    enumeration that was not read only when they are spelled alike"""
    if a[0] == "lit" and b[0] == "lit":
        try:
            return bool(a[2] == b[2])
        except Exception:
            return None
    if a[0] == "member" and b[0] == "member":
        if a[1] == b[1]:
            return True
        oa, ma = a[1].rsplit(".", 1)
        ob, mb = b[1].rsplit(".", 1)
        if oa == ob and ENUMS.get(oa):
            va, vb = ENUMS[oa].get(ma, _UNKNOWN), ENUMS[oa].get(mb, _UNKNOWN)
            if va is _UNKNOWN or vb is _UNKNOWN:
                return None
            return va == vb
        return None
    return None


_UNKNOWN = object()


def _comparable(consts):
    """can equality among these named constants be decided by their identity: all literals, or all members of ONE enumeration
    (a member and a literal, or members of two IntEnums, may be equal although they are spelled differently)"""
    kinds = {c[0] for c in consts}
    if kinds == {"lit"}:
        return True
    if kinds == {"member"}:
        return len({c[1].rsplit(".", 1)[0] for c in consts}) == 1
    return False


def fold(e):
    """look-ups of named constants in literal tables: `{K1: v1, K2: v2}[K2]` -> v2, `(a, b)[1]` -> b (after substitution)"""
    class F(ast.NodeTransformer):
        def visit_Subscript(self, n):
            self.generic_visit(n)
            if isinstance(n.ctx, ast.Load) and isinstance(n.value, ast.Dict) and _symconst(n.slice) is not None \
                    and all(k is not None and _symconst(k) is not None for k in n.value.keys) \
                    and all(_const_equal(_symconst(n.slice), _symconst(k)) is not None for k in n.value.keys):
                # a repeated key keeps its LAST value
                hit = [v for k, v in zip(n.value.keys, n.value.values) if _const_equal(_symconst(k), _symconst(n.slice))]
                if hit and not any(isinstance(y, (ast.Call, ast.Await, ast.NamedExpr)) for v in n.value.values if v is not hit[-1] for y in ast.walk(v)):
                    return hit[-1]
            if isinstance(n.ctx, ast.Load) and isinstance(n.value, (ast.Tuple, ast.List)) and isinstance(n.slice, ast.Constant) \
                    and isinstance(n.slice.value, int) and not isinstance(n.slice.value, bool) and -len(n.value.elts) <= n.slice.value < len(n.value.elts) \
                    and not any(isinstance(x, ast.Starred) for x in n.value.elts) \
                    and not any(isinstance(y, (ast.Call, ast.Await, ast.Yield, ast.YieldFrom, ast.NamedExpr)) for k_, x in enumerate(n.value.elts)
                                if k_ != n.slice.value % len(n.value.elts) for y in ast.walk(x)):
                return n.value.elts[n.slice.value]
            return n

        def visit_IfExp(self, n):
            self.generic_visit(n)
            k = _known_truth(n.test)
            return n if k is None else (n.body if k else n.orelse)

        def visit_Call(self, n):
            self.generic_visit(n)
            # {K1: v1, K2: v2}.get(K[, default]) over a literal table with comparable keys
            if isinstance(n.func, ast.Attribute) and n.func.attr == "get" and isinstance(n.func.value, ast.Dict) and 1 <= len(n.args) <= 2 \
                    and not n.keywords and _symconst(n.args[0]) is not None \
                    and all(k is not None and _symconst(k) is not None for k in n.func.value.keys) \
                    and all(_const_equal(_symconst(n.args[0]), _symconst(k)) is not None for k in n.func.value.keys):
                hit = [v for k, v in zip(n.func.value.keys, n.func.value.values) if _const_equal(_symconst(k), _symconst(n.args[0]))]
                return hit[-1] if hit else (n.args[1] if len(n.args) == 2 else ast.Constant(None))
            # Enum(Enum.MEMBER) is Enum.MEMBER
            if isinstance(n.func, ast.Name) and len(n.args) == 1 and not n.keywords:
                sc = _symconst(n.args[0])
                if sc is not None and sc[0] == "member" and sc[1].split(".")[0] == n.func.id:
                    return n.args[0]
            return n
    return F().visit(e)


def _known_truth(test):
    """True/False if the (substituted) test is decided syntactically, else None"""
    if isinstance(test, ast.Constant):
        return bool(test.value)
    if isinstance(test, ast.UnaryOp) and isinstance(test.op, ast.Not):
        k = _known_truth(test.operand)
        return None if k is None else not k
    if isinstance(test, ast.BoolOp):
        ks = [_known_truth(v) for v in test.values]
        if isinstance(test.op, ast.And):
            return False if any(k is False for k in ks) else True if all(k is True for k in ks) else None
        return True if any(k is True for k in ks) else False if all(k is False for k in ks) else None
    if isinstance(test, ast.Compare) and len(test.ops) == 1 and isinstance(test.ops[0], (ast.Eq, ast.NotEq, ast.In, ast.NotIn)):
        # named constants (enumeration members, literals) compared with each other / looked up in a literal collection
        l, r, op = _symconst(test.left), test.comparators[0], test.ops[0]
        if l is not None:
            if isinstance(op, (ast.Eq, ast.NotEq)) and _symconst(r) is not None:
                eq = _const_equal(l, _symconst(r))
                if eq is None:
                    return None      # `CigarOp.SOFT_CLIP == 4`, a member whose value is not known: not decided by the spelling
                return eq if isinstance(op, ast.Eq) else not eq
            if isinstance(op, (ast.In, ast.NotIn)):
                items = r.elts if isinstance(r, (ast.Tuple, ast.List, ast.Set)) else r.keys if isinstance(r, ast.Dict) else None
                if items is not None and all(i is not None and _symconst(i) is not None for i in items):
                    cs = [_symconst(i) for i in items]
                    eqs = [_const_equal(l, c_) for c_ in cs]
                    if any(e_ is True for e_ in eqs):
                        inside = True
                    elif all(e_ is False for e_ in eqs):
                        inside = False
                    else:
                        return None
                    return inside if isinstance(op, ast.In) else not inside
    if isinstance(test, ast.Compare) and len(test.ops) == 1 and isinstance(test.ops[0], (ast.Is, ast.IsNot)) \
            and isinstance(test.comparators[0], ast.Constant) and test.comparators[0].value is None:
        l = test.left
        is_none = None
        if isinstance(l, ast.Constant):
            is_none = l.value is None
        elif isinstance(l, _NEVER_NONE):
            is_none = False
        if is_none is None:
            return None
        return is_none if isinstance(test.ops[0], ast.Is) else not is_none
    return None


class Unsupported(Exception):
    """the function uses a construct the summariser does not model: callers must fail closed"""


class Summary:
    def __init__(self):
        self.guards = []   # test expressions whose truth raises
        self.result = None
        self.env = {}
        self.unsupported = None   # reason why the summary is not trustworthy (then result is None and env is empty)
        self.always_raises = False  # every path through the function / block ends in a raise


_FRESH_CALLS = {"np.copy", "np.array", "np.zeros", "np.ones", "np.full", "np.empty", "np.arange", "np.concatenate", "np.stack",
                "np.where", "np.sum", "np.mean", "np.sqrt", "np.abs", "np.dot", "np.matmul", "np.cross", "np.round", "np.diff",
                "np.cumsum", "np.tile", "np.repeat", "np.transpose", "np.swapaxes", "list", "dict", "set", "tuple", "sorted", "str", "int", "float"}
_PURE_STATEMENT_CALLS = {"print", "warnings.warn", "warn", "logging.warning", "logging.info", "logging.debug", "isinstance", "len"}


_UFUNCS2 = {"add", "subtract", "multiply", "divide", "true_divide", "floor_divide", "power", "mod", "remainder", "maximum", "minimum",
            "bitwise_and", "bitwise_or", "bitwise_xor", "logical_and", "logical_or", "logical_xor", "greater", "less", "equal",
            "not_equal", "greater_equal", "less_equal", "matmul", "dot", "fmax", "fmin", "hypot", "arctan2", "left_shift", "right_shift",
            "clip", "take", "choose", "compress"}
_UFUNCS1 = {"abs", "absolute", "negative", "sqrt", "square", "exp", "log", "sin", "cos", "tan", "floor", "ceil", "rint", "round",
            "around", "sign", "invert", "logical_not", "isnan", "isfinite", "conjugate", "reciprocal", "copyto", "fix", "isneginf", "isposinf",
            "positive", "exp2", "expm1", "log2", "log10", "log1p", "arcsin", "arccos", "arctan", "sinh", "cosh", "tanh", "deg2rad", "rad2deg",
            "trunc", "fabs", "signbit", "spacing", "cbrt", "bitwise_not", "isinf", "conj"}
# position of `out` when it is given positionally to numpy's reductions / accumulations / selections (function form)
_NP_OUT_POS = {"sum": 3, "prod": 3, "mean": 3, "std": 3, "var": 3, "cumsum": 3, "cumprod": 3, "nansum": 3, "nanprod": 3, "nanmean": 3, "nancumsum": 3,
               "nancumprod": 3, "nanstd": 3, "nanvar": 3, "min": 2, "max": 2, "amin": 2, "amax": 2, "nanmin": 2, "nanmax": 2, "any": 2, "all": 2,
               "argmin": 2, "argmax": 2, "nanargmin": 2, "nanargmax": 2, "round": 2, "around": 2, "round_": 2, "ptp": 2, "trace": 5, "median": 2,
               "nanmedian": 2, "percentile": 3, "quantile": 3, "nanpercentile": 3, "nanquantile": 3, "accumulate": 3, "reduce": 3, "reduceat": 4,
               "concatenate": 2, "stack": 2, "choose": 2, "compress": 3, "take": 3, "clip": 3, "dot": 2, "divmod": 2, "modf": 1, "frexp": 1,
               "outer": 2, "einsum": 99, "cumulative_sum": 99, "cumulative_prod": 99}


_PLAIN_MANAGERS = {"open", "warnings.catch_warnings", "np.errstate", "numpy.errstate", "NamedTemporaryFile", "tempfile.NamedTemporaryFile",
                   "TemporaryDirectory", "tempfile.TemporaryDirectory", "io.StringIO", "io.BytesIO", "StringIO", "BytesIO", "gzip.open",
                   "tarfile.open", "zipfile.ZipFile", "contextlib.nullcontext", "nullcontext", "contextlib.redirect_stdout"}


def _plain_manager(e):
    """a context manager known to let exceptions pass (files, warnings filters, numpy error state, Cython's nogil)"""
    if isinstance(e, ast.Name):
        return e.id in ("nogil", "gil")
    if isinstance(e, ast.Call):
        return (call_name(e) or "") in _PLAIN_MANAGERS
    return False


_FIRST_ARG_WRITERS = {"copyto", "put", "place", "putmask", "put_along_axis", "fill_diagonal", "shuffle"}
# position of the `out` parameter of ndarray methods when it is given positionally
_METHOD_OUT_POSITION = {"clip": 2, "take": 2, "choose": 1, "compress": 2, "sum": 2, "prod": 2, "mean": 2, "cumsum": 2, "cumprod": 2, "round": 1,
                        "any": 1, "all": 1, "max": 1, "min": 1, "argmax": 1, "argmin": 1, "dot": 1, "var": 2, "std": 2, "ptp": 1, "trace": 4}


def _is_immutable(e):
    if isinstance(e, ast.Compare):
        # `a is b`, `k in d` give a bool; `a != b` of arrays gives an array that `m &= ..` changes in place
        return all(isinstance(o, (ast.Is, ast.IsNot, ast.In, ast.NotIn)) for o in e.ops)
    return isinstance(e, (ast.Constant, ast.JoinedStr)) or isinstance(e, ast.UnaryOp) and isinstance(e.operand, ast.Constant) \
        or _alias.named_constant(e) or isinstance(e, ast.Tuple) and all(_is_immutable(x) for x in e.elts)


def _is_fresh(e):
    """does the expression denote a new object (so that changing it in place cannot be seen from outside)"""
    if isinstance(e, (ast.BinOp, ast.UnaryOp, ast.Compare, ast.Constant, ast.List, ast.Tuple, ast.Dict, ast.Set, ast.ListComp, ast.JoinedStr, ast.BoolOp)):
        return True
    if isinstance(e, ast.IfExp):
        return _is_fresh(e.body) and _is_fresh(e.orelse)
    if _alias.named_constant(e):
        return True      # enumeration member / named constant of a class or module: immutable (`x.T` is part of x)
    if isinstance(e, ast.Attribute) and e.attr in ("min", "max", "eps", "bits") and isinstance(e.value, ast.Call) \
            and (call_name(e.value) or "") in ("np.iinfo", "np.finfo"):
        return True      # a Python number
    if isinstance(e, ast.Call) and (call_name(e) or "") in ("len", "min", "max", "abs", "round", "ord", "hash", "bool"):
        return True      # scalars: `x op= e` on them is a plain rebinding
    if isinstance(e, ast.Call):
        fn = call_name(e) or ""
        if fn in _FRESH_CALLS or fn.startswith("__aug") or fn == "__set__" and _is_fresh(e.args[0]):
            return True
        if isinstance(e.func, ast.Attribute) and e.func.attr in ("copy", "astype", "reshape") and e.func.attr == "copy":
            return True
        if isinstance(e.func, ast.Attribute) and e.func.attr == "astype" and not any(k.arg == "copy" for k in e.keywords):
            return True
    return False


def _has_exit(block, loop_level=True):
    """does the statement list contain a return (any depth) or a continue/break of the enclosing loop"""
    for st in block or []:
        if isinstance(st, ast.Return):
            return True
        if isinstance(st, (ast.Continue, ast.Break)) and loop_level:
            return True
        if isinstance(st, (ast.FunctionDef, ast.AsyncFunctionDef, ast.ClassDef)):
            continue
        inner_loop = isinstance(st, (ast.For, ast.While, ast.AsyncFor))
        for field in ("body", "orelse", "finalbody"):
            if _has_exit(getattr(st, field, None), loop_level and not inner_loop):
                return True
        for h in getattr(st, "handlers", []) or []:
            if _has_exit(h.body, loop_level):
                return True
        for c in getattr(st, "cases", []) or []:
            if _has_exit(c.body, loop_level):
                return True
    return False


def _has_yield(func):
    todo = list(func.body)
    while todo:
        n = todo.pop()
        if isinstance(n, (ast.Yield, ast.YieldFrom)):
            return True
        if isinstance(n, (ast.FunctionDef, ast.AsyncFunctionDef, ast.ClassDef, ast.Lambda)):
            continue
        todo.extend(ast.iter_child_nodes(n))
    return False


class _Raise:
    def __repr__(self):
        return "RAISE"


RAISE = _Raise()


class _PoisonEnv(dict):
    def __init__(self, reason):
        super().__init__()
        self.reason = reason

    def get(self, k, d=None):
        return ast.Name(id="__unsupported__", ctx=ast.Load())

    def __getitem__(self, k):
        return ast.Name(id="__unsupported__", ctx=ast.Load())

    def __contains__(self, k):
        return True


_KNOWN_CALLEES = None


def _unknown_callee(c_):
    """a callee (by the name normalize._callee_name remembers: `f`, `np.f`, `.method`) that no reference source calls"""
    global _KNOWN_CALLEES
    from . import normalize, localnames
    if _KNOWN_CALLEES is None:
        known = set()
        for rel_, ent in localnames.table().items():
            if isinstance(ent, dict) and isinstance(ent.get("__inventory__"), dict):
                known.update(ent["__inventory__"].get("call_positional", {}))
        _KNOWN_CALLEES = known
    if not _KNOWN_CALLEES:
        return False
    nm = normalize._callee_name(c_)
    if nm is None:
        return True
    if isinstance(c_.func, ast.Name) and (nm in PURE_CALLEES or nm[:1].isupper()):
        return False
    return nm not in _KNOWN_CALLEES


PURE_CALLEES = set()      # names of functions known to change none of their arguments (set by rules from effects.param_mutations)


def summarize(func, mutators=None, env0=None):
    """see module docstring.  `env0`: initial bindings (partial evaluation: a parameter fixed to a named constant, module-level
    literal tables), under which tests that become decidable are decided.  If the function uses a construct that is not modelled (a return inside a loop/try, a break,
    a generator), `unsupported` names it, and `result` and every `env` entry are the opaque name `__unsupported__`, which
    is equal to no specification: the rules built on summaries fail closed."""
    try:
        return _summarize(func, mutators, env0)
    except Unsupported as e:
        sm = Summary()
        sm.unsupported = str(e)
        sm.result = ast.Name(id="__unsupported__", ctx=ast.Load())
        sm.env = _PoisonEnv(str(e))
        return sm


def _merge_guards(guards):
    """`A and g`, `not A and g` (the same refusal reached on both sides of an earlier branch) -> `g`"""
    def parts(g):
        return list(g.values) if isinstance(g, ast.BoolOp) and isinstance(g.op, ast.And) else [g]

    def complementary(a, b):
        ca, cb = canon(a), canon(b)
        return ca == ("not", cb) or cb == ("not", ca)
    gs = [parts(g) for g in guards]
    changed = True
    while changed:
        changed = False
        for i in range(len(gs)):
            for j in range(i + 1, len(gs)):
                a, b = gs[i], gs[j]
                if len(a) != len(b) or len(a) < 2:
                    continue
                diff = [k for k in range(len(a)) if ast.dump(a[k]) != ast.dump(b[k])]
                if len(diff) == 1 and complementary(a[diff[0]], b[diff[0]]):
                    gs[i] = a[:diff[0]] + a[diff[0] + 1:]
                    del gs[j]
                    changed = True
                    break
            if changed:
                break
    return [g[0] if len(g) == 1 else ast.BoolOp(op=ast.And(), values=g) for g in gs]


def _summarize(func, mutators=None, env0=None):
    mutators = mutators or {}
    sm = Summary()
    if _has_yield(func):
        raise Unsupported("generator function")
    for n_ in ast.walk(func):
        # bindings the composition does not model (normalize.hoist_walrus moves the common `if (x := e).m():` in front of its statement)
        if isinstance(n_, ast.NamedExpr):
            raise Unsupported(f"assignment expression at line {getattr(n_, 'lineno', '?')}")
        if isinstance(n_, ast.Match):
            raise Unsupported(f"match statement at line {getattr(n_, 'lineno', '?')}")

    local_callables = _alias.local_callable_names(func)
    pure_callees = PURE_CALLEES
    assigned_anywhere = {n_.id for n_ in ast.walk(func) if isinstance(n_, ast.Name) and isinstance(n_.ctx, (ast.Store, ast.Del))}
    grp_all = _alias.groups(func)
    pc = []   # branch conditions under which the current block runs (raising guards before it are implicit by order)

    def guard(test):
        conds = [copy.deepcopy(c) for c in pc] + [test]
        sm.guards.append(conds[0] if len(conds) == 1 else ast.BoolOp(op=ast.And(), values=conds))

    def run_under(cond, block, env):
        pc.append(cond)
        try:
            return run(block, env)
        finally:
            pc.pop()

    def neg(t):
        return ast.UnaryOp(op=ast.Not(), operand=copy.deepcopy(t))

    def name(n):
        return ast.Name(id=n, ctx=ast.Load())

    def merge_env(test, e1, e2, base):
        merged = dict(base)
        a1, a2 = e1.get("__aliases__", {}), e2.get("__aliases__", {})
        merged["__aliases__"] = {n: a1.get(n, frozenset([n])) | a2.get(n, frozenset([n])) for n in set(a1) | set(a2)}
        s1, s2 = e1.get("__same__", {}), e2.get("__same__", {})
        merged["__same__"] = {n: frozenset(s1.get(n, ())) & frozenset(s2.get(n, ())) for n in set(s1) & set(s2)}
        merged["__tainted__"] = set(e1.get("__tainted__", ())) | set(e2.get("__tainted__", ()))
        for n in (set(e1) | set(e2)) - {"__aliases__", "__same__", "__tainted__"}:
            a = e1.get(n, name(n))
            b = e2.get(n, name(n))
            merged[n] = a if ast.dump(a) == ast.dump(b) else ast.IfExp(test=copy.deepcopy(test), body=a, orelse=b)
        return merged

    def effect_of_call(c_, env):
        """an expression statement `f(..)` / `x.m(..)`: every local object it may change in place is rebound to a
        term that records the call (so that dropping, adding or changing such a call changes the summary)"""
        cn = call_name(c_) or ast.unparse(c_.func)
        if cn in _PURE_STATEMENT_CALLS:
            return
        touched = []

        def names_of(e):
            """what may be changed when `e` is handed to a call / is the receiver of a method: whatever it may be"""
            return sorted(_alias.roots(e.value if isinstance(e, ast.Starred) else e, None, local_callables, None, grp_all.holds) - _MODULE_NAMES)
        if isinstance(c_.func, ast.Attribute):
            base = c_.func.value
            root = base
            while isinstance(root, (ast.Subscript, ast.Attribute)):
                root = root.value
            if not (isinstance(root, ast.Name) and root.id in _MODULE_NAMES):
                touched.extend(names_of(base))
        if not isinstance(c_.func, (ast.Name, ast.Attribute)):
            touched.extend(names_of(c_.func))
        for o in _out_arguments(c_):
            touched.extend(names_of(o))
        if cn in mutators:
            for k in mutators[cn]:
                if k < len(c_.args):
                    touched.extend(names_of(c_.args[k]))
        # the result is discarded: a call made for its effect may change any object it is handed (callees listed in `mutators`
        # are known by their summary; `pure_callees` are functions of the module that effects.param_mutations found to change none
        # of their parameters)
        if cn not in mutators and cn not in pure_callees and cn.split(".")[-1] not in pure_callees:
            for a in list(c_.args) + [k.value for k in c_.keywords]:
                touched.extend(names_of(a))
        # a local function may change what it captured
        if isinstance(c_.func, ast.Name) and isinstance(local_callables, dict) and c_.func.id in local_callables:
            touched.extend(sorted(set(local_callables[c_.func.id]) - _MODULE_NAMES))
        if not touched:
            return
        term = subst(c_, env)
        for n in dict.fromkeys(touched):
            mutate(n, _call("__mut__", copy.deepcopy(term), ast.Constant(n)), env)

    def group(env, n):
        return env.get("__aliases__", {}).get(n, frozenset([n]))

    def unlink(env, n):
        if n in env.get("__same__", {}):
            sm_ = {k: frozenset(v) - {n} for k, v in env["__same__"].items() if k != n}
            env["__same__"] = sm_
        al = env.get("__aliases__", {})
        if n in al:
            al = dict(al)
            rest = al.pop(n) - {n}
            for m in rest:
                if len(rest) > 1:
                    al[m] = rest
                else:
                    al.pop(m, None)
            env["__aliases__"] = al

    def link(env, names):
        al = dict(env.get("__aliases__", {}))
        g = frozenset(names)
        for n in names:
            g |= al.get(n, frozenset())
        for n in g:
            al[n] = g
        env["__aliases__"] = al

    def link_by_class(env, n):
        """`n` was bound by a construct whose value is not followed (a for / with target, an unpacking, a handler, inside a loop or
        try): it may be any object of its class in alias.groups"""
        cls_ = set(grp_all.get(n, ())) | _alias.held_closure({n}, grp_all)
        cls_ = {m for m in cls_ if "." not in m and m not in _MODULE_NAMES} - {n}
        if cls_:
            link(env, [n] + sorted(cls_))

    def mutate(n, new, env):
        """the object that `n` names changes.  The other names of its alias group MAY be the same object (a view, either arm of
        a conditional, a part): whether they see the change is not known - they become terms that equal no specification
        (only names bound to the very same object by `a = b` / `a = b = e` take the new value over)"""
        for m in group(env, n):
            if m == n:
                env[m] = new
            elif m in env.get("__same__", {}).get(n, ()):
                env[m] = copy.deepcopy(new)
            else:
                env[m] = _call("__mut__", _call("__alias_written__", ast.Constant(n)), ast.Constant(m))

    _MUTATING_METHODS = {"sort", "fill", "resize", "put", "itemset", "setfield", "partition", "reverse", "append", "extend", "insert",
                         "pop", "remove", "clear", "update", "setdefault", "popitem", "add", "discard", "setflags", "byteswap",
                         "__iadd__", "__isub__", "__imul__", "__itruediv__", "__ifloordiv__", "__imod__", "__ipow__", "__iand__",
                         "__ior__", "__ixor__", "__ilshift__", "__irshift__", "__imatmul__", "__setitem__", "__delitem__", "__setattr__"}

    def lambdas_in(node, env):
        """a lambda written in the statement may run at any later time and change what it captured: from here on those objects are
        unknown (as for a nested def)"""
        for lam in [n for n in ast.walk(node) if isinstance(n, ast.Lambda)]:
            own = {a.arg for a in ast.walk(lam.args) if isinstance(a, ast.arg)}
            body = ast.Expr(value=lam.body)
            captured = (_mutated_names(body) | _inplace_written(body, grp_all)) - own
            captured |= {c2.func.value.id for c2 in ast.walk(lam.body) if isinstance(c2, ast.Call) and isinstance(c2.func, ast.Attribute)
                         and isinstance(c2.func.value, ast.Name) and not _alias.reads_only(c2)} - own - _MODULE_NAMES
            for n in sorted(captured):
                mutate(n, _call("__mut__", _call("__closure__", ast.Constant("<lambda>")), ast.Constant(n)), env)
            if captured:
                env["__tainted__"] = set(env.get("__tainted__", ())) | set(captured)

    def evaluated_parts(st):
        """expressions a statement evaluates besides its value: index and base expressions of its targets, context managers,
        default values and decorators of a nested def, the message of an assert, what is raised"""
        out = []
        tg = []
        if isinstance(st, ast.Assign):
            tg = list(st.targets)
        elif isinstance(st, (ast.AugAssign, ast.AnnAssign, ast.For, ast.AsyncFor)):
            tg = [st.target]
        elif isinstance(st, ast.Delete):
            tg = list(st.targets)
        elif isinstance(st, (ast.With, ast.AsyncWith)):
            tg = [i.optional_vars for i in st.items if i.optional_vars is not None]
            out.extend(i.context_expr for i in st.items)
        for t in tg:
            for x in ast.walk(t):
                if isinstance(x, ast.Subscript):
                    out.append(x.slice)
                if isinstance(x, (ast.Subscript, ast.Attribute)) and isinstance(x.value, (ast.Call, ast.IfExp, ast.BoolOp, ast.NamedExpr)):
                    out.append(x.value)
        if isinstance(st, (ast.FunctionDef, ast.AsyncFunctionDef)):
            out.extend(st.args.defaults)
            out.extend(d for d in st.args.kw_defaults if d is not None)
            out.extend(st.decorator_list)
        if isinstance(st, ast.Assert) and st.msg is not None:
            out.append(st.msg)
        if isinstance(st, ast.Raise):
            out.extend(x for x in (st.exc, st.cause) if x is not None)
        return out

    def effects_in_value(value, env):
        """calls inside an evaluated expression that change a local object in place (`_ = x.__iadd__(1)`, `y = np.add(x, 1, out=x)`,
        `a and x.sort()`, `assert x.pop()`): the objects become terms that record the call"""
        if value is None:
            return
        for t_ in [n for n in ast.walk(value) if isinstance(n, (ast.Subscript, ast.Attribute)) and isinstance(n.ctx, (ast.Store, ast.Del))]:
            # a store inside an expression: the target of a comprehension (`[0 for x[0] in (0,)]`)
            for n in sorted(_alias.roots(t_.value, None, local_callables, None, grp_all.holds) - _MODULE_NAMES):
                mutate(n, _call("__mut__", _call("__stored_in_expression__", subst(_load(t_), env)), ast.Constant(n)), env)
        for c_ in [n for n in ast.walk(value) if isinstance(n, ast.Call)]:
            touched = []
            if isinstance(c_.func, ast.Attribute) and c_.func.attr in _MUTATING_METHODS:
                root = c_.func.value
                while isinstance(root, (ast.Subscript, ast.Attribute)):
                    root = root.value
                if not (isinstance(root, ast.Name) and root.id in _MODULE_NAMES):
                    touched.extend(sorted(_alias.roots(c_.func.value, None, local_callables, None, grp_all.holds) - _MODULE_NAMES))
            for o in _out_arguments(c_):
                touched.extend(sorted(_alias.roots(o, None, local_callables, None, grp_all.holds) - _MODULE_NAMES))
            if isinstance(c_.func, ast.Name) and isinstance(local_callables, dict) and c_.func.id in local_callables:
                touched.extend(sorted(set(local_callables[c_.func.id]) - _MODULE_NAMES))
            every_ = list(c_.args) + [k.value for k in c_.keywords]
            if not isinstance(c_.func, (ast.Name, ast.Attribute)):
                # `ms[0](0)` with ms = (x.fill,), `functools.partial(np.ndarray.fill, x)(0)`, `(lambda a: a.fill(0))(x)`: whatever the
                # callee expression may hold is called, with the arguments
                for e_ in [c_.func] + every_:
                    touched.extend(sorted(_alias.roots(e_, None, local_callables, None, grp_all.holds) - _MODULE_NAMES))
            elif isinstance(c_.func, ast.Attribute) and isinstance(c_.func.value, ast.Call) and c_.func.attr in _MUTATING_METHOD_NAMES:
                # `type(x).fill(x, 0)`, `operator.methodcaller("fill", 0)(x)`-like: the receiver is computed
                for e_ in [c_.func.value] + every_:
                    touched.extend(sorted(_alias.roots(e_, None, local_callables, None, grp_all.holds) - _MODULE_NAMES))
            elif _unknown_callee(c_) and not _alias.reads_only(c_):
                # a callee the reference sources never call (`shuffle(x)` after `from random import shuffle`, `xp.copyto(x, 0)`): as for
                # a discarded call, every object it is handed may change
                for e_ in every_ + ([c_.func.value] if isinstance(c_.func, ast.Attribute) else []):
                    touched.extend(sorted(_alias.roots(e_, None, local_callables, None, grp_all.holds) - _MODULE_NAMES))
            if touched:
                term = subst(c_, env)
                for n in dict.fromkeys(touched):
                    mutate(n, _call("__mut__", copy.deepcopy(term), ast.Constant(n)), env)

    def run(block, env):
        """returns (env, ret): ret is None if the block falls off its end, RAISE if every path raises,
        otherwise the expression returned (every path returned or raised)"""
        for i, st in enumerate(block):
            if isinstance(st, ast.Expr) and isinstance(st.value, ast.Constant):
                continue
            for part_ in evaluated_parts(st):
                effects_in_value(part_, env)
            if not isinstance(st, (ast.FunctionDef, ast.AsyncFunctionDef, ast.ClassDef)):
                shell_ = [ch for ch in ast.iter_child_nodes(st) if isinstance(ch, ast.expr)] + \
                    [x for it_ in getattr(st, "items", []) for x in (it_.context_expr,)]
                for ch in shell_:
                    lambdas_in(ch, env)
            if isinstance(st, (ast.FunctionDef, ast.AsyncFunctionDef)):
                # a nested function may change what it captured whenever it is called: from here on those objects are unknown
                own = {a.arg for a in ast.walk(st.args) if isinstance(a, ast.arg)}
                plain = {n.id for n in ast.walk(st) if isinstance(n, ast.Name) and isinstance(n.ctx, (ast.Store, ast.Del))}
                nonloc = {nm_ for n in ast.walk(st) if isinstance(n, (ast.Nonlocal, ast.Global)) for nm_ in n.names}
                captured = (_mutated_names(st) | _inplace_written(st) | _assigned_names(st.body) - plain | nonloc) - own - (plain - nonloc)
                for n in sorted(captured):
                    mutate(n, _call("__mut__", _call("__closure__", ast.Constant(st.name)), ast.Constant(n)), env)
                # the def binds its name; what it writes stays reachable through it whenever it is called: a later binding of a
                # captured name is not clean either
                if st.name in env or st.name in assigned_anywhere:
                    unlink(env, st.name)
                    env[st.name] = name(st.name + "'")
                env["__tainted__"] = set(env.get("__tainted__", ())) | set(captured)
                continue
            if isinstance(st, (ast.Import, ast.ImportFrom)):
                for al_ in st.names:
                    nm_ = (al_.asname or al_.name).split(".")[0]
                    if nm_ in env or nm_ in assigned_anywhere:
                        unlink(env, nm_)
                        env[nm_] = name(nm_ + "'")          # a local of that name now means the imported object
                continue
            if isinstance(st, ast.ClassDef):
                raise Unsupported(f"class definition inside the function at line {getattr(st, 'lineno', '?')}")
            if isinstance(st, ast.Assert):
                # a refusal like `if not test: raise`
                t_ = subst(st.test, env)
                effects_in_value(st.test, env)
                if _known_truth(t_) is not True:
                    guard(neg(t_))
                continue
            if isinstance(st, (ast.Pass, ast.Global, ast.Nonlocal)):
                continue
            if isinstance(st, ast.Return):
                ret_ = subst(st.value, env) if st.value is not None else ast.Constant(None)
                effects_in_value(st.value, env)
                return env, ret_
            if isinstance(st, ast.Continue):
                return env, None          # end of this iteration (summarize_block)
            if isinstance(st, ast.Break):
                raise Unsupported(f"break at line {getattr(st, 'lineno', '?')}")
            if isinstance(st, ast.Raise):
                return env, RAISE
            if isinstance(st, (ast.Assign, ast.AnnAssign)):
                if isinstance(st, ast.AnnAssign):
                    if st.value is None:
                        continue
                    targets = [st.target]
                else:
                    targets = st.targets
                val = subst(st.value, env)
                # what the value may be, with the groups these names are in BEFORE the targets are rebound (`rs = rs[:]` stays a view
                # of everything `rs` was a view of)
                tnames_ = {t.id for t in targets if isinstance(t, ast.Name)}
                before_ = set()
                for r_ in _alias.roots(st.value, None, local_callables, None, grp_all.holds) & tnames_:
                    before_ |= set(group(env, r_)) - tnames_
                for t in targets:
                    _bind(t, copy.deepcopy(val) if len(targets) > 1 else val, env)
                # names of one object: `a = b`, `a = b = f()`, and names whose objects may share storage: a view `a = b[:]`,
                # a part `a = b.coord`, a container `a = [b]`, the result of an unknown call on b (alias.roots)
                same = [t.id for t in targets if isinstance(t, ast.Name)]
                if same and not _is_immutable(val):
                    same.extend(sorted((_alias.roots(st.value, None, local_callables, None, grp_all.holds) | before_) - set(same) - _MODULE_NAMES - {"self", "cls"}))
                    if isinstance(st.value, ast.Name) and st.value.id not in same:
                        same.append(st.value.id)
                if len(same) > 1 and not _is_immutable(val):
                    link(env, same)
                    must = [t.id for t in targets if isinstance(t, ast.Name)] + ([st.value.id] if isinstance(st.value, ast.Name) else [])
                    if len(must) > 1:
                        sm_ = dict(env.get("__same__", {}))
                        full = set(must)
                        for a_ in must:
                            full |= set(sm_.get(a_, ()))
                        for a_ in full:
                            sm_[a_] = frozenset(full)
                        env["__same__"] = sm_
                for t in targets:
                    if not isinstance(t, ast.Name):
                        # an unpacking `u, *_ = x, 0`, `u, k = (x, 0) if c else (x, 1)`: the values are not followed one by one
                        for x_ in ast.walk(t):
                            if isinstance(x_, ast.Name) and isinstance(x_.ctx, ast.Store):
                                link_by_class(env, x_.id)
                effects_in_value(st.value, env)
                continue
            if isinstance(st, ast.AugAssign):
                t = st.target
                cur = subst(_load(t), env)
                rhs = subst(st.value, env)
                if isinstance(t, ast.Name) and not getattr(st, "_rebind", False) \
                        and not (t.id in env and _is_fresh(env[t.id]) and len(group(env, t.id)) == 1) and not _scalar_like(rhs, cur):
                    # in place: the object that the name refers to (a parameter, a view, another name's object) changes
                    mutate(t.id, _call("__inplace__", ast.BinOp(left=cur, op=st.op, right=rhs)), env)
                else:
                    _bind(t, ast.BinOp(left=cur, op=st.op, right=rhs), env)
                effects_in_value(st.value, env)
                continue
            if isinstance(st, ast.Expr) and isinstance(st.value, ast.Call):
                c_ = st.value
                # list building: `xs.append(e)` / `xs.extend([..])` on a local bound to a list literal
                if isinstance(c_.func, ast.Attribute) and isinstance(c_.func.value, ast.Name) and c_.func.attr in ("append", "extend") \
                        and len(c_.args) == 1 and not c_.keywords and isinstance(env.get(c_.func.value.id), ast.List):
                    cur = env[c_.func.value.id]
                    arg = subst(c_.args[0], env)
                    effects_in_value(c_.args[0], env)
                    if c_.func.attr == "append":
                        mutate(c_.func.value.id, ast.List(elts=list(cur.elts) + [arg], ctx=ast.Load()), env)
                        continue
                    if isinstance(arg, (ast.List, ast.Tuple)):
                        mutate(c_.func.value.id, ast.List(elts=list(cur.elts) + list(arg.elts), ctx=ast.Load()), env)
                        continue
                for sub_ in list(c_.args) + [k.value for k in c_.keywords] + ([c_.func.value] if isinstance(c_.func, ast.Attribute) else
                                                                             [c_.func] if not isinstance(c_.func, ast.Name) else []):
                    effects_in_value(sub_, env)
                effect_of_call(c_, env)
                continue
            if isinstance(st, ast.Expr):
                if any(isinstance(x, (ast.Subscript, ast.BinOp, ast.Attribute)) for x in ast.walk(st.value)) \
                        and not isinstance(st.value, (ast.Constant, ast.Name, ast.JoinedStr)):
                    # `numbers.shape[1]`, `1 // (2 - n)`: evaluated for nothing but the exception it may raise - a refusal
                    guard(_call("__may_fault__", subst(st.value, env)))
                # `a and x.sort()`, `x.pop() if c else None`, `[x.append(1)]`: every call in a discarded expression runs for its effect
                effects_in_value(st.value, env)
                for c_ in [n for n in ast.walk(st.value) if isinstance(n, ast.Call)]:
                    effect_of_call(c_, env)
                continue
            if isinstance(st, ast.Delete):
                for t in st.targets:
                    if isinstance(t, ast.Name):
                        env[t.id] = name(t.id + "'")
                    else:
                        _bind(t, name("__deleted__"), env)
                continue
            if isinstance(st, (ast.With, ast.AsyncWith)):
                # transparent: the managed block runs exactly once - unless the manager may swallow an exception raised inside
                # (contextlib.suppress, a user-defined __exit__): then a refusal in the block is not a refusal of the function
                if not all(_plain_manager(it.context_expr) for it in st.items) and any(isinstance(x, ast.Raise) for b in st.body for x in ast.walk(b)):
                    raise Unsupported(f"raise under a context manager that may suppress it at line {getattr(st, 'lineno', '?')}")
                for it in st.items:
                    if it.optional_vars is not None:
                        _bind(it.optional_vars, _call("__enter__", subst(it.context_expr, env)), env)
                        for x_ in ast.walk(it.optional_vars):
                            if isinstance(x_, ast.Name):
                                link_by_class(env, x_.id)
                return run(list(st.body) + list(block[i + 1:]), env)
            if isinstance(st, ast.If):
                test = subst(st.test, env)
                effects_in_value(st.test, env)
                known = _known_truth(test)
                rest = list(block[i + 1:])
                if known is not None:
                    # the test is decided by what is bound (e.g. `acc is None` right after `acc = None`)
                    return run(list(st.body if known else st.orelse) + rest, env)
                if _has_exit(st.body) or _has_exit(st.orelse):
                    # path duplication: each branch is followed to the end of the function
                    e1, r1 = run_under(test, list(st.body) + rest, dict(env))
                    e2, r2 = run_under(neg(test), list(st.orelse) + rest, dict(env))
                    if r1 is RAISE and r2 is RAISE:
                        return env, RAISE
                    if r1 is RAISE:
                        guard(test)
                        return e2, r2
                    if r2 is RAISE:
                        guard(neg(test))
                        return e1, r1
                    merged = merge_env(test, e1, e2, env)
                    if r1 is None and r2 is None:
                        return merged, None
                    r1 = ast.Constant(None) if r1 is None else r1
                    r2 = ast.Constant(None) if r2 is None else r2
                    return merged, (r1 if ast.dump(r1) == ast.dump(r2) else ast.IfExp(test=test, body=r1, orelse=r2))
                e1, r1 = run_under(test, st.body, dict(env))
                e2, r2 = run_under(neg(test), st.orelse, dict(env)) if st.orelse else (dict(env), None)
                if r1 is RAISE and r2 is RAISE:
                    return env, RAISE
                if r1 is RAISE:
                    guard(test)
                    env = e2
                    continue
                if r2 is RAISE:
                    guard(neg(test))
                    env = e1
                    continue
                env = merge_env(test, e1, e2, env)
                continue
            # opaque compound statement (loops, try, match)
            if _has_exit([st], loop_level=False):
                raise Unsupported(f"return inside {type(st).__name__.lower()} at line {getattr(st, 'lineno', '?')}")
            if isinstance(st, (ast.For, ast.AsyncFor, ast.While)) and any(isinstance(x, (ast.Raise, ast.Assert)) for x in ast.walk(st)):
                # `while cond: raise ..`, `for _ in range(n - 1): raise ..`: a refusal spelled as a loop
                guard(_call("__raises_in_loop__", subst(st.test if isinstance(st, ast.While) else st.iter, env)))
            # what the block may change in place - through any name that may be the object, aliases made inside the block included
            # (the other names of these objects - the parameter's own `@p` among them - see the change: `mutate`)
            for n in sorted(_mutated_names(st) | _inplace_written(st, grp_all)):
                if "." not in n:        # (fields of self are pseudo-names of the alias model, not bindings)
                    mutate(n, ast.Name(id=n + "'", ctx=ast.Load()), env)
            for n in sorted(_assigned_names([st])):
                unlink(env, n)
                env[n] = ast.Name(id=n + "'", ctx=ast.Load())
            # a name bound inside the block may be any object of its (flow-insensitive) class from here on
            for n in sorted(_assigned_names([st])):
                link_by_class(env, n)
        return env, None

    def _load(t):
        t = copy.deepcopy(t)
        for n in ast.walk(t):
            if hasattr(n, "ctx"):
                n.ctx = ast.Load()
        return t

    def _bind(t, val, env, mutation=False):
        if isinstance(t, ast.Name):
            if mutation:
                mutate(t.id, val, env)
            else:
                unlink(env, t.id)
                env[t.id] = val if t.id not in env.get("__tainted__", ()) else _call("__mut__", _call("__closure__", ast.Constant("?")), ast.Constant(t.id))
        elif isinstance(t, (ast.Tuple, ast.List)):
            if isinstance(val, (ast.Tuple, ast.List)) and len(val.elts) == len(t.elts):
                for a, b in zip(t.elts, val.elts):
                    _bind(a, b, env)
            elif isinstance(val, ast.IfExp) and all(isinstance(x, (ast.Tuple, ast.List)) and len(x.elts) == len(t.elts) for x in (val.body, val.orelse)):
                # a, b = (p, q) if c else (r, s)
                for k, a in enumerate(t.elts):
                    _bind(a, ast.IfExp(test=copy.deepcopy(val.test), body=val.body.elts[k], orelse=val.orelse.elts[k]), env)
            else:
                for k, a in enumerate(t.elts):
                    _bind(a, _call("__item__", copy.deepcopy(val), ast.Constant(k)), env)
        elif isinstance(t, ast.Subscript):
            base = t.value
            cur = subst(_load(base), env)
            new = _call("__set__", cur, subst(_slice_expr(t.slice), env), val)
            if isinstance(base, (ast.Name, ast.Subscript, ast.Attribute, ast.Starred)):
                _bind(base, new, env, True)
                if not isinstance(base, ast.Name):
                    # `box[0][:] = v`, `obj.rows[i][j] = v`: an item of a container is written - whatever the container may hold
                    direct = _alias.base_name(base)
                    for n_ in sorted(_alias.written_through(base, grp_all) - {direct} - _MODULE_NAMES):
                        if "." not in n_ and n_ not in ("self", "cls"):
                            mutate(n_, _call("__mut__", _call("__item_written__", ast.Constant(direct or "?")), ast.Constant(n_)), env)
            else:
                # np.asarray(x)[:] = v, x.view()[i] = v, (a if c else b)[i] = v: whatever the base may be is written
                for n_ in sorted(_alias.roots(base, None, local_callables, None, grp_all.holds) - _MODULE_NAMES):
                    mutate(n_, _call("__mut__", copy.deepcopy(new), ast.Constant(n_)), env)
        elif isinstance(t, ast.Attribute):
            base = t.value
            if isinstance(base, ast.Name):
                mutate(base.id, _call("__setattr__", subst(_load(base), env), ast.Constant(t.attr), val), env)
            else:
                new = _call("__setattr__", subst(_load(base), env), ast.Constant(t.attr), val)
                for n_ in sorted(_alias.roots(base, None, local_callables, None, grp_all.holds) - _MODULE_NAMES):
                    mutate(n_, _call("__mut__", copy.deepcopy(new), ast.Constant(n_)), env)
        elif isinstance(t, ast.Starred):
            _bind(t.value, val, env)

    def _slice_expr(s):
        return ast.Subscript(value=ast.Name(id="__idx__", ctx=ast.Load()), slice=copy.deepcopy(s), ctx=ast.Load())

    # the OBJECT each parameter was called with, under a name of its own (`@p`) that is never rebound: `g = p; p = p - 1; g[:] = 0`
    # changes the caller's object although `p` names something else by then
    start = dict(env0 or {})
    if isinstance(func, (ast.FunctionDef, ast.AsyncFunctionDef)):
        for a_ in func.args.posonlyargs + func.args.args + func.args.kwonlyargs:
            if a_.arg not in start and a_.arg not in ("self", "cls"):
                start["@" + a_.arg] = name(a_.arg)
                link(start, [a_.arg, "@" + a_.arg])
                sm0 = dict(start.get("__same__", {}))
                sm0[a_.arg] = sm0["@" + a_.arg] = frozenset([a_.arg, "@" + a_.arg])
                start["__same__"] = sm0
    env, ret = run(list(func.body), start)
    env.pop("__aliases__", None)
    env.pop("__same__", None)
    env.pop("__tainted__", None)
    sm.result = None if ret is RAISE else ret
    sm.always_raises = ret is RAISE
    sm.env = env
    sm.guards = _merge_guards(sm.guards)
    return sm


# ---------------------------------------------------------------------------
# canonical form

_METHOD_TO_FUNC = {"sum": "np.sum", "mean": "np.mean", "astype": "np.astype", "transpose": "np.transpose"}
_FUNC_ALIASES = {"linalg.inv": "np.linalg.inv", "linalg.det": "np.linalg.det", "linalg.norm": "np.linalg.norm",
                 "numpy.tile": "np.tile"}


def _const(v):
    """constants keep their type: 1, 1.0 and True are equal in Python but `x + 1.0` is not `x + 1` (dtype, indexing)"""
    if isinstance(v, bool):
        return ("const", v, "bool")
    if isinstance(v, float):
        return ("const", v, "float")
    if isinstance(v, complex):
        return ("const", v, "complex")
    return ("const", v)


def _neg(c):
    if isinstance(c, tuple) and c and c[0] == "neg":
        return c[1]
    if isinstance(c, tuple) and c and c[0] == "+":
        return ("+",) + tuple(sorted((_neg(t) for t in c[1:]), key=repr))
    if isinstance(c, tuple) and c and c[0] == "const" and isinstance(c[1], (int, float)) and not isinstance(c[1], bool):
        return _const(-c[1])
    return ("neg", c)


def _assume(c, t, val):
    """simplify conditionals on the same test inside an arm where the test's value is known"""
    if not isinstance(c, tuple):
        return c
    if len(c) == 4 and c[0] == "if" and c[1] == t:
        return _assume(c[2] if val else c[3], t, val)
    return tuple(_assume(x, t, val) for x in c)


_SEQ_FUNCS = {"np.concatenate", "np.stack", "np.hstack", "np.vstack", "np.column_stack"}


def _hoist(c, depth=0):
    """conditionals to the top: f(.., (if t a b), ..) -> if t f(.., a, ..) f(.., b, ..)"""
    if not isinstance(c, tuple) or depth > 6:
        return c
    if c and c[0] == "if" and len(c) == 4:
        t, a, b = c[1], _hoist(c[2], depth), _hoist(c[3], depth)
        a, b = _assume(a, t, True), _assume(b, t, False)
        return a if a == b else ("if", t, a, b)
    kids = [_hoist(x, depth) for x in c]
    for k, x in enumerate(kids):
        if isinstance(x, tuple) and len(x) == 4 and x[0] == "if" and k > 0:
            t = x[1]
            left = tuple(kids[:k]) + (x[2],) + tuple(kids[k + 1:])
            right = tuple(kids[:k]) + (x[3],) + tuple(kids[k + 1:])
            a, b = _hoist(_assume(left, t, True), depth + 1), _hoist(_assume(right, t, False), depth + 1)
            return a if a == b else ("if", t, a, b)
    return tuple(kids)


def _has_sequence_operand(e):
    """does a chain of + contain an operand that is visibly a string, list or tuple (then + is concatenation)"""
    def seqlike(x):
        if isinstance(x, ast.Constant) and isinstance(x.value, (str, bytes)):
            return True
        if isinstance(x, (ast.JoinedStr, ast.List, ast.Tuple, ast.ListComp)):
            return True
        if isinstance(x, ast.Call):
            fn = ast.unparse(x.func)
            if fn in ("str", "repr", "list", "tuple", "chr", "format") or fn.endswith((".join", ".format", ".strip", ".lower", ".upper", ".ljust", ".rjust", ".replace")):
                return True
        return False

    def walk(x):
        if isinstance(x, ast.BinOp) and isinstance(x.op, ast.Add):
            return walk(x.left) or walk(x.right)
        return seqlike(x)
    return walk(e)


def _seqfix(c):
    if not isinstance(c, tuple):
        return c
    c = tuple(_seqfix(x) for x in c)
    if len(c) >= 3 and c[0] == "call" and c[1] in _SEQ_FUNCS and isinstance(c[2], tuple) and c[2] and c[2][0] in ("list", "tuple"):
        c = c[:2] + (("seq",) + c[2][1:],) + c[3:]
    return c


def _boolean_valued(x):
    if isinstance(x, ast.Compare):
        return True
    if isinstance(x, ast.UnaryOp) and isinstance(x.op, ast.Not):
        return True
    if isinstance(x, ast.BoolOp):
        return all(_boolean_valued(v) for v in x.values)
    if isinstance(x, ast.Constant) and isinstance(x.value, bool):
        return True
    if isinstance(x, ast.Call):
        fn = x.func
        if isinstance(fn, ast.Name) and fn.id in ("isinstance", "issubclass", "hasattr", "callable", "bool", "any", "all"):
            return True
        if isinstance(fn, ast.Attribute) and fn.attr in ("any", "all", "startswith", "endswith", "isdigit", "isspace", "isalpha", "issubset", "isupper", "islower"):
            return True
        if isinstance(fn, ast.Attribute) and ast.unparse(fn) in ("np.any", "np.all", "np.isnan", "np.isfinite", "np.issubdtype", "np.array_equal", "np.allclose"):
            return True
    return False


def _protects(x):
    """names whose later use a test makes safe (None tests, type tests, length / membership tests)"""
    out = set()
    for n in ast.walk(x):
        if isinstance(n, ast.Compare) and any(isinstance(o, (ast.Is, ast.IsNot, ast.In, ast.NotIn)) for o in n.ops):
            out |= {m.id for m in ast.walk(n) if isinstance(m, ast.Name)}
        if isinstance(n, ast.Call) and isinstance(n.func, ast.Name) and n.func.id in ("isinstance", "hasattr", "len", "callable"):
            out |= {m.id for a in n.args for m in ast.walk(a) if isinstance(m, ast.Name)}
    return out


def _order_free(values):
    """may the operands of and/or be reordered: only truth values matter and no operand guards the evaluation of another"""
    if not all(_boolean_valued(v) for v in values):
        return False
    for i, v in enumerate(values):
        prot = _protects(v)
        if not prot:
            continue
        for j, w in enumerate(values):
            if j != i and prot & {m.id for m in ast.walk(w) if isinstance(m, ast.Name)} and not _protects(w):
                return False
    return True


def _simplify(c):
    """arithmetic clean-up after conditionals were hoisted: -(0) = 0, x + 0 = x"""
    if not isinstance(c, tuple):
        return c
    c = tuple(_simplify(x) for x in c)
    if len(c) == 2 and c[0] == "neg" and isinstance(c[1], tuple) and c[1][:1] == ("const",) and len(c[1]) == 2 \
            and isinstance(c[1][1], int) and not isinstance(c[1][1], bool):
        return _const(-c[1][1])
    def is_int(t):
        return isinstance(t, tuple) and len(t) == 2 and t[0] == "const" and isinstance(t[1], int) and not isinstance(t[1], bool)
    if c and c[0] == "+":
        # integer literals are added up: -(2 + 1) = -3, n + 1 with n = 2 is 3 (index arithmetic of written-out loops)
        # (a literal that was written stays, even as `+ 0`: `mask + 1 - 1` is an integer array, not the boolean mask)
        ints = [t[1] for t in c[1:] if is_int(t)]
        terms = [t for t in c[1:] if not is_int(t)]
        if ints:
            terms.append(_const(sum(ints)))
        if len(terms) == 1:
            return terms[0]
        return ("+",) + tuple(sorted(terms, key=repr))
    if c and c[0] == "*":
        ints = [t[1] for t in c[1:] if is_int(t)]
        terms = [t for t in c[1:] if not is_int(t)]
        prod = 1
        for v in ints:
            prod *= v
        if ints:
            terms.append(_const(prod))          # `x * 1 * 1` is `x * 1` (not `x`: the product of a boolean array is an integer array)
        if len(terms) == 1:
            return terms[0]
        return ("*",) + tuple(sorted(terms, key=repr))
    if c and c[0] in ("&", "|") and all(not isinstance(t, str) or True for t in c[1:]):
        # the neutral element of an accumulation `mask = np.zeros(n, dtype=bool); mask |= a; mask |= b` (ones for &): a boolean
        # array of zeros changes nothing in an element-wise `|` (a shape that does not fit the other operands raises at run time)
        def neutral(t):
            want = "np.zeros" if c[0] == "|" else "np.ones"
            if not (isinstance(t, tuple) and len(t) == 4 and t[0] == "call" and t[1] == want and ("dtype", "bool") in (t[3] or ())):
                return False
            # ... of a length / shape taken from the data (`n`, `len(x) - 1`, `x.shape`): a literal shape such as (1, 1) broadcasts the
            # other operands to a different shape
            def mentions_name(u):
                return isinstance(u, str) or isinstance(u, tuple) and u[:1] != ("const",) and any(mentions_name(v) for v in u[1:])
            return not (isinstance(t[2], tuple) and t[2][:1] == ("tuple",)) and mentions_name(t[2])
        rest = [t for t in c[1:] if not neutral(t)]
        if rest and len(rest) < len(c) - 1:
            if len(rest) == 1:
                return rest[0]
            return (c[0],) + tuple(sorted(rest, key=repr))
        return (c[0],) + tuple(sorted(c[1:], key=repr))      # operands replaced by the hoisting are put in order again
    return c


def _tests_of(c, acc):
    if isinstance(c, tuple):
        if len(c) == 4 and c[0] == "if":
            acc.add(repr(c[1]))
            acc_t = c[1]
        for x in c:
            _tests_of(x, acc)
    return acc


def _order_ifs(c, depth=0):
    """nested conditionals as an ordered decision tree: the test with the smallest text is decided first (so that
    `if a: (if b ..)` and `if b: (if a ..)` of the same function are one form)"""
    if not (isinstance(c, tuple) and len(c) == 4 and c[0] == "if") or depth > 5:
        return c
    tests = {}

    def collect(x):
        if isinstance(x, tuple) and len(x) == 4 and x[0] == "if":
            tests.setdefault(repr(x[1]), x[1])
            collect(x[2]); collect(x[3])
    collect(c)
    if len(tests) < 2:
        return c
    first = tests[min(tests)]

    def restrict(x, val):
        if isinstance(x, tuple) and len(x) == 4 and x[0] == "if":
            if x[1] == first:
                return restrict(x[2] if val else x[3], val)
            a, b = restrict(x[2], val), restrict(x[3], val)
            return a if a == b else ("if", x[1], a, b)
        return _assume(x, first, val)
    a, b = _order_ifs(restrict(c, True), depth + 1), _order_ifs(restrict(c, False), depth + 1)
    return a if a == b else ("if", first, a, b)


def canon(e):
    return _seqfix(_order_ifs(_simplify(_hoist(_canon(e)))))


def _truth_valued(c):
    """canonical term that is True or False (never another object): a type / attribute test, a comparison, a negation, or a
    connective of such"""
    if not isinstance(c, tuple) or not c:
        return False
    if c[0] == "call":
        return c[1] in ("isinstance", "hasattr", "issubclass", "callable")
    if c[0] in ("is", "not", "<", "<=", "==", "!="):
        return c[0] in ("is", "not") or True
    if c[0] in ("and", "or"):
        return all(_truth_valued(x) for x in c[1:])
    return False


def _canon(e):
    if isinstance(e, ast.Name):
        return e.id
    if isinstance(e, ast.Constant):
        return _const(e.value if not isinstance(e.value, type(Ellipsis)) else "...")
    if isinstance(e, ast.Attribute):
        d = ast.unparse(e)
        if d in _FUNC_ALIASES:
            return _FUNC_ALIASES[d]
        return ("attr", _canon(e.value), e.attr)
    if isinstance(e, ast.UnaryOp):
        if isinstance(e.op, ast.USub):
            return _neg(_canon(e.operand))
        if isinstance(e.op, ast.UAdd):
            return _canon(e.operand)
        if isinstance(e.op, ast.Not):
            # not (a and b) is (not a) or (not b) - both are truth values, whatever a and b are
            if isinstance(e.operand, ast.BoolOp):
                flipped = ast.BoolOp(op=ast.Or() if isinstance(e.operand.op, ast.And) else ast.And(),
                                     values=[ast.UnaryOp(op=ast.Not(), operand=v) for v in e.operand.values])
                return _canon(flipped)
            c = _canon(e.operand)
            # not (len(x) == 2) is len(x) != 2: a length and a literal number are plain scalars
            if isinstance(c, tuple) and c[0] in ("==", "!=") and len(c) == 3 and all(
                    isinstance(x, tuple) and (x[0] == "const" and isinstance(x[1], (int, str)) or x[:2] == ("call", "len")) for x in c[1:]):
                return ("!=" if c[0] == "==" else "==",) + c[1:]
            inner = e.operand.operand if isinstance(e.operand, ast.UnaryOp) and isinstance(e.operand.op, ast.Not) else None
            if isinstance(c, tuple) and c[0] == "not" and (inner is None or _boolean_valued(inner)):
                return c[1]     # `not (a is not b)`; `not not <truth value>` (but `not not x` is bool(x), not x)
            return ("not", c)
        return ("~", _canon(e.operand))
    if isinstance(e, ast.BinOp):
        if isinstance(e.op, ast.Add) and _has_sequence_operand(e):
            # concatenation of strings / lists / tuples is ordered
            parts = []

            def flats(x):
                if isinstance(x, ast.BinOp) and isinstance(x.op, ast.Add):
                    flats(x.left); flats(x.right)
                else:
                    parts.append(_canon(x))
            flats(e)
            return ("concat",) + tuple(parts)
        if isinstance(e.op, (ast.Add, ast.Sub)):
            terms = []

            def flat(x, sign):
                if isinstance(x, ast.BinOp) and isinstance(x.op, ast.Add):
                    flat(x.left, sign); flat(x.right, sign)
                elif isinstance(x, ast.BinOp) and isinstance(x.op, ast.Sub):
                    flat(x.left, sign); flat(x.right, -sign)
                elif isinstance(x, ast.UnaryOp) and isinstance(x.op, ast.USub):
                    flat(x.operand, -sign)
                else:
                    c = _canon(x)
                    if isinstance(c, tuple) and c and c[0] == "+":
                        for t in c[1:]:
                            terms.append(t if sign > 0 else _neg(t))
                    else:
                        terms.append(c if sign > 0 else _neg(c))
            flat(e, 1)
            # (a written `+ 0` / `- 0` stays: a boolean mask plus 0 is an integer index array; _simplify adds literals up)
            if len(terms) == 1:
                return terms[0]
            return ("+",) + tuple(sorted(terms, key=repr))
        if isinstance(e.op, ast.Mult):
            facs = []
            sign = [1]

            def flatm(x):
                if isinstance(x, ast.BinOp) and isinstance(x.op, ast.Mult):
                    flatm(x.left); flatm(x.right)
                else:
                    c = _canon(x)
                    if isinstance(c, tuple) and c and c[0] == "neg":
                        sign[0] = -sign[0]; c = c[1]
                    if isinstance(c, tuple) and c and c[0] == "*":
                        facs.extend(c[1:])
                    else:
                        facs.append(c)
            flatm(e)
            r = ("*",) + tuple(sorted(facs, key=repr))
            return r if sign[0] > 0 else ("neg", r)
        if isinstance(e.op, ast.MatMult):
            parts = []

            def flatmm(x):
                if isinstance(x, ast.BinOp) and isinstance(x.op, ast.MatMult):
                    flatmm(x.left); flatmm(x.right)
                elif isinstance(x, ast.Call) and call_name(x) == "np.matmul" and len(x.args) == 2 and not x.keywords:
                    flatmm(x.args[0]); flatmm(x.args[1])
                else:
                    parts.append(_canon(x))
            flatmm(e)
            return ("@",) + tuple(parts)
        if isinstance(e.op, ast.BitOr) and any(isinstance(x, (ast.Dict, ast.DictComp)) or isinstance(x, ast.Call) and call_name(x) == "dict"
                                               for x in (e.left, e.right)):
            return ("dict|", _canon(e.left), _canon(e.right))
        if isinstance(e.op, (ast.BitAnd, ast.BitOr)):
            k = type(e.op)
            parts = []

            def flatb(x):
                if isinstance(x, ast.BinOp) and isinstance(x.op, k):
                    flatb(x.left); flatb(x.right)
                else:
                    parts.append(_canon(x))
            flatb(e)
            return ("&" if k is ast.BitAnd else "|",) + tuple(sorted(parts, key=repr))
        return (type(e.op).__name__, _canon(e.left), _canon(e.right))
    if isinstance(e, ast.BoolOp):
        vals = tuple(_canon(v) for v in e.values)
        if _order_free(e.values):
            vals = tuple(sorted(vals, key=repr))
        return ("and" if isinstance(e.op, ast.And) else "or",) + vals
    if isinstance(e, ast.Compare):
        if len(e.ops) == 1:
            a, b, op = _canon(e.left), _canon(e.comparators[0]), e.ops[0]
            if isinstance(op, ast.Gt):
                return ("<", b, a)
            if isinstance(op, ast.GtE):
                return ("<=", b, a)
            if isinstance(op, ast.Lt):
                return ("<", a, b)
            if isinstance(op, ast.LtE):
                return ("<=", a, b)
            if isinstance(op, (ast.Eq, ast.NotEq)):
                x, y = sorted((a, b), key=repr)
                return ("==" if isinstance(op, ast.Eq) else "!=", x, y)
            if isinstance(op, ast.IsNot):
                return ("not", ("is", a, b))
            if isinstance(op, ast.Is):
                return ("is", a, b)
        return ("cmp", tuple(type(o).__name__ for o in e.ops), _canon(e.left)) + tuple(_canon(c) for c in e.comparators)
    if isinstance(e, ast.IfExp):
        t, a, b = _canon(e.test), _canon(e.body), _canon(e.orelse)
        if isinstance(t, tuple) and t and t[0] == "not":
            t, a, b = t[1], b, a
        a, b = _assume(a, t, True), _assume(b, t, False)
        if a == b:
            return a
        # `True if t else b` is `t or b` (and `a if t else False` is `t and a`) when t itself is a truth value
        if _truth_valued(t):
            if a == ("const", True, "bool"):
                return ("or",) + tuple(sorted((t, b), key=repr))
            if b == ("const", False, "bool"):
                return ("and",) + tuple(sorted((t, a), key=repr))
        return ("if", t, a, b)
    if isinstance(e, ast.Call):
        fn = e.func
        args = [_canon(a) for a in e.args]
        kws = tuple(sorted(((k.arg or "**", _canon(k.value)) for k in e.keywords), key=repr))
        if isinstance(fn, ast.Attribute):
            d = ast.unparse(fn)
            base_is_mod = isinstance(fn.value, ast.Name) and fn.value.id in ("np", "numpy", "linalg", "math") or \
                (isinstance(fn.value, ast.Attribute) and ast.unparse(fn.value) in ("np.linalg", "numpy.linalg"))
            if base_is_mod:
                name = _FUNC_ALIASES.get(d, d)
                # f(a if c else b) is f(a) if c else f(b) for a library function (called once either way)
                if len(e.args) == 1 and not e.keywords and isinstance(e.args[0], ast.IfExp):
                    return _canon(ast.IfExp(test=e.args[0].test, body=ast.Call(func=e.func, args=[e.args[0].body], keywords=[]),
                                            orelse=ast.Call(func=e.func, args=[e.args[0].orelse], keywords=[])))
                if name == "np.matmul" and len(args) == 2 and not kws:
                    return _canon(ast.BinOp(left=e.args[0], op=ast.MatMult(), right=e.args[1]))
                if name in _SEQ_FUNCS and args and isinstance(args[0], tuple) and args[0] and args[0][0] in ("list", "tuple"):
                    args[0] = ("seq",) + args[0][1:]
                return ("call", name) + tuple(args) + (kws,)
            if fn.attr in _METHOD_TO_FUNC:
                return ("call", _METHOD_TO_FUNC[fn.attr], _canon(fn.value)) + tuple(args) + (kws,)
            if fn.attr == "__getitem__" and len(args) == 1 and not kws and not isinstance(e.args[0], ast.Starred):
                return ("[]", _canon(fn.value), args[0])          # x.__getitem__(k) is x[k]
            return ("mcall", _canon(fn.value), fn.attr) + tuple(args) + (kws,)
        name = ast.unparse(fn)
        name = _FUNC_ALIASES.get(name, name)
        return ("call", name) + tuple(args) + (kws,)
    if isinstance(e, ast.Subscript):
        return ("[]", _canon(e.value), _canon(e.slice))
    if isinstance(e, ast.Slice):
        lo = _canon(e.lower) if e.lower is not None else None
        if lo == ("const", 0) and (e.step is None or isinstance(e.step, ast.Constant) and isinstance(e.step.value, int) and e.step.value > 0):
            lo = None
        return ("slice", lo, _canon(e.upper) if e.upper is not None else None, _canon(e.step) if e.step is not None else None)
    if isinstance(e, (ast.Tuple, ast.List)):
        return ("tuple" if isinstance(e, ast.Tuple) else "list",) + tuple(_canon(x) for x in e.elts)
    if isinstance(e, ast.Starred):
        return ("*arg", _canon(e.value))
    return ("raw", ast.unparse(e))


def spec(src):
    return canon(ast.parse(src, mode="eval").body)


def result_matches(func, spec_src, mutators=None):
    sm = summarize(func, mutators)
    if sm.result is None:
        raise AnalysisError(f"anchor vanished: {func.name} has no single result expression")
    return canon(sm.result) == spec(spec_src), sm


def show(c, limit=160):
    s = repr(c)
    return s if len(s) <= limit else s[:limit] + "..."


def check_spec(ctx, rule, rel, qual, spec_src, reason, var=None, mutators=None):
    """obligation: the summary of `qual` (its result, or the final value of
    `var`) equals the specification expression modulo the laws of canon()"""
    f = ctx.src(rel).func(qual)
    sm = summarize(f, mutators)
    got = sm.result if var is None else sm.env.get(var)
    if got is None:
        raise AnalysisError(f"anchor vanished: {qual} has no summarisable {'result' if var is None else var}")
    ok = canon(got) == spec(spec_src)
    txt = ast.unparse(got)
    txt = txt if len(txt) < 300 else txt[:300] + "..."
    ctx.ob(rule, rel, qual, ("result" if var is None else var) + " == " + spec_src, ok,
           reason + f"; the code computes {txt}", f.lineno)
    return ok


def same_expr(node, src):
    """is the expression equal to `src` modulo the laws of canon() (comparison orientation, commutativity, ...)"""
    return node is not None and canon(node) == spec(src)


def contains_expr(root, src):
    """does some sub-expression of `root` equal `src` modulo canon()"""
    want = spec(src)
    for n in ast.walk(root):
        if isinstance(n, ast.expr):
            try:
                if canon(n) == want:
                    return True
            except Exception:
                continue
    return False


def calls_under_paths(block, names, env0=None):
    """[(conditions, call)] for every call of one of `names` in a statement list: `conditions` are the tests (as written, negated
    for else arms, locals substituted) of the ifs the call sits under, `call` has the locals that were assigned plain
    expressions on its path substituted by those expressions (`box_for_model` -> `box[i]`).  Loops, with and try bodies are
    entered without a condition; what they bind becomes unknown."""
    out = []

    def walk(stmts_, env, conds, loop_vars=()):
        for k, st in enumerate(stmts_):
            if isinstance(st, (ast.FunctionDef, ast.AsyncFunctionDef, ast.ClassDef)):
                continue
            if isinstance(st, ast.If):
                t = subst(st.test, env)
                collect(st.test, env, conds)
                rest = list(stmts_[k + 1:])
                walk(list(st.body) + rest, dict(env), conds + [t], loop_vars)
                walk(list(st.orelse) + rest, dict(env), conds + [ast.UnaryOp(op=ast.Not(), operand=copy.deepcopy(t))], loop_vars)
                return
            if isinstance(st, (ast.Raise, ast.Return, ast.Continue, ast.Break)):
                collect(st, env, conds)
                return
            if isinstance(st, (ast.For, ast.AsyncFor, ast.While, ast.With, ast.AsyncWith, ast.Try)):
                for n in _assigned_names([st]):
                    env[n] = ast.Name(id=n + "'", ctx=ast.Load())
                inner_env = dict(env)
                inner_vars = tuple(loop_vars)
                body_conds = list(conds)
                never = False
                if isinstance(st, (ast.For, ast.AsyncFor)):
                    # inside the body the loop variable is the current item: it stands for itself - unless an enclosing loop of this
                    # walk uses the same name (then the inner one is a different item: `loc''`)
                    for t in ast.walk(st.target):
                        if isinstance(t, ast.Name):
                            inner_env.pop(t.id, None)
                            if t.id in loop_vars:
                                inner_env[t.id] = ast.Name(id=t.id + "''", ctx=ast.Load())
                            inner_vars += (t.id,)
                    # a loop over nothing never runs its body
                    it_ = st.iter
                    never = isinstance(it_, (ast.Tuple, ast.List, ast.Set)) and not it_.elts or isinstance(it_, ast.Dict) and not it_.keys \
                        or isinstance(it_, ast.Constant) and it_.value in ("", b"") \
                        or isinstance(it_, ast.Call) and call_name(it_) == "range" and len(it_.args) == 1 and isinstance(it_.args[0], ast.Constant) \
                        and isinstance(it_.args[0].value, int) and it_.args[0].value <= 0
                elif isinstance(st, ast.While):
                    t_ = subst(st.test, env)
                    never = _known_truth(t_) is False
                    if _known_truth(t_) is None:
                        body_conds = body_conds + [t_]      # the body runs only while the test holds
                for fld in ("body", "orelse", "finalbody"):
                    if never and fld == "body":
                        continue
                    walk(list(getattr(st, fld, []) or []), dict(inner_env), list(body_conds if fld == "body" else conds), inner_vars)
                for h in getattr(st, "handlers", []) or []:
                    walk(list(h.body), dict(env), list(conds), loop_vars)
                if _has_exit([st]):
                    # the statements that follow run only if the block did not leave (return / raise inside; continue / break of
                    # the enclosing loop inside a try or with)
                    conds = conds + [ast.Name(id=f"__fell_through_{type(st).__name__.lower()}__", ctx=ast.Load())]
                continue
            collect(st, env, conds)
            plain = None
            if isinstance(st, ast.Assign) and len(st.targets) == 1 and isinstance(st.targets[0], ast.Name) \
                    and not any(isinstance(x, ast.NamedExpr) for x in ast.walk(st.value)):
                plain = st.targets[0].id
                new_ = subst(st.value, env)
            elif isinstance(st, ast.AugAssign) and isinstance(st.target, ast.Name) and not any(isinstance(x, ast.NamedExpr) for x in ast.walk(st.value)):
                plain = st.target.id
                cur = env.get(st.target.id, ast.Name(id=st.target.id, ctx=ast.Load()))
                new_ = ast.BinOp(left=copy.deepcopy(cur), op=st.op, right=subst(st.value, env))
            # every other name the statement binds (a walrus inside its value, an import, an unpacking) is unknown from here on ...
            for n in _assigned_names([st]) - {plain}:
                env[n] = ast.Name(id=n + "'", ctx=ast.Load())
            # ... and so is every name whose object the statement may change in place (`orthogonality[:] = ..`, `xs.sort()`, out=)
            aug_name = isinstance(st, ast.AugAssign) and isinstance(st.target, ast.Name)     # (`defect |= FLAG` on a local: its own update)
            for n in (set() if aug_name else (_mutated_names(st) | _inplace_written(st, grp_block)) - {plain}):
                if "." not in n and n not in _MODULE_NAMES:
                    env[n] = ast.Name(id=n + "'", ctx=ast.Load())
            if plain is not None:
                env[plain] = new_

    def collect(node, env, conds):
        for c in ast.walk(node):
            if isinstance(c, ast.Call) and (call_name(c) or "") in names:
                # names bound where the call stands (comprehension variables, lambda parameters) mean something else than the
                # enclosing function's locals; the body of a lambda runs later, with the bindings of that time
                env_c = dict(env)
                extra = []
                for outer in ast.walk(node):
                    if outer is c or not any(y is c for y in ast.walk(outer)):
                        continue
                    if isinstance(outer, (ast.ListComp, ast.SetComp, ast.GeneratorExp, ast.DictComp)):
                        for g in outer.generators:
                            for t in ast.walk(g.target):
                                if isinstance(t, ast.Name):
                                    env_c.pop(t.id, None)
                    elif isinstance(outer, ast.Lambda):
                        for n in all_assigned:
                            env_c[n] = ast.Name(id=n + "'", ctx=ast.Load())
                        for a in ast.walk(outer.args):
                            if isinstance(a, ast.arg):
                                env_c.pop(a.arg, None)
                for outer in ast.walk(node):
                    if outer is c or not any(y is c for y in ast.walk(outer)):
                        continue
                    # a call in the element of a comprehension runs under the comprehension's filters
                    if isinstance(outer, (ast.ListComp, ast.SetComp, ast.GeneratorExp, ast.DictComp)) \
                            and not any(y is c for g in outer.generators for y in ast.walk(g)):
                        for g in outer.generators:
                            extra.extend(subst(t, env_c) for t in g.ifs)
                    # ... in an arm of a conditional expression / behind `and` / `or` under those tests
                    elif isinstance(outer, ast.IfExp):
                        if any(y is c for y in ast.walk(outer.body)):
                            extra.append(subst(outer.test, env_c))
                        elif any(y is c for y in ast.walk(outer.orelse)):
                            extra.append(ast.UnaryOp(op=ast.Not(), operand=subst(outer.test, env_c)))
                    elif isinstance(outer, ast.BoolOp):
                        k_ = next((i for i, v in enumerate(outer.values) if any(y is c for y in ast.walk(v))), 0)
                        for v in outer.values[:k_]:
                            extra.append(subst(v, env_c) if isinstance(outer.op, ast.And) else ast.UnaryOp(op=ast.Not(), operand=subst(v, env_c)))
                out.append(([copy.deepcopy(x) for x in conds] + extra, subst(c, env_c)))
    all_assigned = _assigned_names(list(block))
    grp_block = _alias.groups(ast.Module(body=list(block), type_ignores=[]))
    start = dict(env0 or {})
    # the block may be the body of a loop: a name it assigns may carry the value of the previous iteration where it is read
    # before its assignment - unknown at the start (an assignment in the block then gives it its value for what follows)
    for n in sorted(all_assigned):
        start.setdefault(n, ast.Name(id=n + "'", ctx=ast.Load()))
    walk(list(block), start, [])
    return out


def split_conditionals(conds, e):
    """[(conditions, expression without conditional expressions)]: every `a if t else b` inside `e` is decided both ways and the
    test (or its negation) joins the conditions - statements and expressions that branch become the same set of paths"""
    for n in ast.walk(e):
        if isinstance(n, ast.IfExp):
            out = []
            for val, cond in ((n.body, n.test), (n.orelse, ast.UnaryOp(op=ast.Not(), operand=copy.deepcopy(n.test)))):
                class R(ast.NodeTransformer):
                    def visit_IfExp(self, x):
                        if ast.dump(x.test) == ast.dump(n.test):
                            return self.visit(copy.deepcopy(x.body if val is n.body else x.orelse))
                        return self.generic_visit(x)
                out.extend(split_conditionals(list(conds) + [copy.deepcopy(cond)], R().visit(copy.deepcopy(e))))
            return out
    return [(list(conds), e)]


_CODE_INDEX = {}


def _target_text(t):
    return ast.unparse(_loaded(t))


def store_counts(root):
    """how often each target (a name, `x[i]`, `obj.a` - as written) is stored in the function, by any construct"""
    out = {}
    for n in ast.walk(root):
        if isinstance(n, (ast.Name, ast.Subscript, ast.Attribute)) and isinstance(getattr(n, "ctx", None), (ast.Store, ast.Del)):
            k = _target_text(n)
            out[k] = out.get(k, 0) + 1
        elif isinstance(n, ast.alias) and n.name != "*":
            k = (n.asname or n.name).split(".")[0]
            out[k] = out.get(k, 0) + 1
        elif isinstance(n, (ast.FunctionDef, ast.AsyncFunctionDef, ast.ClassDef)) and n is not root:
            out[n.name] = out.get(n.name, 0) + 1
        elif isinstance(n, ast.ExceptHandler) and n.name:
            out[n.name] = out.get(n.name, 0) + 1
    return out


def _dead_ids(root):
    """ids of the nodes that can never run: statements behind an unconditional return / raise / continue / break of their block,
    bodies under a test that is false as written (`if False:`, `while 0:`), else-arms under one that is true"""
    dead = set()

    def kill(stmts_):
        for st in stmts_:
            for x in ast.walk(st):
                dead.add(id(x))

    def block(stmts_):
        for k, st in enumerate(stmts_):
            if isinstance(st, (ast.Return, ast.Raise, ast.Continue, ast.Break)):
                kill(stmts_[k + 1:])
                break
            if isinstance(st, (ast.If, ast.While)):
                kt = _known_truth(st.test) if not isinstance(st.test, ast.Constant) else bool(st.test.value)
                if kt is False:
                    kill(st.body)
                elif kt is True and isinstance(st, ast.If):
                    kill(st.orelse)
            for fld in ("body", "orelse", "finalbody"):
                b = getattr(st, fld, None)
                if isinstance(b, list) and b and isinstance(b[0], ast.stmt):
                    block(b)
            for h in getattr(st, "handlers", []) or []:
                block(h.body)
    if isinstance(getattr(root, "body", None), list):
        block(root.body)
    return dead


def _code_index(root):
    """canonical forms of every sub-expression and of every simple statement under `root` (computed once per node)"""
    hit = _CODE_INDEX.get(id(root))
    if hit is not None and hit[0] is root:
        return hit[1], hit[2]
    exprs, stmts_ = set(), set()
    dead = _dead_ids(root)
    # a statement counts only if it is the store the reference had: a target that is stored MORE often than in the reference
    # function (`operations[mask] = A` followed by a new `operations[mask] = B`) has no statement of its own any more
    ref_counts = getattr(root, "_ref_store_counts", None)
    over = set()
    if ref_counts is not None:
        now = store_counts(root)
        over = {t for t, k in now.items() if k > ref_counts.get(t, 0)}
    for n in ast.walk(root):
        if id(n) in dead:
            continue
        if isinstance(n, ast.expr):
            try:
                exprs.add(repr(canon(n)))
            except Exception:
                pass
        elif isinstance(n, ast.stmt):
            if over and isinstance(n, (ast.Assign, ast.AugAssign, ast.AnnAssign)):
                tg = n.targets if isinstance(n, ast.Assign) else [n.target]
                if any(_target_text(x) in over for t in tg for x in ast.walk(t) if isinstance(x, (ast.Name, ast.Subscript, ast.Attribute))
                       and isinstance(getattr(x, "ctx", None), (ast.Store, ast.Del))):
                    continue
            k = _stmt_key(n)
            if k is not None:
                stmts_.add(k)
    if len(_CODE_INDEX) > 400:
        _CODE_INDEX.clear()
    _CODE_INDEX[id(root)] = (root, exprs, stmts_)
    return exprs, stmts_


def _loaded(t):
    t = copy.deepcopy(t)
    for n in ast.walk(t):
        if hasattr(n, "ctx"):
            n.ctx = ast.Load()
    return t


def _stmt_key(st):
    """canonical identity of a simple statement (None for compound statements and what canon cannot express)"""
    try:
        if isinstance(st, ast.Assign) and len(st.targets) == 1:
            return repr(("=", canon(_loaded(st.targets[0])), canon(st.value)))
        if isinstance(st, ast.AugAssign):
            return repr(("aug", type(st.op).__name__, bool(getattr(st, "_rebind", False)), canon(_loaded(st.target)), canon(st.value)))
        if isinstance(st, ast.Return):
            return repr(("return", canon(st.value) if st.value is not None else None))
        if isinstance(st, ast.Expr):
            return repr(("expr", canon(st.value)))
        if isinstance(st, ast.Raise):
            return repr(("raise", type(st.exc).__name__ if st.exc is not None else None,
                         (call_name(st.exc) if isinstance(st.exc, ast.Call) else None)))
    except Exception:
        return None
    return None


def has_code(root, text):
    """does `root` contain the expression / simple statement `text`, modulo canon() (operand order of commutative operators,
    comparison orientation, spelling of constants, `x = x + e` as written) - the replacement for `"text" in ast.unparse(root)`"""
    exprs, stmts_ = _code_index(root)
    try:
        e = ast.parse(text.strip(), mode="eval").body
        return repr(canon(e)) in exprs
    except SyntaxError:
        pass
    mod = ast.parse(text.strip())
    if len(mod.body) != 1:
        raise ValueError(f"has_code: one expression or one simple statement expected: {text!r}")
    from .normalize import _Aug
    _Aug().visit(mod)
    k = _stmt_key(mod.body[0])
    if k is None:
        raise ValueError(f"has_code: not a simple statement: {text!r}")
    return k in stmts_


def summarize_block(stmts_, skip=lambda st: False, env0=None):
    """final bindings of a statement list treated as straight-line code (e.g. one loop iteration); `skip` drops statements"""
    body = [copy.deepcopy(st) for st in stmts_ if not skip(st)] or [ast.Pass()]
    fn = ast.FunctionDef(name="_block", args=ast.arguments(posonlyargs=[], args=[], kwonlyargs=[], kw_defaults=[], defaults=[]),
                         body=body, decorator_list=[], returns=None, type_comment=None)
    ast.fix_missing_locations(fn)
    return summarize(fn, env0=env0)


def field_of(summary, obj, attr):
    """the value a summarised function leaves in `obj.attr` (last `obj.attr = v`), or None"""
    e = summary.env.get(obj) if summary.env is not None else None
    while isinstance(e, ast.Call) and call_name(e) in ("__setattr__", "__mut__", "__set__", "__inplace__"):
        if call_name(e) == "__setattr__" and isinstance(e.args[1], ast.Constant) and e.args[1].value == attr:
            return e.args[2]
        if call_name(e) == "__setattr__":
            e = e.args[0]
        else:
            return None
    if isinstance(e, ast.IfExp):
        a, b = ast.Call(func=ast.Name(id="_", ctx=ast.Load()), args=[], keywords=[]), None
        sa_, sb_ = Summary(), Summary()
        sa_.env, sb_.env = {obj: e.body}, {obj: e.orelse}
        a, b = field_of(sa_, obj, attr), field_of(sb_, obj, attr)
        if a is not None and b is not None:
            return a if ast.dump(a) == ast.dump(b) else ast.IfExp(test=e.test, body=a, orelse=b)
    return None


def local_value(func, var, descend=True):
    """value of a local after the stretch of top-level statements of `func` that builds it (from its first assignment to the
    last statement that stores it OR may change its object in place: `var[:] = ..`, `var.fill(..)`, `out=var`, a store through
    a name that may refer to the same object), composed with the earlier statements of the function that bind or change what this stretch reads
    (a backward slice): the value is an expression in the function's inputs, and independent of the rest of a long function."""
    grp = _alias.groups(func)
    same = _alias.closure_of({var}, grp)

    def stores(st):
        if any(isinstance(n, ast.Name) and n.id == var and isinstance(n.ctx, ast.Store) for n in ast.walk(st)):
            return True
        return bool(_inplace_written(st, grp) & same)

    def innermost(block, before):
        """the innermost block all of whose stores of var sit in one of its statements' own nesting"""
        idx = [k for k, st in enumerate(block) if stores(st)]
        if len(idx) == 1 and not (isinstance(block[idx[0]], (ast.Assign, ast.AugAssign, ast.AnnAssign))):
            st = block[idx[0]]
            subs = [getattr(st, f) for f in ("body", "orelse", "finalbody") if isinstance(getattr(st, f, None), list)]
            holding = [b for b in subs if any(stores(x) for x in b)]
            if len(holding) == 1 and isinstance(st, (ast.If, ast.With)) and descend:
                return innermost(holding[0], before + list(block[:idx[0]]))
        return block, idx, before + (list(block[:idx[0]]) if idx else [])
    block, idx, before = innermost(func.body, [])
    if not idx:
        return None
    stretch = list(block[idx[0]:idx[-1] + 1])

    def rebinds(st):
        return {n.id for n in ast.walk(st) if isinstance(n, ast.Name) and isinstance(n.ctx, (ast.Store, ast.Del))}

    def reads(st):
        return {n.id for n in ast.walk(st) if isinstance(n, ast.Name)}
    # backward slice: an earlier statement belongs to the computation when it binds, or may change in place, something the
    # statements already taken read (directly or through a name that may refer to the same object)
    needed = set()
    for st in stretch:
        needed |= reads(st)
    taken = [False] * len(before)
    changed = True
    while changed:
        changed = False
        for k in range(len(before) - 1, -1, -1):
            if not taken[k] and (rebinds(before[k]) & needed or _inplace_written(before[k], grp) & _alias.closure_of(needed, grp)):
                taken[k] = True
                needed |= reads(before[k])
                changed = True
    sm = summarize_block([st for k, st in enumerate(before) if taken[k]] + stretch)
    return sm.env.get(var)


def _inplace_written(st, grp=None):
    """names whose OBJECT the statement may change (not the binding of the name): stores into it (through any expression that
    may be it: `x[i] = v`, `np.asarray(x)[:] = v`, `box[0][:] = v` for what box holds), augmented assignments as written in
    the source, calls that are not known to be read-only on it or with it as the array to write into.  `grp`: alias.groups
    of the function (classes and holds); without it only the names that occur are returned."""
    out = set()

    def through(e):
        return _alias.written_through(e, grp)
    seen_targets = set()
    for n in ast.walk(st):
        if isinstance(n, (ast.Assign, ast.AugAssign, ast.Delete, ast.AnnAssign)):
            for t in (n.targets if isinstance(n, (ast.Assign, ast.Delete)) else [n.target]):
                seen_targets.update(id(x) for x in ast.walk(t))
                for x in ([t] if not isinstance(t, (ast.Tuple, ast.List)) else list(ast.walk(t))):
                    if isinstance(x, ast.Attribute) and isinstance(x.ctx, (ast.Store, ast.Del)) and isinstance(x.value, ast.Name) \
                            and x.value.id in ("self", "cls"):
                        out.add(f"{x.value.id}.{x.attr}")          # a field of the instance is rebound: the instance is the same object
                    elif isinstance(x, (ast.Subscript, ast.Attribute)) and isinstance(x.ctx, (ast.Store, ast.Del)):
                        out |= through(x.value)
            if isinstance(n, ast.AugAssign) and isinstance(n.target, ast.Name) and not getattr(n, "_rebind", False):
                out |= _alias.closure_of({n.target.id}, grp or {})
        elif isinstance(n, ast.Call):
            fn = call_name(n) or ""
            if isinstance(n.func, ast.Attribute) and not _alias.reads_only(n) and not fn.startswith(("np.", "numpy.")):
                root = n.func.value
                if not (isinstance(root, ast.Name) and root.id in _MODULE_NAMES):
                    out |= through(n.func.value)
            for o in _out_arguments(n):
                out |= through(o)
            if not isinstance(n.func, (ast.Name, ast.Attribute)):
                # `ms[0](0)` with ms = (x.fill,), `functools.partial(np.ndarray.fill, x)(0)`: whatever the callee expression holds
                for x in ast.walk(n.func):
                    if isinstance(x, ast.Name):
                        out |= (_alias.closure_of({x.id}, grp) | _alias.held_closure({x.id}, grp)) if grp is not None else {x.id}
        elif isinstance(n, (ast.Subscript, ast.Attribute)) and isinstance(n.ctx, (ast.Store, ast.Del)) and id(n) not in seen_targets:
            # the target of a for / with / comprehension / walrus
            if not (isinstance(n, ast.Attribute) and isinstance(n.value, ast.Name) and n.value.id in ("self", "cls")):
                out |= through(n.value)
    return out - _MODULE_NAMES


def _out_arguments(c_):
    """the argument expressions a call writes into: out=, the first argument of np.copyto / put / place / .., ufunc.at, the
    positional out of numpy functions and array methods, setattr / delattr, np.ndarray.fill(x, ..)-style unbound methods"""
    fn = call_name(c_) or ""
    outs = [k.value for k in c_.keywords if k.arg == "out"]
    last = fn.split(".")[-1]
    is_np = fn.startswith(("np.", "numpy."))
    if is_np and c_.args and (last in _FIRST_ARG_WRITERS or fn.endswith(".at")):
        outs.append(c_.args[0])
    if isinstance(c_.func, ast.Attribute) and c_.func.attr == "shuffle" and c_.args:
        outs.append(c_.args[0])             # rng.shuffle(x), random.shuffle(x), np.random.default_rng(0).shuffle(x)
    if is_np and len(c_.args) >= 3 and last in _UFUNCS2 and last not in _NP_OUT_POS:
        outs.append(c_.args[2])
    if is_np and last in _NP_OUT_POS and len(c_.args) > _NP_OUT_POS[last]:
        outs.extend(c_.args[_NP_OUT_POS[last]:_NP_OUT_POS[last] + (2 if last in ("divmod", "modf", "frexp") else 1)])
    if is_np and last == "nan_to_num" and (len(c_.args) >= 2 or any(k.arg == "copy" for k in c_.keywords)) and c_.args:
        outs.append(c_.args[0])             # np.nan_to_num(x, copy=False) works in place
    if is_np and len(c_.args) >= 2 and last in _UFUNCS1 and last != "copyto":
        outs.append(c_.args[1])
    if fn in ("setattr", "delattr", "object.__setattr__", "object.__delattr__") and c_.args:
        outs.append(c_.args[0])
    if isinstance(c_.func, ast.Attribute) and c_.func.attr in _METHOD_OUT_POSITION and len(c_.args) > _METHOD_OUT_POSITION[c_.func.attr] and not is_np:
        outs.append(c_.args[_METHOD_OUT_POSITION[c_.func.attr]])
    # np.ndarray.fill(x, 0), list.append(xs, v): an unbound method of a type writes into its first argument
    if isinstance(c_.func, ast.Attribute) and c_.func.attr in _MUTATING_METHOD_NAMES and c_.args \
            and ast.unparse(c_.func.value) in ("np.ndarray", "numpy.ndarray", "list", "dict", "set", "bytearray"):
        outs.append(c_.args[0])
    return outs


_MUTATING_METHOD_NAMES = {"sort", "fill", "resize", "put", "itemset", "setfield", "partition", "reverse", "append", "extend", "insert",
                          "pop", "remove", "clear", "update", "setdefault", "popitem", "add", "discard", "setflags", "byteswap",
                          "__iadd__", "__isub__", "__imul__", "__itruediv__", "__ifloordiv__", "__imod__", "__ipow__", "__iand__",
                          "__ior__", "__ixor__", "__ilshift__", "__irshift__", "__imatmul__", "__setitem__", "__delitem__", "__setattr__"}


def _out_written(st, grp=None):
    """names handed to a call as the array to write into (`out=x`, np.copyto(x, ..), x.clip(a, b, x))"""
    out = set()
    for c_ in ast.walk(st):
        if isinstance(c_, ast.Call):
            for o in _out_arguments(c_):
                out |= _alias.written_through(o, grp)
    return out
