"""One pass through a loop body as a small state machine: for every way through the body, the conditions that select it and what it
does to the tracked names.  Used to state rules about hand-written parsers (`_find_entries`, `read_iter`, `_to_single`) and other
accumulating loops by what each way through does, not by the shape of the if / elif ladder that selects it."""
import ast
import copy

from .exprnorm import canon
from .facts import negate, conjuncts
from .normalize import _dissolve_continue


class Way:
    def __init__(self, conds, updates, exit_):
        self.conds = conds          # frozenset of canonical conditions (repr), conjunctions split
        self.updates = updates      # tuple of unparsed statements on tracked names, in order
        self.exit = exit_           # None (falls through to the next pass), "raise", "return <expr>", "break"

    def key(self, known=None):
        c = self.conds if known is None else frozenset(x for x in self.conds if x in known)
        return (tuple(sorted(c)), tuple(sorted(self.updates)), self.exit)


def _cond_keys(test, positive):
    e = copy.deepcopy(test)
    if not positive:
        e = negate(e)
    return [repr(canon(c)) for c in conjuncts(e)]


def ways(body, tracked, extra_effects=()):
    """every way through one pass of `body`.  `tracked`: names whose assignments are recorded; `extra_effects`: method names
    (`append`, ..) whose calls as statements are recorded as well"""
    out = []

    def none_test(test, known):
        """`x is None` / `x is not None` for a tracked x whose value on this way is a known constant -> True / False, else None"""
        if isinstance(test, ast.Compare) and len(test.ops) == 1 and isinstance(test.ops[0], (ast.Is, ast.IsNot)) and isinstance(test.left, ast.Name) \
                and test.left.id in known and isinstance(test.comparators[0], ast.Constant) and test.comparators[0].value is None:
            is_none = known[test.left.id] is None
            return is_none if isinstance(test.ops[0], ast.Is) else not is_none
        return None

    def through_local(test, values):
        """`if flag:` / `if not flag:` with `flag` a tracked name that holds a test computed just before: the test itself"""
        if isinstance(test, ast.Name) and test.id in values:
            return values[test.id]
        if isinstance(test, ast.UnaryOp) and isinstance(test.op, ast.Not) and isinstance(test.operand, ast.Name) and test.operand.id in values:
            return ast.UnaryOp(op=ast.Not(), operand=values[test.operand.id])
        return test

    def walk(block, conds, ups, known=None, values=None):
        known = dict(known or {})
        values = dict(values or {})
        block = _dissolve_continue(list(block))
        for k, st in enumerate(block):
            if isinstance(st, ast.If):
                rest = block[k + 1:]
                st = ast.copy_location(ast.If(test=through_local(st.test, values), body=st.body, orelse=st.orelse), st)
                decided = none_test(st.test, known)
                if decided is not False:
                    walk(st.body + rest, conds + ([] if decided else _cond_keys(st.test, True)), list(ups), known, values)
                if decided is not True:
                    walk(st.orelse + rest, conds + ([] if decided is False else _cond_keys(st.test, False)), list(ups), known, values)
                return
            # `x = a if c else b` on a tracked name is the two ways `c: x = a` and `not c: x = b`
            if isinstance(st, ast.Assign) and len(st.targets) == 1 and isinstance(st.targets[0], ast.Name) and st.targets[0].id in tracked \
                    and isinstance(st.value, ast.IfExp):
                rest = block[k + 1:]
                for val, pos in ((st.value.body, True), (st.value.orelse, False)):
                    one = ast.copy_location(ast.Assign(targets=[copy.deepcopy(st.targets[0])], value=val), st)
                    ast.fix_missing_locations(one)
                    walk([one] + rest, conds + _cond_keys(st.value.test, pos), list(ups), known, values)
                return
            if isinstance(st, ast.Raise):
                out.append(Way(frozenset(conds), tuple(ups), "raise"))
                return
            if isinstance(st, ast.Return):
                out.append(Way(frozenset(conds), tuple(ups), "return " + (ast.unparse(st.value) if st.value is not None else "None")))
                return
            if isinstance(st, ast.Break):
                out.append(Way(frozenset(conds), tuple(ups), "break"))
                return
            if isinstance(st, ast.Continue):
                out.append(Way(frozenset(conds), tuple(ups), None))
                return
            if isinstance(st, (ast.Assign, ast.AugAssign)):
                tg = st.targets[0] if isinstance(st, ast.Assign) else st.target
                if isinstance(tg, ast.Name) and tg.id in tracked:
                    if isinstance(st, ast.Assign) and isinstance(st.value, ast.Name) and st.value.id == tg.id:
                        continue                      # x = x
                    ups.append(ast.unparse(st))
                    if isinstance(st, ast.Assign) and isinstance(st.value, ast.Constant):
                        known[tg.id] = st.value.value
                    else:
                        known.pop(tg.id, None)
                    if isinstance(st, ast.Assign) and isinstance(st.value, (ast.Compare, ast.Call, ast.BoolOp, ast.UnaryOp)) \
                            and not any(isinstance(x, ast.Name) and x.id == tg.id for x in ast.walk(st.value)):
                        values[tg.id] = st.value
                    else:
                        values.pop(tg.id, None)
            elif isinstance(st, ast.Expr) and isinstance(st.value, ast.Call) and (
                    isinstance(st.value.func, ast.Attribute) and st.value.func.attr in extra_effects
                    or isinstance(st.value.func, ast.Name) and st.value.func.id in extra_effects):
                ups.append(ast.unparse(st))
            elif isinstance(st, (ast.For, ast.While, ast.With, ast.Try)):
                ups.append("<block>")
        out.append(Way(frozenset(conds), tuple(ups), None))
    walk(list(body), [], [])
    return out


def assigned_names(node):
    return {t.id for st in ast.walk(node) if isinstance(st, (ast.Assign, ast.AugAssign))
            for t in (st.targets if isinstance(st, ast.Assign) else [st.target]) if isinstance(t, ast.Name)}


def same_machines(body_a, body_b, tracked):
    """do two loop bodies step the tracked state alike?  Conditions that only one of the two knows (its own bookkeeping, a filter in
    front) are left out; ways that change nothing and leave normally are not compared.  -> (equal, difference as text)"""
    wa, wb = ways(body_a, tracked), ways(body_b, tracked)
    ca = set().union(*[w.conds for w in wa]) if wa else set()
    cb = set().union(*[w.conds for w in wb]) if wb else set()
    ka = {w.key(cb) for w in wa if w.updates or w.exit}
    kb = {w.key(ca) for w in wb if w.updates or w.exit}
    if ka == kb:
        return True, ""
    only_a, only_b = sorted(ka - kb), sorted(kb - ka)
    return False, f"only in the first: {only_a[:2]}; only in the second: {only_b[:2]}"
