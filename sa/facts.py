"""
Facts that hold when a statement executes, read off the structure around it:
the tests of the enclosing `if`s (positive in the body, negated in the else
arm) and guard clauses earlier in the enclosing blocks (`if T: continue /
break / return / raise` without else  =>  not T afterwards).  Tests are split
into conjuncts (and; negated or by De Morgan; chained comparisons) and each
conjunct is kept in the canonical form of exprnorm.canon, so `0 <= x`,
`x >= 0` and `not x < 0` are the same fact.  A fact is killed when a name it mentions is rebound (or its
object is stored into) between the test and the use, or anywhere inside a loop
that is entered after the test.
"""

import ast
import copy

from . import alias as _alias
from .exprnorm import canon, _inplace_written

_NEG = {ast.Lt: ast.GtE, ast.GtE: ast.Lt, ast.Gt: ast.LtE, ast.LtE: ast.Gt, ast.Eq: ast.NotEq, ast.NotEq: ast.Eq,
        ast.Is: ast.IsNot, ast.IsNot: ast.Is, ast.In: ast.NotIn, ast.NotIn: ast.In}


def negate(e):
    if isinstance(e, ast.UnaryOp) and isinstance(e.op, ast.Not):
        return e.operand
    if isinstance(e, ast.Compare) and len(e.ops) == 1 and type(e.ops[0]) in _NEG:
        return ast.Compare(left=e.left, ops=[_NEG[type(e.ops[0])]()], comparators=list(e.comparators))
    if isinstance(e, ast.BoolOp) and isinstance(e.op, ast.Or):
        return ast.BoolOp(op=ast.And(), values=[negate(v) for v in e.values])
    if isinstance(e, ast.BoolOp) and isinstance(e.op, ast.And):
        return ast.BoolOp(op=ast.Or(), values=[negate(v) for v in e.values])
    return ast.UnaryOp(op=ast.Not(), operand=e)


def conjuncts(e):
    if isinstance(e, ast.BoolOp) and isinstance(e.op, ast.And):
        out = []
        for v in e.values:
            out.extend(conjuncts(v))
        return out
    if isinstance(e, ast.UnaryOp) and isinstance(e.op, ast.Not):
        inner = e.operand
        if isinstance(inner, (ast.BoolOp, ast.Compare, ast.UnaryOp)):
            n = negate(inner)
            if not (isinstance(n, ast.UnaryOp) and isinstance(n.op, ast.Not)):
                return conjuncts(n)
        return [e]
    if isinstance(e, ast.Compare) and len(e.ops) > 1:
        out = []
        left = e.left
        for op, right in zip(e.ops, e.comparators):
            out.append(ast.Compare(left=left, ops=[op], comparators=[right]))
            left = right
        return out
    return [e]


def disjuncts(e):
    """expressions whose disjunction is the test: `a or b`, `not (a and b)`, `not lo <= x < hi`, and element-wise: `np.any(a | b)`,
    `np.any(a) or np.any(b)`, `(a | b).any()` all give the same list of element conditions (any-wrappers are dropped)"""
    out = []
    for c in conjuncts(negate(copy.deepcopy(e))):
        d = negate(c)
        # unwrap any(): np.any(X) / X.any()
        inner = None
        if isinstance(d, ast.Call) and not d.keywords:
            if isinstance(d.func, ast.Attribute) and d.func.attr == "any" and not d.args:
                inner = d.func.value
            elif ast.unparse(d.func) in ("np.any", "numpy.any", "any") and len(d.args) == 1:
                inner = d.args[0]
        if inner is not None:
            parts = []

            def split(x):
                if isinstance(x, ast.BinOp) and isinstance(x.op, ast.BitOr):
                    split(x.left); split(x.right)
                else:
                    parts.append(x)
            split(inner)
            for p_ in parts:
                out.extend(disjuncts(p_) if isinstance(p_, (ast.BoolOp, ast.UnaryOp)) or (isinstance(p_, ast.Compare) and len(p_.ops) > 1) else [p_])
        else:
            out.append(d)
    return out


def _leaves_block(block):
    """does the block always leave the enclosing flow (continue/break/return/raise as its last statement)"""
    return bool(block) and isinstance(block[-1], (ast.Continue, ast.Break, ast.Return, ast.Raise))


def _rebound(stmts_):
    """(names rebound, names whose object is stored into) by the statements, at any depth"""
    names, stored = set(), set()
    pointer_args = _rebound.pointer_args = set()
    for st in stmts_:
        for n in ast.walk(st):
            if isinstance(n, ast.Name) and isinstance(n.ctx, (ast.Store, ast.Del)):
                names.add(n.id)
            elif isinstance(n, ast.alias) and n.name != "*":
                names.add((n.asname or n.name).split(".")[0])        # import .. as name
            elif isinstance(n, (ast.FunctionDef, ast.AsyncFunctionDef, ast.ClassDef)):
                names.add(n.name)
                names.update(x for g in ast.walk(n) if isinstance(g, (ast.Nonlocal, ast.Global)) for x in g.names)
            elif isinstance(n, ast.ExceptHandler) and n.name:
                names.add(n.name)
            if isinstance(n, ast.Call):
                # lowered Cython `f(&x)` is `f(+x)`: the callee may write x; a pointer variable handed on (`memset(p, ..)`) is
                # reported as stored-into, the caller maps it to what it may point at
                for a in list(n.args) + [k.value for k in n.keywords]:
                    if isinstance(a, ast.Name):
                        pointer_args.add(a.id)
                    # the address of a variable anywhere in an argument (`&x if c else NULL`, `cython.address(x)`)
                    for y in ast.walk(a):
                        if isinstance(y, ast.UnaryOp) and isinstance(y.op, ast.UAdd) and isinstance(y.operand, ast.Name):
                            names.add(y.operand.id)
                        elif isinstance(y, ast.Call) and (ast.unparse(y.func) in ("cython.address", "address")) and y.args and isinstance(y.args[0], ast.Name):
                            names.add(y.args[0].id)
            elif isinstance(n, (ast.Subscript, ast.Attribute)) and isinstance(n.ctx, (ast.Store, ast.Del)):
                b = n
                while isinstance(b, (ast.Subscript, ast.Attribute)):
                    b = b.value
                if isinstance(b, ast.Name):
                    stored.add(b.id)
    return names, stored


def _mentions(fact, names, stored):
    shape_only = set()
    for n in ast.walk(fact):
        if isinstance(n, ast.Attribute) and n.attr == "shape" and isinstance(n.value, ast.Name):
            shape_only.add(id(n.value))
    for n in ast.walk(fact):
        if isinstance(n, ast.Attribute) and isinstance(n.value, ast.Name) and n.value.id in ("self", "cls") \
                and (f"{n.value.id}.{n.attr}" in stored or f"{n.value.id}.{n.attr}" in names):
            return True          # a field of the instance (pseudo-name of the alias model) was written
        if isinstance(n, ast.Name):
            if n.id in names:
                return True
            if n.id in stored and id(n) not in shape_only:
                return True
    return False


def _range_facts(loop):
    """`for v in range(lo, hi)` (step 1): lo <= v < hi inside the body; max(..) as lower and min(..) as upper bound give one
    fact per argument (`range(max(a, 0), min(b, n))`: v >= a, v >= 0, v < b, v < n)"""
    it = loop.iter
    if not (isinstance(loop.target, ast.Name) and isinstance(it, ast.Call) and isinstance(it.func, ast.Name) and it.func.id == "range"
            and not it.keywords and 1 <= len(it.args) <= 3):
        return []
    if len(it.args) == 3 and not (isinstance(it.args[2], ast.Constant) and it.args[2].value == 1):
        return []
    v = loop.target.id
    lo = it.args[0] if len(it.args) >= 2 else ast.Constant(0)
    hi = it.args[1] if len(it.args) >= 2 else it.args[0]

    def parts(e, fname):
        if isinstance(e, ast.Call) and isinstance(e.func, ast.Name) and e.func.id == fname and not e.keywords and len(e.args) >= 2:
            out = []
            for a in e.args:
                out.extend(parts(a, fname))
            return out
        return [e]
    out = []
    for b in parts(lo, "max"):
        out.append(ast.Compare(left=ast.Name(id=v, ctx=ast.Load()), ops=[ast.GtE()], comparators=[copy.deepcopy(b)]))
    for b in parts(hi, "min"):
        out.append(ast.Compare(left=ast.Name(id=v, ctx=ast.Load()), ops=[ast.Lt()], comparators=[copy.deepcopy(b)]))
    return out


def facts_at(func, node):
    """set of canonical facts holding at `node` (an AST node inside func).  A fact is dropped when one of its names is
    rebound (or its object stored into) between the test and the node, or anywhere in a loop entered after the test."""
    facts = []

    def contains(st):
        return any(x is node for x in ast.walk(st))

    grp = _alias.groups(func)
    # lowered Cython: `+x` is `&x`; a store through a pointer that may point at x changes the VALUE of x
    addr_taken = {n.operand.id for n in ast.walk(func) if isinstance(n, ast.UnaryOp) and isinstance(n.op, ast.UAdd) and isinstance(n.operand, ast.Name)}

    def kill(stmts_):
        names, stored = _rebound(stmts_)
        # a name handed to a call that may point at an address-taken variable (`p = &x; memset(p, ..)`): x may be written
        for p_ in getattr(_rebound, "pointer_args", ()):
            names |= _alias.closure_of({p_}, grp) & addr_taken
        for st_ in stmts_:
            stored |= _inplace_written(st_, grp)
        if stored:
            # the object may be known under other names as well (`u = v`, a view, a pointer)
            stored = _alias.closure_of(stored, grp)
            names |= stored & addr_taken
        if names or stored:
            facts[:] = [f for f in facts if not _mentions(f, names, stored)]
        # a fact about what a call answered (`self.get_app_state() == ..`, `time.time() - t0 < limit`) does not outlive a statement
        # that calls anything which is not known to only read
        if any(isinstance(x, ast.Call) and not _alias.reads_only(x) for st_ in stmts_ for x in ast.walk(st_)):
            facts[:] = [f for f in facts if not any(isinstance(x, ast.Call) and not _alias.reads_only(x) for x in ast.walk(f))]

    def add_test_facts(test, negated=False):
        """the conjuncts of a test (of its negation) that still hold when the test has been evaluated completely: a conjunct is
        dropped when a LATER part of the test may write what it mentions (`x >= 0 and advance(&x)`, a walrus, a mutating call)"""
        cs = conjuncts(negate(test) if negated else test)
        for i, c in enumerate(cs):
            later = [ast.Expr(value=x) for x in cs[i + 1:]]
            names, stored = _rebound(later)
            for p_ in getattr(_rebound, "pointer_args", ()):
                names |= _alias.closure_of({p_}, grp) & addr_taken
            for st_ in later:
                stored |= _inplace_written(st_, grp)
                names |= {n.target.id for n in ast.walk(st_) if isinstance(n, ast.NamedExpr) and isinstance(n.target, ast.Name)}
            if stored:
                stored = _alias.closure_of(stored, grp)
                names |= stored & addr_taken
            if not _mentions(c, names, stored):
                facts.append(c)

    def descend(block):
        for k, st in enumerate(block):
            if contains(st):
                # guard clauses before st in this block
                for j, prev in enumerate(block[:k]):
                    if isinstance(prev, ast.If) and not prev.orelse and _leaves_block(prev.body):
                        # (on the way that goes on, the body of the guard clause did not run: only the test itself was evaluated)
                        kill([ast.Expr(value=prev.test)])
                        add_test_facts(prev.test, negated=True)
                    elif isinstance(prev, ast.If) and prev.orelse and _leaves_block(prev.orelse) and not _leaves_block(prev.body):
                        # the test held when the body was entered: what the body (and the test itself) writes afterwards kills it
                        kill([ast.Expr(value=prev.test)])
                        add_test_facts(prev.test)
                        kill(list(prev.body))
                    else:
                        kill([prev])
                if isinstance(st, ast.If):
                    if any(contains(b) for b in st.body):
                        add_test_facts(st.test)
                        descend(st.body)
                    elif any(contains(b) for b in st.orelse):
                        add_test_facts(st.test, negated=True)
                        descend(st.orelse)
                    return
                if isinstance(st, (ast.For, ast.While, ast.AsyncFor)):
                    kill([st])      # a later iteration sees what any part of the loop rebinds
                    if isinstance(st, ast.For) and any(contains(b) for b in st.body):
                        # the bounds were evaluated once, before the loop: a bound whose operands the loop body rebinds or writes
                        # (`cells = cells[:1]` with `range(.., cells.shape[0])`) says nothing about them any more
                        n_before = len(facts)
                        facts.extend(_range_facts(st))
                        tnames = {t.id for t in ast.walk(st.target) if isinstance(t, ast.Name)}
                        names_, stored_ = _rebound(list(st.body) + list(st.orelse))
                        for st_ in list(st.body) + list(st.orelse):
                            stored_ |= _inplace_written(st_, grp)
                        stored_ = _alias.closure_of(stored_, grp) if stored_ else stored_
                        names_ = (names_ | (stored_ & addr_taken)) - tnames
                        facts[n_before:] = [f for f in facts[n_before:] if not _mentions(f, names_, stored_)]
                    if isinstance(st, ast.While) and any(contains(b) for b in st.body):
                        add_test_facts(st.test)          # the test held when this iteration began
                elif isinstance(st, (ast.With, ast.AsyncWith)):
                    kill([ast.Expr(value=i.optional_vars) for i in st.items if i.optional_vars is not None])
                for fld in ("body", "orelse", "finalbody"):
                    sub = getattr(st, fld, None)
                    if isinstance(sub, list) and any(contains(b) for b in sub):
                        if isinstance(st, ast.Try) and fld in ("orelse", "finalbody"):
                            kill(list(st.body))          # the body ran (else), or any part of it and of the handlers (finally)
                            if fld == "finalbody":
                                kill([b for h in st.handlers for b in h.body] + list(st.orelse))
                        descend(sub)
                        return
                if isinstance(st, ast.Try):
                    for h in st.handlers:
                        if any(contains(b) for b in h.body):
                            kill(list(st.body))          # any prefix of the body may have run before the exception
                            if h.name:
                                kill([ast.Expr(value=ast.Name(id=h.name, ctx=ast.Store()))])
                            descend(h.body)
                            return
                return

    descend(func.body)
    out = set()
    for f in facts:
        try:
            out.add(canon(copy.deepcopy(f)))
        except Exception:
            continue
    return out
