"""
Undoing common behaviour-preserving refactorings before the rules run.

The rules were written against one shape of the code.  A maintainer's clean-up
(extracting a helper, introducing a named constant, folding repeated statements
into a loop over a table) changes the shape but not the behaviour.  This module
rewrites the in-memory AST back towards the reference shape, using the
reference inventory of each module (`localnames.json`: its functions, module
level names and literal loops).  Only constructs that are NEW with respect to
the inventory are touched, so code the rules already know is never altered:

  constants   a new module-level name bound once to a literal (number, string,
              tuple/list/dict of literals) is replaced by the literal wherever
              it is read
  helpers     a call to a new private function (or method) whose body is
              straight-line is replaced by that body: expression helpers by
              their summarised result expression, statement helpers (guards,
              side effects, single trailing return) by their statements with
              the parameters substituted
  loops       a new `for` over a literal sequence (after constant propagation),
              `enumerate(literal)` or `literal_dict.items()` without
              break/continue/else is unrolled
  getattr     getattr(x, "name") -> x.name

Nothing here can create an alarm by itself; a construct that is not recognised
is left as it is and the rules see the code as written.
"""

import ast
import copy

from . import alias as _alias

MAX_UNROLL = 24


# ---------------------------------------------------------------------------
# inventory


def inventory(tree):
    funcs = []
    for q, fn in _iter_funcs(tree):
        funcs.append(q)
    globs = []
    for st in tree.body:
        if isinstance(st, ast.Assign):
            for t in st.targets:
                for n in ast.walk(t):
                    if isinstance(n, ast.Name):
                        globs.append(n.id)
        elif isinstance(st, ast.AnnAssign) and isinstance(st.target, ast.Name):
            globs.append(st.target.id)
    for cnode in [c for c in ast.walk(tree) if isinstance(c, ast.ClassDef)]:
        for st in cnode.body:
            if isinstance(st, ast.Assign):
                for t in st.targets:
                    if isinstance(t, ast.Name):
                        globs.append(f"{cnode.name}.{t.id}")
    loops = {}
    for q, fn in _iter_funcs(tree):
        its = [ast.unparse(st.iter) + " ## " + _loop_fingerprint(st) for st in ast.walk(fn) if isinstance(st, ast.For) and _literal_iter(st) is not None]
        if its:
            loops[q] = its
    params = {}
    for q, fn in _iter_funcs(tree):
        nm = q.split(".")[-1]
        if nm.startswith("_") and not nm.startswith("__"):
            a = fn.args
            params.setdefault(q, [x.arg for x in a.posonlyargs + a.args])
    # how many arguments each callee receives positionally in this module (the spelling the rules were written against)
    call_pos = {}
    for n in ast.walk(tree):
        if isinstance(n, ast.Call) and not any(isinstance(a, ast.Starred) for a in n.args):
            nm = _callee_name(n)
            if nm:
                call_pos[nm] = max(call_pos.get(nm, 0), len(n.args))
    comps = {}
    for q, fn in _iter_funcs(tree):
        cs = [ast.unparse(st.value) for st in ast.walk(fn) if isinstance(st, ast.Assign) and isinstance(st.value, ast.ListComp)
              and len(st.value.generators) == 1 and isinstance(st.value.generators[0].iter, (ast.Tuple, ast.List))]
        if cs:
            comps[q] = cs
    dict_comps = sum(1 for n in ast.walk(tree) if isinstance(n, ast.DictComp) and len(n.generators) == 1 and (
        isinstance(n.generators[0].iter, (ast.Tuple, ast.List)) or isinstance(n.generators[0].iter, ast.Call) and isinstance(n.generators[0].iter.func, ast.Attribute)
        and isinstance(n.generators[0].iter.func.value, ast.Dict)))
    call_kw = {}
    for n in ast.walk(tree):
        if isinstance(n, ast.Call):
            nm = _callee_name(n)
            if nm:
                for k in n.keywords:
                    if k.arg and k.arg not in call_kw.setdefault(nm, []):
                        call_kw[nm].append(k.arg)
    tuple_assigns = {}
    for q, fn in _iter_funcs(tree):
        ts = [ast.unparse(st.targets[0]) for st in ast.walk(fn) if isinstance(st, ast.Assign) and len(st.targets) == 1
              and isinstance(st.targets[0], (ast.Tuple, ast.List)) and isinstance(st.value, (ast.Tuple, ast.List))]
        if ts:
            tuple_assigns[q] = ts
    from . import subset
    from .exprnorm import store_counts
    from .lints import none_tested_params, unthreaded_call_counts
    return {"none_tested": none_tested_params(tree), "unthreaded_calls": unthreaded_call_counts(tree), "reflection": _reflection_count(tree), "tuple_assigns": tuple_assigns, "census": subset.census(tree),
            "store_counts": {q: store_counts(fn) for q, fn in _iter_funcs(tree)},
            "functions": sorted(set(funcs)), "globals": sorted(set(globs)), "literal_loops": loops, "private_params": params,
            "call_positional": call_pos, "call_keywords": {k: sorted(v) for k, v in call_kw.items()}, "literal_comps": comps, "dict_comps": dict_comps}


def _reflection_count(tree):
    """how often a module reaches names by reflection (instance / module namespaces, classes built by type(..), setattr): bindings
    made that way are invisible to the passes that look for `name = value`"""
    n = 0
    for x in ast.walk(tree):
        if isinstance(x, ast.Attribute) and x.attr in ("__dict__", "__class__", "__bases__", "__setattr__", "__delattr__", "__getattribute__", "__slots__"):
            n += 1
        elif isinstance(x, ast.Call) and isinstance(x.func, ast.Name) and x.func.id in ("vars", "globals", "locals", "setattr", "delattr", "exec", "eval"):
            n += 1
        elif isinstance(x, ast.Call) and isinstance(x.func, ast.Name) and x.func.id == "type" and len(x.args) == 3:
            n += 1
    return n


def _callee_name(call):
    """name under which a callee's spelling is remembered: dotted name of a function, `.method` for calls on arbitrary receivers"""
    f = call.func
    d = None
    if _dotted_name(f):
        parts = []
        e = f
        while isinstance(e, ast.Attribute):
            parts.append(e.attr)
            e = e.value
        d = ".".join([e.id] + parts[::-1])
    if d and (isinstance(f, ast.Name) or d.split(".")[0] in ("np", "numpy", "self", "cls", "math")):
        return d if not d.startswith(("self.", "cls.")) else "." + d.split(".")[-1]
    if isinstance(f, ast.Attribute):
        return "." + f.attr
    return None


# parameter names of callables of other libraries that occur in the repository (leading parameters only)
_EXTERNAL_SIGNATURES = {
    "np.full": ["shape", "fill_value", "dtype"], "np.zeros": ["shape", "dtype"], "np.ones": ["shape", "dtype"], "np.empty": ["shape", "dtype"],
    "np.array": ["object", "dtype"], "np.asarray": ["a", "dtype"], "np.arange": ["start", "stop", "step"], "np.repeat": ["a", "repeats", "axis"],
    "np.tile": ["A", "reps"], "np.reshape": ["a", "newshape"],
    "np.isin": ["element", "test_elements"], "np.searchsorted": ["a", "v", "side"], "np.sum": ["a", "axis"], "np.max": ["a", "axis"], "np.min": ["a", "axis"],
    "np.mean": ["a", "axis"], "np.any": ["a", "axis"], "np.all": ["a", "axis"], "np.sort": ["a", "axis"], "np.append": ["arr", "values", "axis"],
    "np.delete": ["arr", "obj", "axis"], "np.insert": ["arr", "obj", "values", "axis"], "np.take": ["a", "indices", "axis"],
    "np.stack": ["arrays", "axis"], "np.swapaxes": ["a", "axis1", "axis2"], "np.transpose": ["a", "axes"], "np.clip": ["a", "a_min", "a_max"],
    "np.linspace": ["start", "stop", "num"], "np.full_like": ["a", "fill_value", "dtype"], "np.zeros_like": ["a", "dtype"],
    "np.unique": ["ar"], "np.argsort": ["a", "axis"], "np.cumsum": ["a", "axis"], "np.diff": ["a", "n", "axis"], "np.isclose": ["a", "b"],
    "np.allclose": ["a", "b"], "np.array_equal": ["a1", "a2"], "np.frombuffer": ["buffer", "dtype"], "np.fromiter": ["iter", "dtype"],
    "np.cross": ["a", "b"], "np.round": ["a", "decimals"],
    ".astype": ["dtype"], ".reshape": ["shape"], ".sum": ["axis"], ".mean": ["axis"], ".min": ["axis"], ".max": ["axis"], ".any": ["axis"], ".all": ["axis"],
    ".ljust": ["width", "fillchar"], ".rjust": ["width", "fillchar"], ".split": ["sep", "maxsplit"], ".replace": ["old", "new", "count"],
    ".get": ["key", "default"], ".encode": ["encoding"], ".decode": ["encoding"], ".join": ["iterable"],
}


def positionalise_new_keywords(tree, call_pos, signatures, call_kw=None):
    """undo 'positional argument -> keyword argument' in internal calls: where the reference passes the first n arguments of a callee
    positionally and the call at hand passes fewer, keywords that name the next parameters (names from the callee's signature) are
    moved back into their positions.  Pure spelling: Python binds the same parameter either way."""
    n_done = 0
    for c in ast.walk(tree):
        if not isinstance(c, ast.Call) or not c.keywords or any(isinstance(a, ast.Starred) for a in c.args):
            continue       # (`**kwargs` does not matter: a name given twice is refused in either spelling)
        nm = _callee_name(c)
        if nm is None:
            continue
        want = call_pos.get(nm, 0)
        sig = signatures.get(nm) or signatures.get(nm.lstrip(".")) or _EXTERNAL_SIGNATURES.get(nm)
        if sig is None and nm.startswith("."):
            sig = _EXTERNAL_SIGNATURES.get(nm)
        if not sig or len(c.args) >= want:
            continue
        moved = False
        while len(c.args) < want and len(c.args) < len(sig):
            nxt = sig[len(c.args)]
            kw = next((k for k in c.keywords if k.arg == nxt), None)
            if kw is None or nxt in (call_kw or {}).get(nm, ()):
                break            # the reference itself spells this parameter as a keyword somewhere: leave every such call alone
            c.args.append(kw.value)
            c.keywords.remove(kw)
            moved = True
        n_done += moved
    return n_done


def drop_default_keywords(tree, defaults, call_kw=None):
    """undo 'spell out the default': `f(x, flag=False)` where False IS the callee's default for `flag` (literal defaults of the
    repository's own callables, by unambiguous name) and the reference never passes that keyword to this callee -> `f(x)`"""
    n = 0
    for c in ast.walk(tree):
        if not isinstance(c, ast.Call) or not c.keywords:
            continue
        nm = _callee_name(c)
        if nm is None:
            continue
        d = defaults.get(nm) or defaults.get(nm.lstrip("."))
        if not d:
            continue
        keep = []
        for k in c.keywords:
            if k.arg is not None and k.arg in d and ast.unparse(k.value) == d[k.arg]:
                n += 1
                continue
            keep.append(k)
        c.keywords = keep
    return n


def _loop_fingerprint(st):
    """shape of a loop body that does not depend on the spelling of names (first-occurrence numbering)"""
    import hashlib
    body = copy.deepcopy(st.body)
    num = {}
    for b in [st.target] + body:
        for n in ast.walk(b):
            if isinstance(n, ast.Name):
                num.setdefault(n.id, f"v{len(num)}")
    txt = []
    for b in body:
        b = copy.deepcopy(b)
        for n in ast.walk(b):
            if isinstance(n, ast.Name):
                n.id = num[n.id]
        txt.append(ast.dump(b))
    return hashlib.sha1("\n".join(txt).encode()).hexdigest()[:12]


def _iter_funcs(tree, prefix=""):
    for ch in ast.iter_child_nodes(tree):
        if isinstance(ch, (ast.FunctionDef, ast.AsyncFunctionDef)):
            yield prefix + ch.name, ch
            yield from _iter_funcs(ch, prefix + ch.name + ".")
        elif isinstance(ch, ast.ClassDef):
            yield from _iter_funcs(ch, prefix + ch.name + ".")
        else:
            yield from _iter_funcs(ch, prefix)


# ---------------------------------------------------------------------------
# helpers


_PURE_DOTTED = {"np.iinfo", "np.finfo", "np.dtype", "numpy.iinfo", "numpy.finfo", "numpy.dtype"}
_PURE_BUILTINS = {"slice", "len", "range", "tuple", "frozenset", "int", "float", "str", "bool", "min", "max", "abs"}


def _dotted_name(e):
    """Enum.MEMBER / module.CONSTANT: a chain of attributes on a name"""
    while isinstance(e, ast.Attribute):
        e = e.value
    return isinstance(e, ast.Name)


def _is_literal(e):
    if isinstance(e, ast.Constant):
        return True
    if isinstance(e, ast.Attribute) and _dotted_name(e):
        return True
    if isinstance(e, ast.UnaryOp) and isinstance(e.op, (ast.USub, ast.UAdd)):
        return _is_literal(e.operand)
    if isinstance(e, (ast.Tuple, ast.List, ast.Set)):
        return all(_is_literal(x) for x in e.elts)
    if isinstance(e, ast.Dict):
        return all(k is not None and _is_literal(k) and _is_literal(v) for k, v in zip(e.keys, e.values))
    if isinstance(e, ast.Call) and isinstance(e.func, ast.Name) and e.func.id == "slice" and not e.keywords \
            and 1 <= len(e.args) <= 3 and all(_is_literal(a) for a in e.args):
        return True
    # an index expression spelled as a value: np.s_[:, :3, 3] / np.index_exp[..] with literal parts
    if isinstance(e, ast.Subscript) and ast.unparse(e.value) in ("np.s_", "numpy.s_", "np.index_exp", "numpy.index_exp"):
        parts = e.slice.elts if isinstance(e.slice, ast.Tuple) else [e.slice]
        return all(isinstance(p_, ast.Slice) and all(x is None or _is_literal(x) for x in (p_.lower, p_.upper, p_.step)) or
                   (not isinstance(p_, ast.Slice) and _is_literal(p_)) for p_ in parts)
    # limits of the NumPy number types and arithmetic on constants: np.iinfo(np.uint8).max + 1
    if isinstance(e, ast.Attribute) and e.attr in ("max", "min", "eps", "bits") and isinstance(e.value, ast.Call) and not e.value.keywords \
            and isinstance(e.value.func, ast.Attribute) and e.value.func.attr in ("iinfo", "finfo") and len(e.value.args) == 1 and _is_literal(e.value.args[0]):
        return True
    if isinstance(e, ast.BinOp) and isinstance(e.op, (ast.Add, ast.Sub, ast.Mult, ast.Pow, ast.FloorDiv)):
        return _is_literal(e.left) and _is_literal(e.right) and not (isinstance(e.left, (ast.Tuple, ast.List)) or isinstance(e.right, (ast.Tuple, ast.List)))
    return False


class _SubstNames(ast.NodeTransformer):
    """replace reads of names by expressions; a nested scope (lambda, comprehension, def) that binds a name of its own hides it"""

    def __init__(self, mapping):
        self.m = mapping

    def visit_Name(self, n):
        if isinstance(n.ctx, ast.Load) and n.id in self.m:
            return copy.deepcopy(self.m[n.id])
        return n

    def _scoped(self, n, bound):
        hidden = {k for k in bound if k in self.m}
        if not hidden:
            return self.generic_visit(n)
        saved = self.m
        self.m = {k: v for k, v in saved.items() if k not in hidden}
        try:
            return self.generic_visit(n)
        finally:
            self.m = saved

    def visit_Lambda(self, n):
        a = n.args
        return self._scoped(n, {x.arg for x in a.posonlyargs + a.args + a.kwonlyargs + ([a.vararg] if a.vararg else []) + ([a.kwarg] if a.kwarg else [])})

    def visit_FunctionDef(self, n):
        a = n.args
        bound = {x.arg for x in a.posonlyargs + a.args + a.kwonlyargs + ([a.vararg] if a.vararg else []) + ([a.kwarg] if a.kwarg else [])}
        bound |= _stores(n.body)
        return self._scoped(n, bound)

    visit_AsyncFunctionDef = visit_FunctionDef

    def _comp(self, n):
        return self._scoped(n, {x.id for g in n.generators for x in ast.walk(g.target) if isinstance(x, ast.Name)})

    visit_ListComp = visit_SetComp = visit_DictComp = visit_GeneratorExp = _comp


def _subst(node, mapping):
    return _SubstNames(mapping).visit(copy.deepcopy(node))


def _stores(nodes):
    """names bound anywhere in the statements, by any construct: stores, imports, defs / classes, handlers, global / nonlocal"""
    out = set()
    for st in nodes:
        for n in ast.walk(st):
            if isinstance(n, ast.Name) and isinstance(n.ctx, (ast.Store, ast.Del)):
                out.add(n.id)
            elif isinstance(n, ast.alias) and n.name != "*":
                out.add((n.asname or n.name).split(".")[0])
            elif isinstance(n, (ast.FunctionDef, ast.AsyncFunctionDef, ast.ClassDef)):
                out.add(n.name)
            elif isinstance(n, ast.ExceptHandler) and n.name:
                out.add(n.name)
            elif isinstance(n, (ast.Global, ast.Nonlocal)):
                out.update(n.names)
            elif type(n).__name__ in ("MatchAs", "MatchStar") and n.name:
                out.add(n.name)
    return out


# ---------------------------------------------------------------------------
# constants


def _scope_binding_counts(body):
    """how often each name is bound in one scope (module or class body), at any nesting of if/for/try/with"""
    counts = {}
    todo = list(body)
    while todo:
        x = todo.pop()
        if isinstance(x, (ast.FunctionDef, ast.AsyncFunctionDef, ast.ClassDef)):
            counts[x.name] = counts.get(x.name, 0) + 1
            continue
        if isinstance(x, ast.Name) and isinstance(x.ctx, (ast.Store, ast.Del)):
            counts[x.id] = counts.get(x.id, 0) + 1
        if isinstance(x, ast.alias):
            nm_ = (x.asname or x.name).split(".")[0]
            counts[nm_] = counts.get(nm_, 0) + 1
        todo.extend(ast.iter_child_nodes(x))
    return counts


def _parents(tree):
    par = {}
    for p_ in ast.walk(tree):
        for ch in ast.iter_child_nodes(p_):
            par[id(ch)] = p_
    return par


def _has_mutable(e):
    return any(isinstance(x, (ast.List, ast.Dict, ast.Set)) for x in ast.walk(e))


def _nested_mutable(e):
    """a mutable container inside the literal (a list of lists): its items could be changed through any read"""
    return any(isinstance(x, (ast.List, ast.Dict, ast.Set)) and x is not e for x in ast.walk(e))


_CONSUMERS = {"len", "tuple", "list", "sorted", "set", "frozenset", "dict", "any", "all", "sum", "min", "max", "str", "repr", "isinstance", "bool"}
_LAZY = {"enumerate", "zip", "reversed", "iter", "map", "filter"}
_READ_METHODS = {"items", "keys", "values", "get", "index", "count", "copy"}


def _read_only_use(node, par):
    """is this read of a list / dict / set constant one that cannot change the object or let it escape: iteration, `in`,
    indexing, len()/tuple()/sorted()/.., .items()/.get()/.., `*table`"""
    p_ = par.get(id(node))
    if isinstance(p_, (ast.For, ast.AsyncFor, ast.comprehension)) and p_.iter is node:
        return True
    if isinstance(p_, ast.Compare) and node in p_.comparators and len(p_.ops) == 1 and isinstance(p_.ops[0], (ast.In, ast.NotIn)):
        return True
    if isinstance(p_, ast.Subscript) and p_.value is node and isinstance(p_.ctx, ast.Load):
        return True
    if isinstance(p_, ast.Starred) and isinstance(p_.ctx, ast.Load):
        return True
    if isinstance(p_, ast.Call) and node in p_.args and isinstance(p_.func, ast.Attribute) and _alias.reads_only(p_) \
            and (_alias.call_kind(p_) == "fresh"):
        return True       # np.isin(x, TABLE), np.array(TABLE): numpy reads its arguments and hands back a new array
    if isinstance(p_, ast.Call) and node in p_.args and isinstance(p_.func, ast.Name):
        if p_.func.id in _CONSUMERS:
            return True
        if p_.func.id in _LAZY:
            return _read_only_use(p_, par) or isinstance(par.get(id(p_)), ast.Call) and isinstance(par[id(p_)].func, ast.Name) \
                and par[id(p_)].func.id in _CONSUMERS
    if isinstance(p_, ast.Attribute) and p_.value is node and p_.attr in _READ_METHODS:
        g = par.get(id(p_))
        if isinstance(g, ast.Call) and g.func is p_:
            return p_.attr in ("get", "index", "count", "copy") or _read_only_use(g, par) or \
                isinstance(par.get(id(g)), ast.Call) and isinstance(par[id(g)].func, ast.Name) and par[id(g)].func.id in _CONSUMERS
    return False


_PKG_TEXTS = {}


def _bound_elsewhere(name, rel):
    """is `name` defined or assigned in another module of the package?  (a subclass there may override a method / class constant
    that is read through `self`)"""
    import os
    import re
    from .core import REPO, SRC
    root = os.path.join(REPO, SRC)
    if root not in _PKG_TEXTS:
        texts = {}
        for d, _, files in os.walk(root):
            for f in files:
                if f.endswith((".py", ".pyx", ".pxd")):
                    pth = os.path.join(d, f)
                    try:
                        texts[os.path.relpath(pth, root)] = open(pth, encoding="utf-8", errors="replace").read()
                    except OSError:
                        pass
        _PKG_TEXTS[root] = texts
    pat = re.compile(r"(\bdef\s+|\bcdef\s+[\w\[\], .*]*?\s|\bcpdef\s+[\w\[\], .*]*?\s|^\s*)" + re.escape(name) + r"\s*(\(|=[^=]|:)", re.M)
    for r_, t in _PKG_TEXTS[root].items():
        if r_ != rel and name in t and pat.search(t):
            return True
    return False


def _overridden_elsewhere(name, clsname, rel):
    """may another module of the package put a different value under `name` for objects of class `clsname`: a class there that
    derives (by the names of its bases, transitively within that module) from `clsname` and binds the name, an attribute store
    `obj.name = ..`, or a module that cannot be parsed (Cython)"""
    import os
    import re
    from .core import REPO, SRC
    if not _bound_elsewhere(name, rel):
        return False
    root = os.path.join(REPO, SRC)
    pat_attr = re.compile(r"\." + re.escape(name) + r"\s*(=[^=]|\+=|-=)")
    for r_, t in _PKG_TEXTS[root].items():
        if r_ == rel or name not in t:
            continue
        if pat_attr.search(t):
            return True
        if not r_.endswith(".py"):
            if re.search(r"^\s*" + re.escape(name) + r"\s*=", t, re.M):
                return True
            continue
        try:
            mod = ast.parse(t)
        except SyntaxError:
            return True
        classes = {c.name: c for c in ast.walk(mod) if isinstance(c, ast.ClassDef)}

        def derives(c, seen=()):
            for b_ in c.bases:
                bn = b_.id if isinstance(b_, ast.Name) else b_.attr if isinstance(b_, ast.Attribute) else None
                if bn == clsname:
                    return True
                if bn in classes and bn not in seen and derives(classes[bn], seen + (bn,)):
                    return True
            return False
        for c in classes.values():
            if _scope_binding_counts(c.body).get(name) and derives(c):
                return True
    return False


def _bound_in_other_class(tree, cnode, name):
    for c in ast.walk(tree):
        if isinstance(c, ast.ClassDef) and c is not cnode and _scope_binding_counts(c.body).get(name):
            return True
    return False


def propagate_new_constants(tree, ref_globals, rel=None):
    consts = {}
    counts = {}
    # names of the reference's own module constants (bound once, to a literal such as `_a = slice(6, 15)`): a new table may list them
    scope_counts = _scope_binding_counts(tree.body)
    stable = {st.targets[0].id for st in tree.body if isinstance(st, ast.Assign) and len(st.targets) == 1 and isinstance(st.targets[0], ast.Name)
              and st.targets[0].id in ref_globals and scope_counts.get(st.targets[0].id) == 1 and _is_literal(st.value)}
    stable -= {nm_ for x in ast.walk(tree) if isinstance(x, ast.Global) for nm_ in x.names}

    def table_of_constants(e):
        return isinstance(e, (ast.Tuple, ast.List)) and e.elts and all(
            _is_literal(x) or isinstance(x, ast.Name) and x.id in stable or table_of_constants(x) for x in e.elts) and isinstance(e, ast.Tuple)
    for st in tree.body:
        if isinstance(st, ast.Assign) and len(st.targets) == 1 and isinstance(st.targets[0], ast.Name):
            nm = st.targets[0].id
            counts[nm] = counts.get(nm, 0) + 1
            if nm not in ref_globals and (_is_literal(st.value) or table_of_constants(st.value)):
                consts[nm] = st.value
    # the binding must be the only one in force: one store of the name in the whole module scope (also inside module-level
    # if/for/try/with, augmented assignments, imports, defs) and no function declares it `global`
    all_counts = _scope_binding_counts(tree.body)
    declared_global = {nm_ for x in ast.walk(tree) if isinstance(x, ast.Global) for nm_ in x.names}
    # a name that is also written as TEXT somewhere in the module (`setattr(obj, "_X", ..)` under another spelling, a namespace
    # dict `{"_X": 0}` handed to a metaclass, `getattr(self, "_X")`) may be bound or read by reflection: it is left alone
    spelled = {x.value for x in ast.walk(tree) if isinstance(x, ast.Constant) and isinstance(x.value, str) and x.value.isidentifier()}
    consts = {k: v for k, v in consts.items() if counts.get(k) == 1 and all_counts.get(k) == 1 and k not in declared_global and k not in spelled}
    par = None
    # a list / dict / set is an object, not a value: it stands for its literal only if every read in the module is one that
    # cannot change it or hand it on (`TABLE.reverse()`, `f(TABLE)`, `x = TABLE` keep the name)
    for k in [k for k, v in consts.items() if _has_mutable(v)]:
        par = par or _parents(tree)
        uses = [x for x in ast.walk(tree) if isinstance(x, ast.Name) and x.id == k and isinstance(x.ctx, ast.Load)]
        if _nested_mutable(consts[k]) or not all(_read_only_use(x, par) for x in uses):
            del consts[k]
    n = 0
    # class-level constants the reference does not have: `_TABLE = {..}` in a class body, read as Cls._TABLE / Outer.Cls._TABLE /
    # self._TABLE / cls._TABLE (one binding in the class body, never assigned through an attribute anywhere in the module)
    attr_stores = {x.attr for x in ast.walk(tree) if isinstance(x, ast.Attribute) and isinstance(x.ctx, (ast.Store, ast.Del))}
    attr_stores |= {x.args[1].value for x in ast.walk(tree) if isinstance(x, ast.Call) and isinstance(x.func, ast.Name) and x.func.id in ("setattr", "delattr")
                    and len(x.args) >= 2 and isinstance(x.args[1], ast.Constant) and isinstance(x.args[1].value, str)}
    dynamic_setattr = any(isinstance(x, ast.Call) and isinstance(x.func, ast.Name) and x.func.id in ("setattr", "delattr") and len(x.args) >= 2
                          and not isinstance(x.args[1], ast.Constant) for x in ast.walk(tree))
    for cnode in [c for c in ast.walk(tree) if isinstance(c, ast.ClassDef)]:
        counts_c = _scope_binding_counts(cnode.body)
        cc = {st.targets[0].id: st.value for st in cnode.body if isinstance(st, ast.Assign) and len(st.targets) == 1
              and isinstance(st.targets[0], ast.Name) and _is_literal(st.value) and st.targets[0].id.startswith("_")
              and counts_c.get(st.targets[0].id) == 1 and st.targets[0].id not in attr_stores and not dynamic_setattr
              and f"{cnode.name}.{st.targets[0].id}" not in ref_globals and st.targets[0].id not in ref_globals
              and st.targets[0].id not in spelled}
        if not cc:
            continue
        # `self._X` / `cls._X` is looked up in the class of the object: a subclass (here or in another module) that binds the
        # name as well would win
        overridable = {k for k in cc if _bound_in_other_class(tree, cnode, k) or (rel is not None and _overridden_elsewhere(k, cnode.name, rel))}
        par = par or _parents(tree)
        for k in [k for k, v in cc.items() if _has_mutable(v)]:
            uses = [x for x in ast.walk(tree) if isinstance(x, ast.Attribute) and x.attr == k and isinstance(x.ctx, ast.Load)]
            if _nested_mutable(cc[k]) or not all(_read_only_use(x, par) for x in uses):
                del cc[k]
        # inside the class body the name is read bare (`_B = _A + 1`): left alone, such a reader is not a literal anyway

        class R(ast.NodeTransformer):
            def visit_Attribute(self, a):
                self.generic_visit(a)
                if isinstance(a.ctx, ast.Load) and a.attr in cc:
                    base = a.value
                    owner = base.attr if isinstance(base, ast.Attribute) else base.id if isinstance(base, ast.Name) else None
                    if owner == cnode.name or owner in ("self", "cls") and a.attr not in overridable:
                        nonlocal n
                        n += 1
                        return copy.deepcopy(cc[a.attr])
                return a
        # only methods of the class itself read `self._X` with that meaning
        for m_ in cnode.body:
            R().visit(m_)

        class R2(ast.NodeTransformer):
            def visit_Attribute(self, a):
                self.generic_visit(a)
                owner = a.value.attr if isinstance(a.value, ast.Attribute) else a.value.id if isinstance(a.value, ast.Name) else None
                if isinstance(a.ctx, ast.Load) and a.attr in cc and owner == cnode.name:
                    nonlocal n
                    n += 1
                    return copy.deepcopy(cc[a.attr])
                return a
        for st in tree.body:
            if st is not cnode:
                R2().visit(st)
    if not consts:
        return n
    for q, fn in _iter_funcs(tree):
        shadow = _stores(fn.body) | {a.arg for a in fn.args.args + fn.args.kwonlyargs + fn.args.posonlyargs}
        use = {k: v for k, v in consts.items() if k not in shadow}
        if not use:
            continue
        if any(isinstance(x, ast.Name) and x.id in use for x in ast.walk(fn)):
            new_body = [_subst(st, use) for st in fn.body]
            fn.body[:] = new_body
            n += 1
    return n


# ---------------------------------------------------------------------------
# getattr


_REDUCE_OPERATORS = {"operator.or_": ast.BitOr, "operator.and_": ast.BitAnd, "operator.xor": ast.BitXor, "operator.add": ast.Add,
                     "operator.mul": ast.Mult, "operator.__or__": ast.BitOr, "operator.__and__": ast.BitAnd}


def _literal_into_reduce(tree):
    """`xs = [a, b]` .. `reduce(op, xs)` with xs bound once and read once (there): the literal takes the place of the name, when
    only simple statements without calls stand between the two (nothing can change what the items mean)"""
    n = 0
    for q, fn in _iter_funcs(tree):
        body = fn.body
        for i, st in enumerate(body):
            if not (isinstance(st, ast.Assign) and len(st.targets) == 1 and isinstance(st.targets[0], ast.Name)
                    and isinstance(st.value, (ast.List, ast.Tuple)) and st.value.elts):
                continue
            nm = st.targets[0].id
            uses = [x for x in ast.walk(fn) if isinstance(x, ast.Name) and x.id == nm]
            if len(uses) != 2:
                continue
            for j in range(i + 1, len(body)):
                nxt = body[j]
                hit = [c for c in ast.walk(nxt) if isinstance(c, ast.Call) and ast.unparse(c.func) in ("functools.reduce", "reduce") and len(c.args) == 2
                       and isinstance(c.args[1], ast.Name) and c.args[1].id == nm and ast.unparse(c.args[0]) in _REDUCE_OPERATORS]
                if hit:
                    if isinstance(nxt, (ast.Assign, ast.Return, ast.Expr)) and sum(isinstance(c, ast.Call) for c in ast.walk(nxt)) == 1:
                        hit[0].args[1] = st.value
                        del body[i]
                        n += 1
                    break
                if not isinstance(nxt, ast.Assign) or any(isinstance(c, (ast.Call, ast.Await, ast.NamedExpr)) for c in ast.walk(nxt)):
                    break
            if n:
                break
    return n


class _Getattr(ast.NodeTransformer):
    def visit_JoinedStr(self, n):
        """f"Get{'ResidueName'}" (what is left of f"Get{field}" once the table loop is written out) -> "GetResidueName" """
        self.generic_visit(n)
        if not any(isinstance(v, ast.FormattedValue) for v in n.values):
            return n                     # an f-string without fields stays what it is
        parts = []
        for v in n.values:
            if isinstance(v, ast.Constant) and isinstance(v.value, str):
                parts.append(v.value)
            elif isinstance(v, ast.FormattedValue) and v.conversion == -1 and v.format_spec is None \
                    and isinstance(v.value, ast.Constant) and isinstance(v.value.value, str):
                parts.append(v.value.value)
            else:
                return n
        return ast.copy_location(ast.Constant("".join(parts)), n)

    def visit_Subscript(self, n):
        self.generic_visit(n)
        def conv(c):
            # slice(a, b) -> a:b
            if isinstance(c, ast.Call) and isinstance(c.func, ast.Name) and c.func.id == "slice" and not c.keywords and 1 <= len(c.args) <= 3:
                a = list(c.args)
                none = lambda e: None if (isinstance(e, ast.Constant) and e.value is None) else e
                if len(a) == 1:
                    return ast.Slice(lower=None, upper=none(a[0]), step=None)
                if len(a) == 2:
                    return ast.Slice(lower=none(a[0]), upper=none(a[1]), step=None)
                return ast.Slice(lower=none(a[0]), upper=none(a[1]), step=none(a[2]))
            return c

        # x[np.s_[a, b:c]] -> x[a, b:c] (np.s_ / np.index_exp hand back their index as it is)
        if isinstance(n.slice, ast.Subscript) and ast.unparse(n.slice.value) in ("np.s_", "numpy.s_", "np.index_exp", "numpy.index_exp") \
                and ast.unparse(n.value) not in ("np.s_", "numpy.s_", "np.index_exp", "numpy.index_exp"):
            n.slice = n.slice.slice
        if isinstance(n.slice, ast.Tuple):
            n.slice.elts = [conv(x) for x in n.slice.elts]
        else:
            n.slice = conv(n.slice)
        return n

    def visit_Call(self, n):
        self.generic_visit(n)
        if isinstance(n.func, ast.Name) and n.func.id == "getattr" and len(n.args) == 2 and not n.keywords \
                and isinstance(n.args[1], ast.Constant) and isinstance(n.args[1].value, str) and n.args[1].value.isidentifier():
            return ast.copy_location(ast.Attribute(value=n.args[0], attr=n.args[1].value, ctx=ast.Load()), n)
        # atoms.get_annotation("chain_id") is atoms.chain_id (atoms.py: __getattr__ looks the name up in the same dictionary)
        if isinstance(n.func, ast.Attribute) and n.func.attr == "get_annotation" and len(n.args) == 1 and not n.keywords \
                and isinstance(n.args[0], ast.Constant) and isinstance(n.args[0].value, str) and n.args[0].value.isidentifier():
            return ast.copy_location(ast.Attribute(value=n.func.value, attr=n.args[0].value, ctx=ast.Load()), n)
        # max((a, b, c)) -> max(a, b, c)   (one literal collection of at least two items: the same comparison sequence)
        if isinstance(n.func, ast.Name) and n.func.id in ("max", "min") and len(n.args) == 1 and not n.keywords \
                and isinstance(n.args[0], (ast.Tuple, ast.List)) and len(n.args[0].elts) >= 2 \
                and not any(isinstance(x, ast.Starred) for x in n.args[0].elts):
            n.args = list(n.args[0].elts)
        # f(*(a, b)) -> f(a, b);  f(**{"k": v}) -> f(k=v)      (literal collections only)
        if any(isinstance(a, ast.Starred) and isinstance(a.value, (ast.Tuple, ast.List)) for a in n.args):
            new_args = []
            for a in n.args:
                if isinstance(a, ast.Starred) and isinstance(a.value, (ast.Tuple, ast.List)) and not any(isinstance(x, ast.Starred) for x in a.value.elts):
                    new_args.extend(a.value.elts)
                else:
                    new_args.append(a)
            n.args = new_args
        if any(k.arg is None and isinstance(k.value, ast.Dict) for k in n.keywords):
            new_kw = []
            for k in n.keywords:
                if k.arg is None and isinstance(k.value, ast.Dict) and all(isinstance(x, ast.Constant) and isinstance(x.value, str) and x.value.isidentifier()
                                                                          for x in k.value.keys):
                    new_kw.extend(ast.keyword(arg=x.value, value=v) for x, v in zip(k.value.keys, k.value.values))
                else:
                    new_kw.append(k)
            n.keywords = new_kw
        # functools.reduce(operator.or_, [a, b, c]) -> a | b | c   (a literal collection of at least one item, no start value: the same
        # left fold, the same operator calls in the same order)
        if ast.unparse(n.func) in ("functools.reduce", "reduce") and len(n.args) == 2 and not n.keywords \
                and ast.unparse(n.args[0]) in _REDUCE_OPERATORS and isinstance(n.args[1], (ast.Tuple, ast.List)) and n.args[1].elts \
                and not any(isinstance(x, ast.Starred) for x in n.args[1].elts):
            acc = n.args[1].elts[0]
            for x in n.args[1].elts[1:]:
                acc = ast.BinOp(left=acc, op=_REDUCE_OPERATORS[ast.unparse(n.args[0])](), right=x)
            return ast.copy_location(acc, n)
        # "lit{}lit".format(x, ..) with automatic fields only -> f"lit{x}lit"
        if isinstance(n.func, ast.Attribute) and n.func.attr == "format" and isinstance(n.func.value, ast.Constant) and isinstance(n.func.value.value, str) \
                and not n.keywords and not any(isinstance(a, ast.Starred) for a in n.args):
            import string
            try:
                pieces = list(string.Formatter().parse(n.func.value.value))
            except ValueError:
                pieces = None
            if pieces is not None and all(fld in (None, "") and not spec_ and conv is None for _, fld, spec_, conv in pieces) \
                    and sum(1 for _, fld, _, _ in pieces if fld == "") == len(n.args):
                vals, k = [], 0
                for lit, fld, _, _ in pieces:
                    if lit:
                        vals.append(ast.Constant(lit))
                    if fld == "":
                        vals.append(ast.FormattedValue(value=n.args[k], conversion=-1, format_spec=None))
                        k += 1
                return ast.copy_location(ast.JoinedStr(values=vals), n)
        return n


# ---------------------------------------------------------------------------
# loops


def _literal_iter(st):
    """list of (target substitution dicts) for a For over a literal sequence, else None"""
    it = st.iter
    items = None
    if isinstance(it, (ast.Tuple, ast.List)):
        items = list(it.elts)
    elif isinstance(it, ast.Call) and isinstance(it.func, ast.Name) and it.func.id == "enumerate" and 1 <= len(it.args) <= 2 \
            and isinstance(it.args[0], (ast.Tuple, ast.List)) and all(k.arg == "start" for k in it.keywords) \
            and len(it.args) + len(it.keywords) <= 2:
        start = it.args[1] if len(it.args) == 2 else (it.keywords[0].value if it.keywords else ast.Constant(0))
        if not (isinstance(start, ast.Constant) and isinstance(start.value, int) and not isinstance(start.value, bool)):
            return None
        items = [ast.Tuple(elts=[ast.Constant(k + start.value), e], ctx=ast.Load()) for k, e in enumerate(it.args[0].elts)]
    elif isinstance(it, ast.Call) and isinstance(it.func, ast.Attribute) and it.func.attr == "items" and isinstance(it.func.value, ast.Dict) \
            and all(k is not None for k in it.func.value.keys):
        # a dict has one entry per key: the keys of the display must be literals that are pairwise different (1 == 1.0 == True)
        try:
            kv = [ast.literal_eval(k) for k in it.func.value.keys]
            if len(set(kv)) != len(kv):
                return None
        except Exception:
            if len({ast.dump(k) for k in it.func.value.keys}) != len(it.func.value.keys) or not all(
                    isinstance(k, (ast.Name, ast.Attribute)) for k in it.func.value.keys):
                return None
        items = [ast.Tuple(elts=[k, v], ctx=ast.Load()) for k, v in zip(it.func.value.keys, it.func.value.values)]
    if items is None or len(items) > MAX_UNROLL or any(isinstance(x, ast.Starred) for x in items):
        return None
    # the items are written into the body by name: one that is not used there would vanish with its side effect, one used twice
    # would be evaluated twice - they must be free of calls (constants, names, attributes, subscripts, arithmetic, slice(..))
    if not all(_is_literal(x) or _effect_free_argument(x) for x in items):
        return None
    subs = []
    for item in items:
        m = {}

        def bind(t, v):
            if isinstance(t, ast.Name):
                m[t.id] = v
                return True
            if isinstance(t, (ast.Tuple, ast.List)) and isinstance(v, (ast.Tuple, ast.List)) and len(t.elts) == len(v.elts):
                return all(bind(a, b) for a, b in zip(t.elts, v.elts))
            return False

        if not bind(st.target, item):
            return None
        subs.append(m)
    return subs


def _dissolve_continue(body):
    """`if c: continue` guard clauses at the top level of a loop body -> `if not c: <rest>` (same behaviour, no jump)"""
    from .facts import negate
    for k, st in enumerate(body):
        if isinstance(st, ast.If) and not st.orelse and len(st.body) == 1 and isinstance(st.body[0], ast.Continue):
            rest = _dissolve_continue(body[k + 1:])
            new_if = ast.If(test=negate(copy.deepcopy(st.test)), body=rest or [ast.Pass()], orelse=[])
            ast.copy_location(new_if, st)
            return body[:k] + [new_if]
    return body


def _bound_by_other_loop(fn, x, st):
    """is the occurrence `x` of a name governed by another loop / comprehension (not containing `st`) that binds the name itself"""
    for lp in ast.walk(fn):
        if lp is st:
            continue
        if isinstance(lp, (ast.For, ast.AsyncFor)):
            tn = {t.id for t in ast.walk(lp.target) if isinstance(t, ast.Name)}
            if x.id in tn and not any(y is st for y in ast.walk(lp)) and \
                    any(y is x for part in [lp.target] + lp.body for y in ast.walk(part)):
                return True
        elif isinstance(lp, (ast.ListComp, ast.SetComp, ast.DictComp, ast.GeneratorExp)):
            tn = {t.id for g in lp.generators for t in ast.walk(g.target) if isinstance(t, ast.Name)}
            if x.id in tn and any(y is x for y in ast.walk(lp)) and not any(y is x for y in ast.walk(lp.generators[0].iter)):
                return True
    return False


def _is_guard_break(b):
    return isinstance(b, ast.If) and not b.orelse and len(b.body) == 1 and isinstance(b.body[0], ast.Break)


def _nest_after_breaks(body, tail):
    """the statements of one iteration followed by the later iterations (`tail`), with every `if c: break` guard clause turned into
    `if not c: <everything that would have followed>`"""
    from .facts import negate
    for i, b in enumerate(body):
        if _is_guard_break(b):
            inner = _nest_after_breaks(body[i + 1:], tail)
            new_if = ast.If(test=negate(copy.deepcopy(b.test)), body=inner or [ast.Pass()], orelse=[])
            ast.copy_location(new_if, b)
            ast.fix_missing_locations(new_if)
            return body[:i] + [new_if]
    return body + tail


def _unrollable(st, fn=None):
    if st.orelse:
        return False
    tn_ = {n.id for n in ast.walk(st.target) if isinstance(n, ast.Name)}
    # late binding: a lambda / nested function in the body reads the target when it is called, not when it is made
    for n in ast.walk(st):
        if isinstance(n, (ast.Lambda, ast.FunctionDef, ast.AsyncFunctionDef)) and any(isinstance(x, ast.Name) and x.id in tn_ for x in ast.walk(n)):
            return False
    if fn is not None:
        # the target is a variable of the function: after the loop it holds the last item (and it hides a parameter of the
        # same name) - every other occurrence must belong to another loop that binds the name again
        inside = {id(x) for x in ast.walk(st)}
        for x in ast.walk(fn):
            if isinstance(x, ast.Name) and x.id in tn_ and id(x) not in inside and not isinstance(x.ctx, ast.Store) \
                    and not _bound_by_other_loop(fn, x, st):
                return False         # a read outside the loop may see the last item (a plain store elsewhere binds it anew)
            if isinstance(x, (ast.Global, ast.Nonlocal)) and tn_ & set(x.names):
                return False
    st.body = _dissolve_continue(st.body) if any(isinstance(n, ast.Continue) for n in ast.walk(st)) and _literal_iter(st) is not None else st.body
    # `if c: break` guard clauses at the top level of the body are written out by nesting the later iterations under `not c`
    guard_breaks = {id(b.body[0]) for b in st.body if _is_guard_break(b)}
    for n in ast.walk(st):
        if isinstance(n, (ast.Break, ast.Continue)) and id(n) not in guard_breaks:
            return False
    tnames = {n.id for n in ast.walk(st.target) if isinstance(n, ast.Name)}
    if tnames & _stores(st.body):
        return False
    # the items are evaluated once, before the first iteration: the body must not change what they are built from
    operands = {n.id for n in ast.walk(st.iter) if isinstance(n, ast.Name)} - {"enumerate"}
    if operands and (operands & _stores(st.body) or any(_writes_through(b, operands) for b in st.body)):
        return False
    return True


def unroll_new_literal_loops(tree, ref_loops):
    n = 0
    for q, fn in _iter_funcs(tree):
        def _key(t):
            return t.strip("[]()")      # a list and a tuple with the same items are the same table

        known = [_key(t.split(" ## ")[0]) for t in ref_loops.get(q, [])]
        # the loops the rules know must all be there unchanged (iterable and body shape); if one of them was edited, or another
        # loop over the same table was added, nothing in this function is unrolled: the rules then see the loops as written
        want = sorted(_key(t.split(" ## ")[0]) + " ## " + t.split(" ## ")[1] for t in ref_loops.get(q, []) if " ## " in t)
        have = sorted(_key(ast.unparse(x.iter)) + " ## " + _loop_fingerprint(x) for x in ast.walk(fn)
                      if isinstance(x, ast.For) and _literal_iter(x) is not None and _key(ast.unparse(x.iter)) in known)
        if want and want != have:
            continue

        def rewrite(block):
            nonlocal n
            out = []
            for st in block:
                for fld in ("body", "orelse", "finalbody"):
                    if hasattr(st, fld) and isinstance(getattr(st, fld), list) and not isinstance(st, (ast.FunctionDef, ast.AsyncFunctionDef, ast.ClassDef)):
                        setattr(st, fld, rewrite(getattr(st, fld)))
                if isinstance(st, ast.Try):
                    for h in st.handlers:
                        h.body = rewrite(h.body)
                if isinstance(st, ast.For):
                    subs = _literal_iter(st)
                    txt = _key(ast.unparse(st.iter))
                    if subs is not None and txt in known:
                        known.remove(txt)      # a loop the rules know: keep it as it is
                    elif subs is not None and _unrollable(st, fn):
                        if True:
                            # names that live inside one iteration only (bound in the body, not read or bound outside the loop) get a
                            # name of their own per iteration: each copy is then a single assignment again
                            inner = _stores(st.body)
                            outside = {x.id for x in ast.walk(fn) if isinstance(x, ast.Name) and not any(x is y for y in ast.walk(st))}
                            local = sorted(inner - outside)
                            taken_ = {x.id for x in ast.walk(fn) if isinstance(x, ast.Name)} | {x.arg for x in ast.walk(fn) if isinstance(x, ast.arg)}
                            sfx = ""
                            while any(f"{nm_}{sfx}_{k_}" in taken_ for nm_ in local for k_ in range(len(subs))):
                                sfx += "_"          # the invented names must be new in the function
                            iterations = []
                            for k_it, m in enumerate(subs):
                                ren = {nm_: f"{nm_}{sfx}_{k_it}" for nm_ in local} if len(subs) > 1 else {}
                                one = []
                                for b in st.body:
                                    nb = _subst(b, m)
                                    if ren:
                                        nb = _rename(nb, ren)
                                    one.append(ast.copy_location(nb, b))
                                iterations.append(one)
                            tail = []
                            for one in reversed(iterations):
                                tail = _nest_after_breaks(one, tail)
                            out.extend(tail)
                            n += 1
                            continue
                out.append(st)
            return out

        fn.body[:] = rewrite(fn.body)
    return n


# ---------------------------------------------------------------------------
# helper inlining


def _simple_params(fn):
    a = fn.args
    if a.vararg or a.kwarg or a.kwonlyargs or a.posonlyargs:
        return None
    return [x.arg for x in a.args]


def _bind_call(fn, call, skip_self):
    ps = _simple_params(fn)
    if ps is None:
        return None
    if skip_self:
        ps = ps[1:]
    defaults = fn.args.defaults
    dmap = dict(zip(ps[len(ps) - len(defaults):], defaults)) if defaults else {}
    if any(isinstance(a, ast.Starred) for a in call.args) or any(k.arg is None for k in call.keywords):
        return None
    if len(call.args) > len(ps):
        return None
    m = dict(zip(ps, call.args))
    for k in call.keywords:
        if k.arg not in ps or k.arg in m:
            return None
        m[k.arg] = k.value
    for p in ps:
        if p not in m:
            if p in dmap and _immutable_literal(dmap[p]):
                m[p] = dmap[p]          # (a default is evaluated once, where the def stands: only a literal means the same at the call)
            else:
                return None
    # names bound in inner scopes of the helper (comprehension variables, lambda parameters) would capture the same name in an argument
    inner = {t.id for x in ast.walk(fn) if isinstance(x, ast.comprehension) for t in ast.walk(x.target) if isinstance(t, ast.Name)}
    inner |= {a.arg for x in ast.walk(fn) if isinstance(x, ast.Lambda) for a in ast.walk(x.args) if isinstance(a, ast.arg)}
    if inner and any(isinstance(x, ast.Name) and x.id in inner for a in m.values() for x in ast.walk(a)):
        return None
    return m


def _immutable_literal(e):
    if isinstance(e, ast.Constant):
        return True
    if isinstance(e, ast.UnaryOp) and isinstance(e.op, (ast.USub, ast.UAdd)) and isinstance(e.operand, ast.Constant):
        return True
    if isinstance(e, ast.Tuple):
        return all(_immutable_literal(x) for x in e.elts)
    return _alias.named_constant(e)


def _rename(node, mapping):
    for n in ast.walk(node):
        if isinstance(n, ast.Name) and n.id in mapping:
            n.id = mapping[n.id]
    return node


def _is_doc(st):
    return isinstance(st, ast.Expr) and isinstance(st.value, ast.Constant) and isinstance(st.value.value, str)


_EFFECT_STMTS = (ast.Raise, ast.Delete, ast.With, ast.Try, ast.For, ast.While, ast.AugAssign, ast.Assert)


def _helper_kind(fn):
    """'expr' (no side-effect statements: can be replaced by its summarised result expression), 'stmts' (straight-line
    statements with at most one trailing return: inlined as statements), or None"""
    body = [st for st in fn.body if not _is_doc(st)]
    if not body:
        return None
    for n in ast.walk(fn):
        if isinstance(n, (ast.Yield, ast.YieldFrom, ast.Await, ast.Global, ast.Nonlocal)) or \
                (isinstance(n, (ast.FunctionDef, ast.Lambda, ast.ClassDef)) and n is not fn):
            return None
    pure = True
    for n in ast.walk(fn):
        if isinstance(n, _EFFECT_STMTS):
            pure = False
        elif isinstance(n, ast.Expr) and not _is_doc(n):
            pure = False
        elif isinstance(n, ast.Assign) and any(not isinstance(t, (ast.Name, ast.Tuple)) for t in n.targets):
            pure = False
    rets = [n for n in ast.walk(fn) if isinstance(n, ast.Return)]
    if pure and rets:
        return "expr"
    if all(r is body[-1] for r in rets):
        return "stmts"
    # early returns mixed with refusing guards: a guarded expression (summarised: guards + one result expression)
    only_guards = True
    for n in ast.walk(fn):
        if isinstance(n, _EFFECT_STMTS) and not isinstance(n, ast.Raise):
            only_guards = False
        elif isinstance(n, ast.Expr) and not _is_doc(n):
            only_guards = False
        elif isinstance(n, ast.Assign) and any(not isinstance(t, (ast.Name, ast.Tuple)) for t in n.targets):
            only_guards = False
    if only_guards and rets:
        return "guarded"
    return None


def _all_bound_names(fn):
    """every name bound anywhere inside a function (its own scope and nested scopes): parameters, stores, defs, imports"""
    out = set()
    for x in ast.walk(fn):
        if isinstance(x, ast.Name) and isinstance(x.ctx, (ast.Store, ast.Del)):
            out.add(x.id)
        elif isinstance(x, ast.arg):
            out.add(x.arg)
        elif isinstance(x, (ast.FunctionDef, ast.AsyncFunctionDef, ast.ClassDef)) and x is not fn:
            out.add(x.name)
        elif isinstance(x, ast.alias):
            out.add((x.asname or x.name).split(".")[0])
        elif isinstance(x, (ast.Global, ast.Nonlocal)):
            out.update(x.names)
        elif isinstance(x, ast.ExceptHandler) and x.name:
            out.add(x.name)
    return out


def _effect_free_argument(e):
    """an argument whose evaluation cannot change anything or depend on when it happens relative to calls: no call inside"""
    return not any(isinstance(x, (ast.Call, ast.Await, ast.NamedExpr, ast.Yield, ast.YieldFrom, ast.Lambda, ast.ListComp, ast.SetComp,
                                  ast.DictComp, ast.GeneratorExp)) for x in ast.walk(e))


def _unconditional_reads(expr, name):
    """(number of reads of `name` in expr, are all of them evaluated unconditionally exactly once)"""
    count = [0]
    ok = [True]

    def walk(x, cond):
        if isinstance(x, ast.Name) and x.id == name:
            count[0] += 1
            if cond:
                ok[0] = False
            return
        if isinstance(x, ast.IfExp):
            walk(x.test, cond)
            walk(x.body, True)
            walk(x.orelse, True)
            return
        if isinstance(x, ast.BoolOp):
            walk(x.values[0], cond)
            for v in x.values[1:]:
                walk(v, True)
            return
        if isinstance(x, (ast.Lambda, ast.ListComp, ast.SetComp, ast.DictComp, ast.GeneratorExp)):
            for ch in ast.iter_child_nodes(x):
                walk(ch, True)
            return
        for ch in ast.iter_child_nodes(x):
            walk(ch, cond)
    walk(expr, False)
    return count[0], ok[0]


def _by_name_safe(body, light, m, caller_groups):
    """May the call-free argument expressions bound to the parameters `light` be evaluated where the parameters are read,
    instead of once before the body?  `a.b`, `x[i]` name (a part of) an object; reading them later gives the same thing unless
    something before the read may have changed the object they are taken from: a store into it, a call that is not known to be
    read-only and receives it - through the parameter itself (for `x[i]`, which may be a copy) or through another parameter
    whose argument may be the same object (`m`: parameter -> argument, `caller_groups`: alias classes of the calling function)."""
    def names_of(e):
        return {x.id for x in ast.walk(e) if isinstance(x, ast.Name)}

    def one(p_):
        arg = m[p_]
        origin = _alias.closure_of(names_of(arg), caller_groups)
        w = {q for q, a in m.items() if q != p_ and names_of(a) & origin}
        if any(isinstance(x, ast.Subscript) for x in ast.walk(arg)):
            w.add(p_)
        base_ = arg
        while isinstance(base_, (ast.Attribute, ast.Subscript)):
            base_ = base_.value
        if not isinstance(base_, ast.Name):
            # an operator expression / display / comparison makes a NEW object at every read: the body must not change the parameter's
            # object (the change would hit a throw-away copy) nor compare it by identity
            if _writes_through(ast.Module(body=list(body), type_ignores=[]), {p_}):
                return False

        def reads(node):
            return any(isinstance(x, ast.Name) and x.id == p_ and isinstance(x.ctx, ast.Load) for x in ast.walk(node))

        def simple_ok(st):
            # a call that may write evaluates its arguments first: reads among them are safe, reads elsewhere in the statement are not
            for x in ast.walk(st):
                if isinstance(x, ast.Call) and _writes_through(ast.Expr(value=x), w):
                    inside = {id(y) for a in list(x.args) + [k.value for k in x.keywords] for y in ast.walk(a)}
                    if any(isinstance(y, ast.Name) and y.id == p_ and isinstance(y.ctx, ast.Load) and id(y) not in inside for y in ast.walk(st)):
                        return False
            if isinstance(st, (ast.Assign, ast.AugAssign, ast.AnnAssign)):
                tg = st.targets if isinstance(st, ast.Assign) else [st.target]
                if any(reads(t) for t in tg) and st.value is not None and _writes_through(ast.Expr(value=st.value), w):
                    return False
            return True

        def walk(block, dirty):
            for st in block:
                if isinstance(st, (ast.FunctionDef, ast.AsyncFunctionDef, ast.ClassDef)):
                    if reads(st):
                        return None
                    continue
                if isinstance(st, ast.If):
                    if reads(st.test) and (dirty or not simple_ok(ast.Expr(value=st.test))):
                        return None
                    d0 = dirty or _writes_through(ast.Expr(value=st.test), w)
                    d1, d2 = walk(st.body, d0), walk(st.orelse, d0)
                    if d1 is None or d2 is None:
                        return None
                    dirty = d1 or d2
                    continue
                if isinstance(st, (ast.For, ast.AsyncFor, ast.While, ast.Try, ast.With, ast.AsyncWith, ast.Match)):
                    if reads(st) and (dirty or _writes_through(st, w)):
                        return None
                    dirty = dirty or _writes_through(st, w)
                    continue
                if reads(st) and (dirty or not simple_ok(st)):
                    return None
                dirty = dirty or _writes_through(st, w)
            return dirty
        return walk(body, False) is not None
    return all(one(p_) for p_ in light)


def _by_value_ok(fn, expr_parts, m, groups=None):
    """may the arguments of this call be written into the helper's expression(s) in place of the parameters?  Python evaluates
    each argument once, in order, before the body.  Arguments without calls can be copied freely; an argument that contains
    a call must be the only such argument and must be read exactly once, unconditionally."""
    heavy = [p_ for p_, a in m.items() if not _effect_free_argument(a)]
    light = {p_ for p_, a in m.items() if _effect_free_argument(a) and not isinstance(a, (ast.Name, ast.Constant))}
    if light and not _by_name_safe([b for b in fn.body if not _is_doc(b)], light, m, groups() if groups else {}):
        return False
    if not heavy:
        return True
    if len(heavy) > 1 or len(expr_parts) != 1:
        return False
    cnt, uncond = _unconditional_reads(expr_parts[0], heavy[0])
    return cnt == 1 and uncond


def inline_new_helpers(tree, ref_funcs, rel=None):
    from .exprnorm import summarize   # late import: exprnorm imports core

    all_funcs = dict(_iter_funcs(tree))
    skip = set(getattr(tree, "_outside_subset", ()))      # functions with constructs the engine does not read (subset.py): not undone
    new = {q: fn for q, fn in all_funcs.items() if q not in ref_funcs and q.split(".")[-1].startswith("_")
           and not q.split(".")[-1].startswith("__") and q.count(".") <= 1 and isinstance(fn, ast.FunctionDef) and q not in skip}
    # local helper functions: a def directly in the body of a function (a closure over the function's locals) that the reference
    # does not have.  It can be undone when the name is bound exactly once in that function (the def, made unconditionally) and
    # every mention of the name is a call of it - then each call runs this body, reading the enclosing locals as they are at
    # the time of the call, which is what the inlined statements do
    nested = {}
    for q, fn in all_funcs.items():
        if q in ref_funcs or "." not in q:
            continue
        pq = q.rsplit(".", 1)[0]
        parent = all_funcs.get(pq)
        if parent is None or pq in nested or fn.decorator_list or not isinstance(fn, ast.FunctionDef) or q.split(".")[0] in skip \
                or ".".join(q.split(".")[:2]) in skip:
            continue
        # the block of the enclosing function that holds the def (its body, or the body of an if / with / loop inside it)
        holder = None
        for blk_owner in ast.walk(parent):
            if isinstance(blk_owner, (ast.FunctionDef, ast.AsyncFunctionDef, ast.ClassDef)) and blk_owner is not parent:
                continue
            for fld in ("body", "orelse", "finalbody"):
                blk = getattr(blk_owner, fld, None)
                if isinstance(blk, list) and any(x is fn for x in blk):
                    holder = blk
        if holder is None:
            continue
        if sum(1 for x in ast.walk(parent) if isinstance(x, (ast.FunctionDef, ast.AsyncFunctionDef, ast.ClassDef)) and x is not parent and x.name == fn.name) != 1:
            continue
        bound_other = any(isinstance(x, ast.Name) and x.id == fn.name and isinstance(x.ctx, (ast.Store, ast.Del)) for x in ast.walk(parent)) or \
            any(isinstance(x, ast.arg) and x.arg == fn.name for x in ast.walk(parent)) or \
            any(isinstance(x, (ast.Global, ast.Nonlocal)) and fn.name in x.names for x in ast.walk(parent))
        if bound_other:
            continue
        called = {id(c.func) for c in ast.walk(parent) if isinstance(c, ast.Call) and isinstance(c.func, ast.Name) and c.func.id == fn.name}
        if any(isinstance(x, ast.Name) and x.id == fn.name and id(x) not in called for x in ast.walk(parent)):
            continue        # the function object escapes (passed on, stored): not only called here
        if any(isinstance(x, ast.Name) and x.id == fn.name for x in ast.walk(fn)):
            continue        # recursive
        # the calls must come after the def in the same body (the name is unbound before)
        k_def = next(i for i, x in enumerate(holder) if x is fn)
        after = {id(x) for st in holder[k_def + 1:] for x in ast.walk(st)}
        if any(isinstance(x, ast.Name) and x.id == fn.name and id(x) not in after for x in ast.walk(parent) if not any(x is y for y in ast.walk(fn))):
            continue        # a mention outside the statements that follow the def in its block: the name may be unbound there
        nested[q] = fn
    if not new and not nested:
        return 0
    # the definition in force must be known: exactly one binding of the name in its scope, made unconditionally
    mod_counts = _scope_binding_counts(tree.body)
    declared_global = {nm_ for x in ast.walk(tree) if isinstance(x, ast.Global) for nm_ in x.names}

    def unique_def(q, fn):
        if "." not in q:
            return any(x is fn for x in tree.body) and mod_counts.get(fn.name) == 1 and fn.name not in declared_global
        cls = next((c for c in tree.body if isinstance(c, ast.ClassDef) and c.name == q.split(".")[0]), None)
        if not (cls is not None and any(x is fn for x in cls.body) and _scope_binding_counts(cls.body).get(fn.name) == 1
                and mod_counts.get(cls.name) == 1):
            return False
        # `self._h()` is looked up in the class of the object: another class that binds the name (a subclass overriding it,
        # here or in another module), or an assignment `obj._h = ..`, may put a different function there
        if _bound_in_other_class(tree, cls, fn.name) or fn.name in attr_stores or dynamic_setattr:
            return False
        return not (rel is not None and _bound_elsewhere(fn.name, rel))
    attr_stores = {x.attr for x in ast.walk(tree) if isinstance(x, ast.Attribute) and isinstance(x.ctx, (ast.Store, ast.Del))}
    attr_stores |= {x.args[1].value for x in ast.walk(tree) if isinstance(x, ast.Call) and isinstance(x.func, ast.Name) and x.func.id in ("setattr", "delattr")
                    and len(x.args) >= 2 and isinstance(x.args[1], ast.Constant) and isinstance(x.args[1].value, str)}
    dynamic_setattr = any(isinstance(x, ast.Call) and isinstance(x.func, ast.Name) and x.func.id in ("setattr", "delattr") and len(x.args) >= 2
                          and not isinstance(x.args[1], ast.Constant) for x in ast.walk(tree))
    new = {q: fn for q, fn in new.items() if unique_def(q, fn)}
    def tailable(fn):
        """any control flow (loops, several returns) can be written in place of `return helper(..)`: its returns are the caller's"""
        return not any(isinstance(n, (ast.Yield, ast.YieldFrom, ast.Await, ast.Global, ast.Nonlocal)) or
                       (isinstance(n, (ast.FunctionDef, ast.AsyncFunctionDef, ast.Lambda, ast.ClassDef)) and n is not fn) for n in ast.walk(fn)) \
            and not fn.decorator_list
    new = {q: fn for q, fn in new.items() if not fn.decorator_list}      # a decorator may wrap, guard or replace the function
    info = {}
    for q, fn in new.items():
        kind = _helper_kind(fn)
        if kind is None and _simple_params(fn) is not None and tailable(fn) and "." not in q:
            info[q] = (fn, "tail", None, False)
            continue
        if kind is None or _simple_params(fn) is None:
            continue
        is_method = "." in q
        if is_method and any(isinstance(d, ast.Name) and d.id in ("staticmethod", "classmethod", "property") for d in fn.decorator_list):
            continue
        expr = None
        if kind in ("expr", "guarded"):
            try:
                sm = summarize(fn)
            except Exception:
                continue
            if sm.result is None or any(isinstance(n, ast.Name) and n.id.endswith("'") for n in ast.walk(sm.result)):
                continue
            if kind == "expr" and sm.guards:
                continue
            expr = sm.result if kind == "expr" else (list(sm.guards), sm.result)
        info[q] = (fn, kind, expr, is_method)
    for q, fn in nested.items():
        kind = _helper_kind(fn)
        if kind is None or _simple_params(fn) is None:
            continue
        expr = None
        if kind in ("expr", "guarded"):
            try:
                sm = summarize(fn)
            except Exception:
                continue
            if sm.result is None or any(isinstance(n, ast.Name) and n.id.endswith("'") for n in ast.walk(sm.result)):
                continue
            if kind == "expr" and sm.guards:
                continue
            expr = sm.result if kind == "expr" else (list(sm.guards), sm.result)
        info[q] = (fn, kind, expr, False)
    if not info:
        return 0
    count = 0
    uid = [0]
    _taken_ids = {x.id for x in ast.walk(tree) if isinstance(x, ast.Name)} | {x.arg for x in ast.walk(tree) if isinstance(x, ast.arg)}
    while any(t_.startswith("_h") and t_[2:].split("_")[0].isdigit() and int(t_[2:].split("_")[0]) > uid[0] for t_ in _taken_ids):
        uid[0] += 1000          # the names the pass invents (`_h<n>_<name>`) must be new in the module

    scope = {"bound": set(), "self_ok": False, "groups": lambda: {}}
    _free = {}

    def free_names(fn):
        """names the helper reads from outside itself - by scope (symtable): a comprehension variable or lambda parameter of the
        same spelling inside the helper does not make an outer name the helper's own"""
        if id(fn) not in _free:
            own = _all_bound_names(fn)
            coarse = {x.id for x in ast.walk(fn) if isinstance(x, ast.Name) and isinstance(x.ctx, ast.Load)} - own
            try:
                import symtable
                top = symtable.symtable(ast.unparse(fn), "<helper>", "exec").get_children()[0]
                fine = set()
                todo = [top]
                while todo:
                    t_ = todo.pop()
                    fine.update(sy.get_name() for sy in t_.get_symbols() if sy.is_global() or (sy.is_free() and t_ is top))
                    todo.extend(t_.get_children())
                coarse |= fine
            except Exception:
                coarse |= {x.id for x in ast.walk(fn) if isinstance(x, ast.Name) and isinstance(x.ctx, ast.Load)}
            _free[id(fn)] = coarse
        return _free[id(fn)]

    def match(call, cls):
        """helper key for a call node inside class `cls` (or None).  The name must mean the helper where the call stands: a
        parameter, local, nested def or import of the calling function with the same name hides the module-level helper, and
        `self` must be the method's own first parameter"""
        f = call.func
        if isinstance(f, ast.Name) and f.id in info and not info[f.id][3] and f.id not in scope["bound"]:
            # the names the helper reads from the module must not be locals of the caller (there they would mean something else)
            if free_names(info[f.id][0]) & (scope["bound"] | set(scope.get("comp", ()))):
                return None
            return f.id, None
        if isinstance(f, ast.Name) and scope.get("q") and f"{scope['q']}.{f.id}" in nested and f"{scope['q']}.{f.id}" in info:
            if free_names(info[f"{scope['q']}.{f.id}"][0]) & set(scope.get("comp", ())):
                return None     # a comprehension variable at the place of the call has the spelling of a name the helper reads
            return f"{scope['q']}.{f.id}", None
        if isinstance(f, ast.Attribute) and isinstance(f.value, ast.Name) and f.value.id == "self" and cls and f"{cls}.{f.attr}" in info \
                and scope["self_ok"]:
            if free_names(info[f"{cls}.{f.attr}"][0]) & (scope["bound"] - {"self"}):
                return None
            return f"{cls}.{f.attr}", f.value
        return None

    class ExprInliner(ast.NodeTransformer):
        def __init__(self, cls):
            self.cls = cls

        def _comp(self, n):
            saved = scope.get("comp", ())
            scope["comp"] = tuple(saved) + tuple(t.id for g in n.generators for t in ast.walk(g.target) if isinstance(t, ast.Name))
            try:
                return self.generic_visit(n)
            finally:
                scope["comp"] = saved
        visit_ListComp = visit_SetComp = visit_DictComp = visit_GeneratorExp = _comp

        def visit_Lambda(self, n):
            saved = scope.get("comp", ())
            scope["comp"] = tuple(saved) + tuple(a.arg for a in ast.walk(n.args) if isinstance(a, ast.arg))
            try:
                return self.generic_visit(n)
            finally:
                scope["comp"] = saved

        def visit_Call(self, n):
            nonlocal count
            self.generic_visit(n)
            k = match(n, self.cls)
            if k and info[k[0]][1] == "expr":
                fn, _, expr, is_method = info[k[0]]
                m = _bind_call(fn, n, is_method)
                if m is not None and _by_value_ok(fn, [expr], m, scope["groups"]):
                    if is_method:
                        m[_simple_params(fn)[0]] = k[1]
                    count += 1
                    new_e = ast.copy_location(_subst(expr, m), n)
                    new_e._from_helper = True
                    return new_e
            return n

    _hoist_k = [0]

    def hoist_nested(block, cls):
        """`return g(a, helper(x))` / `self.lines.append(helper(x))` -> `_t = helper(x)` in front of the statement, when the helper is a
        new statement-kind helper, it is the only call among the arguments, the other arguments are plain names or constants and
        the receiver of a method call is not something the helper is handed (so nothing the outer call reads first can be
        changed by the helper)"""
        out = []
        for st in block:
            val = getattr(st, "value", None) if isinstance(st, (ast.Expr, ast.Assign, ast.Return)) else None
            if isinstance(val, ast.Call) and not val.keywords and not any(isinstance(a, ast.Starred) for a in val.args):
                inner = [a for a in val.args if isinstance(a, ast.Call)]
                others = [a for a in val.args if not isinstance(a, ast.Call)]
                f = val.func
                root = f
                while isinstance(root, ast.Attribute):
                    root = root.value
                if len(inner) == 1 and all(isinstance(a, (ast.Name, ast.Constant)) for a in others) and isinstance(root, ast.Name) \
                        and not any(isinstance(c, ast.Call) for c in ast.walk(f)):
                    k = match(inner[0], cls)
                    handed = {x.id for x in ast.walk(inner[0]) if isinstance(x, ast.Name)}
                    if k and info[k[0]][1] not in ("expr",) and match(val, cls) is None and (isinstance(f, ast.Name) or root.id not in handed) \
                            and not any(isinstance(c, ast.Call) for a in inner[0].args for c in ast.walk(a)):
                        _hoist_k[0] += 1
                        nm = f"_hoisted_{_hoist_k[0]}"
                        while nm in scope["bound"]:
                            _hoist_k[0] += 1
                            nm = f"_hoisted_{_hoist_k[0]}"
                        a_ = ast.Assign(targets=[ast.Name(id=nm, ctx=ast.Store())], value=inner[0])
                        ast.copy_location(a_, st)
                        val.args[val.args.index(inner[0])] = ast.copy_location(ast.Name(id=nm, ctx=ast.Load()), inner[0])
                        ast.fix_missing_locations(a_)
                        out.append(a_)
            out.append(st)
        return out

    def stmt_inline(block, cls):
        nonlocal count
        out = []
        block = hoist_nested(block, cls)
        for st in block:
            for fld in ("body", "orelse", "finalbody"):
                if hasattr(st, fld) and isinstance(getattr(st, fld), list) and not isinstance(st, (ast.FunctionDef, ast.AsyncFunctionDef, ast.ClassDef)):
                    setattr(st, fld, stmt_inline(getattr(st, fld), cls))
            if isinstance(st, ast.Try):
                for h in st.handlers:
                    h.body = stmt_inline(h.body, cls)
            call, target = None, None
            if isinstance(st, ast.Expr) and isinstance(st.value, ast.Call):
                call = st.value
            elif isinstance(st, ast.Assign) and isinstance(st.value, ast.Call):
                call, target = st.value, st.targets
            elif isinstance(st, ast.Return) and isinstance(st.value, ast.Call):
                call, target = st.value, "return"
            k = match(call, cls) if call is not None else None
            if k and info[k[0]][1] == "guarded":
                fn, _, (guards_, expr_), is_method = info[k[0]]
                m = _bind_call(fn, call, is_method)
                if m is not None and _by_value_ok(fn, list(guards_) + [expr_], m, scope["groups"]):
                    if is_method:
                        m[_simple_params(fn)[0]] = k[1]
                    new_stmts = []
                    for g_ in guards_:
                        new_stmts.append(ast.If(test=_subst(g_, m), body=[ast.Raise(exc=ast.Call(func=ast.Name(id="Exception", ctx=ast.Load()), args=[], keywords=[]), cause=None)], orelse=[]))
                    val = _subst(expr_, m)
                    if target == "return":
                        new_stmts.append(ast.Return(value=val))
                    elif target is not None:
                        new_stmts.append(ast.Assign(targets=copy.deepcopy(target), value=val))
                    else:
                        new_stmts.append(ast.Expr(value=val))
                    for x in new_stmts:
                        ast.copy_location(x, st)
                        ast.fix_missing_locations(x)
                    out.extend(new_stmts)
                    count += 1
                    continue
            if k and info[k[0]][1] == "tail" and target == "return":
                fn, _, _, is_method = info[k[0]]
                m = _bind_call(fn, call, is_method)
                body = [b for b in fn.body if not _is_doc(b)]
                if m is not None:
                    uid[0] += 1
                    stores = _stores(body)
                    fresh = {nm_: f"_h{uid[0]}_{nm_}" for nm_ in stores}
                    pre, sub = [], {}
                    for p, a in m.items():
                        if p in stores:
                            pre.append(ast.Assign(targets=[ast.Name(id=fresh[p], ctx=ast.Store())], value=copy.deepcopy(a)))
                        elif isinstance(a, (ast.Name, ast.Constant)):
                            sub[p] = a
                        else:
                            tmp = f"_h{uid[0]}_{p}"
                            pre.append(ast.Assign(targets=[ast.Name(id=tmp, ctx=ast.Store())], value=copy.deepcopy(a)))
                            sub[p] = ast.Name(id=tmp, ctx=ast.Load())
                    new_stmts = list(pre) + [_subst(_rename(copy.deepcopy(b), fresh), sub) for b in body]
                    if not isinstance(body[-1], (ast.Return, ast.Raise)):
                        new_stmts.append(ast.Return(value=ast.Constant(None)))
                    for x in new_stmts:
                        ast.copy_location(x, st)
                        ast.fix_missing_locations(x)
                    out.extend(new_stmts)
                    count += 1
                    continue
            if k and info[k[0]][1] == "stmts":
                fn, _, _, is_method = info[k[0]]
                m = _bind_call(fn, call, is_method)
                body = [b for b in fn.body if not _is_doc(b)]
                if m is not None:
                    if is_method:
                        m[_simple_params(fn)[0]] = k[1]
                    uid[0] += 1
                    # the helper has a scope of its own: every name it binds (rebound parameters, locals) becomes a fresh local
                    # of the caller; parameters that are only read are replaced by the arguments
                    stores = _stores(body)
                    pre = []
                    sub = {}
                    fresh = {nm_: f"_h{uid[0]}_{nm_}" for nm_ in stores}
                    # call-free arguments may be read in place of the parameter when nothing in the body can change an object
                    # before the parameter is read (then evaluating them there gives what evaluating them first would)
                    light = {p for p, a in m.items() if p not in stores and not isinstance(a, (ast.Name, ast.Constant)) and _effect_free_argument(a)}
                    by_name = light if light and _by_name_safe([b for b in fn.body if not _is_doc(b)], light, m, scope["groups"]()) else set()
                    for p, a in m.items():
                        if p in stores:
                            pre.append(ast.Assign(targets=[ast.Name(id=fresh[p], ctx=ast.Store())], value=copy.deepcopy(a)))
                        elif isinstance(a, (ast.Name, ast.Constant)) or p == (_simple_params(fn)[0] if is_method else None):
                            sub[p] = a
                        elif p in by_name:
                            sub[p] = a
                        else:
                            # call by value: the argument is evaluated once, before the body (the pass for temporaries moves it to its
                            # use afterwards if nothing in between can change what it reads)
                            tmp = f"_h{uid[0]}_{p}"
                            pre.append(ast.Assign(targets=[ast.Name(id=tmp, ctx=ast.Store())], value=copy.deepcopy(a)))
                            sub[p] = ast.Name(id=tmp, ctx=ast.Load())
                    # `t = helper(..)` whose helper ends in `return v` (v a local of the helper): v IS t - the helper's local takes the
                    # caller's name instead of a fresh one followed by `t = _h_v` (t must not be read by the arguments or the body)
                    if target not in (None, "return") and len(target) == 1 and isinstance(target[0], ast.Name) and body \
                            and isinstance(body[-1], ast.Return) and isinstance(body[-1].value, ast.Name) and body[-1].value.id in stores \
                            and body[-1].value.id not in m:
                        t_ = target[0].id
                        mentioned = {x.id for a_ in m.values() for x in ast.walk(a_) if isinstance(x, ast.Name)} | \
                            ({x.id for b in body for x in ast.walk(b) if isinstance(x, ast.Name)} - set(stores))
                        if t_ not in mentioned:
                            fresh[body[-1].value.id] = t_
                    # ... likewise `a, b = helper(..)` whose helper ends in `return v, w` (distinct locals of the helper)
                    if target not in (None, "return") and len(target) == 1 and isinstance(target[0], ast.Tuple) and body \
                            and isinstance(body[-1], ast.Return) and isinstance(body[-1].value, ast.Tuple) \
                            and len(body[-1].value.elts) == len(target[0].elts) \
                            and all(isinstance(x, ast.Name) for x in list(target[0].elts) + list(body[-1].value.elts)):
                        rn_ = [x.id for x in body[-1].value.elts]
                        tn_ = [x.id for x in target[0].elts]
                        mentioned = {x.id for a_ in m.values() for x in ast.walk(a_) if isinstance(x, ast.Name)} | \
                            ({x.id for b in body for x in ast.walk(b) if isinstance(x, ast.Name)} - set(stores))
                        if len(set(rn_)) == len(rn_) and len(set(tn_)) == len(tn_) and all(r_ in stores and r_ not in m for r_ in rn_) \
                                and not (set(tn_) & mentioned):
                            for r_, t2_ in zip(rn_, tn_):
                                fresh[r_] = t2_
                    body = [_rename(copy.deepcopy(b), fresh) for b in body]
                    new_stmts = list(pre)
                    ok = True
                    for b in body:
                        if isinstance(b, ast.Return):
                            val = _subst(b.value, sub) if b.value is not None else ast.Constant(None)
                            if target == "return":
                                new_stmts.append(ast.Return(value=val))
                            elif target is not None:
                                same_tuple = len(target) == 1 and isinstance(target[0], ast.Tuple) and isinstance(val, ast.Tuple) \
                                    and [getattr(x, "id", None) for x in target[0].elts] == [getattr(x, "id", 0) for x in val.elts]
                                if not (len(target) == 1 and isinstance(target[0], ast.Name) and isinstance(val, ast.Name) and val.id == target[0].id) \
                                        and not same_tuple:
                                    new_stmts.append(ast.Assign(targets=copy.deepcopy(target), value=val))
                            else:
                                new_stmts.append(ast.Expr(value=val))
                        else:
                            new_stmts.append(_subst(b, sub))
                    if target is not None and not any(isinstance(b, ast.Return) for b in body):
                        if target == "return":
                            new_stmts.append(ast.Return(value=ast.Constant(None)))
                        else:
                            new_stmts.append(ast.Assign(targets=copy.deepcopy(target), value=ast.Constant(None)))
                    if ok:
                        for x in new_stmts:
                            ast.copy_location(x, st)
                            ast.fix_missing_locations(x)
                        out.extend(new_stmts)
                        count += 1
                        continue
            out.append(st)
        return out

    def split_tuples(block):
        """`a, b = (x, y)` produced by inlining a helper that returned a tuple -> `a = x; b = y` (when independent)"""
        out = []
        for st in block:
            for fld in ("body", "orelse", "finalbody"):
                if hasattr(st, fld) and isinstance(getattr(st, fld), list) and not isinstance(st, (ast.FunctionDef, ast.AsyncFunctionDef, ast.ClassDef)):
                    setattr(st, fld, split_tuples(getattr(st, fld)))
            if isinstance(st, ast.Try):
                for h in st.handlers:
                    h.body = split_tuples(h.body)
            if isinstance(st, ast.Assign) and len(st.targets) == 1 and isinstance(st.targets[0], ast.Tuple) and isinstance(st.value, ast.Tuple) \
                    and getattr(st.value, "_from_helper", False) and len(st.targets[0].elts) == len(st.value.elts) \
                    and all(isinstance(t, ast.Name) for t in st.targets[0].elts):
                tn = {t.id for t in st.targets[0].elts}
                if not any(isinstance(x, ast.Name) and x.id in tn for v in st.value.elts for x in ast.walk(v)):
                    for t, v in zip(st.targets[0].elts, st.value.elts):
                        a = ast.Assign(targets=[t], value=v)
                        ast.copy_location(a, st)
                        ast.fix_missing_locations(a)
                        out.append(a)
                    continue
            out.append(st)
        return out

    for q, fn in all_funcs.items():
        if q in info:
            continue
        cls = q.rsplit(".", 1)[0] if "." in q else None
        scope["q"] = q
        scope["bound"] = set()
        for q2, f2 in all_funcs.items():
            if q2 == q or q.startswith(q2 + "."):
                scope["bound"] |= _all_bound_names(f2)
        a_ = fn.args
        first = (a_.posonlyargs + a_.args)[0].arg if (a_.posonlyargs + a_.args) else None
        rebinds_self = sum(1 for x in ast.walk(fn) if isinstance(x, ast.arg) and x.arg == "self") != 1 or \
            any(isinstance(x, ast.Name) and x.id == "self" and isinstance(x.ctx, (ast.Store, ast.Del)) for x in ast.walk(fn))
        scope["self_ok"] = first == "self" and not rebinds_self
        _g = {}
        scope["groups"] = lambda fn=fn, _g=_g: _g.setdefault("v", _alias.groups(fn))
        fn.body[:] = stmt_inline(fn.body, cls)
        ExprInliner(cls).visit(fn)
        fn.body[:] = split_tuples(fn.body)
    # a helper that is no longer referenced anywhere has been undone completely: drop its definition, so that rules which
    # scan every function of the module see the code where it was before the extraction
    for q, (fn, kind, expr, is_method) in info.items():
        name = q.split(".")[-1]
        still = False
        for n in ast.walk(tree):
            if n is fn:
                continue
            if isinstance(n, ast.Name) and n.id == name and not is_method:
                still = True
            if isinstance(n, ast.Attribute) and n.attr == name and is_method:
                still = True
        if still and any(n is not fn and isinstance(n, (ast.Name, ast.Attribute)) and getattr(n, "id", getattr(n, "attr", None)) == name
                         and not _inside(fn, n) for n in ast.walk(tree)):
            continue
        if not all(_effect_free_argument(d) for d in list(fn.args.defaults) + [d for d in fn.args.kw_defaults if d is not None] + list(fn.decorator_list)):
            continue        # the def statement itself evaluates its defaults and decorators where it stands
        _remove_def(tree, fn)
    return count


def _inside(fn, node):
    return any(x is node for x in ast.walk(fn))


def _remove_def(tree, fn):
    for parent in ast.walk(tree):
        body = getattr(parent, "body", None)
        if isinstance(body, list) and fn in body:
            body.remove(fn)
            # remembered for subclasses in other modules that call the same (inherited) helper: program.inline_inherited_new_helpers
            owner = parent.name if isinstance(parent, ast.ClassDef) else ""
            if not hasattr(tree, "_removed_helpers"):
                tree._removed_helpers = {}
            tree._removed_helpers[(owner, fn.name)] = fn
            if not body:
                body.append(ast.Pass())
            return


# ---------------------------------------------------------------------------


_WIDE_CTYPES = {"int", "long", "Py_ssize_t", "ssize_t", "int64", "np.int64_t", "double", "float64", "np.float64_t", "object", "bint"}

# (kind, bits, signed) of the C number types the repository declares
_CNUM = {
    "bint": ("i", 1, False), "char": ("i", 8, True), "unsigned char": ("i", 8, False), "uint8": ("i", 8, False), "int8": ("i", 8, True),
    "np.uint8_t": ("i", 8, False), "np.int8_t": ("i", 8, True), "short": ("i", 16, True), "unsigned short": ("i", 16, False),
    "uint16": ("i", 16, False), "int16": ("i", 16, True), "np.uint16_t": ("i", 16, False), "np.int16_t": ("i", 16, True),
    "int": ("i", 32, True), "unsigned int": ("i", 32, False), "int32": ("i", 32, True), "uint32": ("i", 32, False),
    "np.int32_t": ("i", 32, True), "np.uint32_t": ("i", 32, False), "long": ("i", 64, True), "unsigned long": ("i", 64, False),
    "long long": ("i", 64, True), "int64": ("i", 64, True), "uint64": ("i", 64, False), "np.int64_t": ("i", 64, True), "np.uint64_t": ("i", 64, False),
    "Py_ssize_t": ("i", 64, True), "ssize_t": ("i", 64, True), "size_t": ("i", 64, False), "ptr": ("i", 64, False),
    "float": ("f", 32, True), "float32": ("f", 32, True), "np.float32_t": ("f", 32, True),
    "double": ("f", 64, True), "float64": ("f", 64, True), "np.float64_t": ("f", 64, True),
}


def _conversion_free(target, source):
    """does assigning a value of C type `source` to a variable of C type `target` keep every value (no truncation, narrowing or
    change of sign)"""
    if target in ("object", "") or target == source:
        return True
    t, s_ = _CNUM.get(target), _CNUM.get(source)
    if t is None or s_ is None:
        return False
    if t[0] == "f":
        return s_[0] == "f" and t[1] >= s_[1] or s_[0] == "i" and s_[1] <= 32 and t[1] == 64 or s_[0] == "i" and s_[1] <= 16
    if s_[0] == "f":
        return False              # float -> integer truncates
    if t[1] == 1:
        return s_[1] == 1
    return t[1] > s_[1] and (t[2] or not s_[2]) or t[1] == s_[1] and t[2] == s_[2]


def _ctype_of_expr(e, ctype_of_name):
    """declared C type of an expression built from typed locals: a name, a fully indexed memoryview element, + - * of
    operands of one type (integer literals adapt); None when unknown"""
    if isinstance(e, ast.Name):
        t = ctype_of_name(e.id).replace("const ", "").strip()
        return t if t and "[" not in t else None
    if isinstance(e, ast.Subscript) and isinstance(e.value, ast.Name):
        t = ctype_of_name(e.value.id).replace("const ", "").strip()
        if "[" in t and t.endswith("]"):
            dims = t[t.index("[") + 1:-1].count(",") + 1
            idx = e.slice.elts if isinstance(e.slice, ast.Tuple) else [e.slice]
            if len(idx) == dims and not any(isinstance(i, ast.Slice) for i in idx):
                return t[:t.index("[")].strip()
        return None
    if isinstance(e, ast.Constant) and isinstance(e.value, bool) or isinstance(e, (ast.Compare, ast.BoolOp)) and not isinstance(e, ast.BoolOp) \
            or isinstance(e, ast.UnaryOp) and isinstance(e.op, ast.Not):
        return "bint"
    if isinstance(e, ast.Subscript) and isinstance(e.value, ast.Attribute) and e.value.attr == "shape" and not isinstance(e.slice, (ast.Slice, ast.Tuple)):
        return "Py_ssize_t"
    if isinstance(e, ast.Call) and isinstance(e.func, ast.Name) and e.func.id == "len" and len(e.args) == 1:
        return "Py_ssize_t"
    if isinstance(e, ast.Attribute) and e.attr.isupper() and isinstance(e.value, ast.Name) and e.value.id[:1].isupper():
        return "int"       # a member of one of the repository's IntEnums (small non-negative codes)
    if isinstance(e, ast.BinOp) and isinstance(e.op, (ast.Add, ast.Sub, ast.Mult, ast.BitOr, ast.BitAnd, ast.BitXor)):
        a, b = _ctype_of_expr(e.left, ctype_of_name), _ctype_of_expr(e.right, ctype_of_name)
        lit = lambda x: isinstance(x, ast.Constant) and isinstance(x.value, int) and not isinstance(x.value, bool)
        if lit(e.left):
            a = b
        if lit(e.right):
            b = a
        if a is not None and a == b and a not in ("char", "unsigned char", "short", "unsigned short", "uint8", "int8", "uint16", "int16", "float", "float32"):
            return a
    return None


def _direct_use(st, nm):
    """is every read of `nm` inside statement `st` evaluated where `st` itself starts (not inside a body that runs
    conditionally, repeatedly or under an exception handler)"""
    def reads(node):
        return any(isinstance(x, ast.Name) and x.id == nm and isinstance(x.ctx, ast.Load) for x in ast.walk(node))
    # a body may read it again when the head of the statement (evaluated unconditionally, first) reads it too: the
    # expression was then already evaluated there without fault (the caller checks that the statement does not write its operands)
    if isinstance(st, ast.If):
        return reads(st.test) or not any(reads(b) for b in st.body + st.orelse)
    if isinstance(st, (ast.For, ast.AsyncFor)):
        return reads(st.iter) or not any(reads(b) for b in st.body + st.orelse)
    if isinstance(st, (ast.With, ast.AsyncWith)):
        return any(reads(i.context_expr) for i in st.items) or not any(reads(b) for b in st.body)
    if isinstance(st, (ast.While, ast.Try, ast.Match)) or hasattr(ast, "TryStar") and isinstance(st, ast.TryStar):
        return not reads(st)
    if isinstance(st, (ast.FunctionDef, ast.AsyncFunctionDef, ast.ClassDef)):
        return not reads(st)
    return True


def _may_fault(value):
    """can evaluating the expression read memory / object state or raise (so that WHERE it is evaluated matters)"""
    for x in ast.walk(value):
        if isinstance(x, ast.Attribute):
            # a member of an enumeration / a named constant of a class or module (`TraceDirectionAffine.MATCH_TO_MATCH`, `np.int32`)
            b = x
            while isinstance(b, ast.Attribute):
                b = b.value
            if isinstance(b, ast.Name) and (b.id in ("np", "numpy", "math", "sys") or b.id[:1].isupper() and x.attr.isupper()):
                continue
            return True
        if isinstance(x, ast.Call) and isinstance(x.func, ast.Name) and x.func.id == "slice" and not x.keywords:
            continue        # building a slice object cannot fail
        if isinstance(x, (ast.Subscript, ast.Starred, ast.Call, ast.Await)):
            return True
        if isinstance(x, ast.BinOp) and isinstance(x.op, (ast.Div, ast.FloorDiv, ast.Mod, ast.Pow, ast.LShift, ast.RShift)):
            return True
    return False


def _writes_through(st, operands):
    """does the statement (at any depth) change an object named by `operands` in place, or hand it to a call that could"""
    for x in ast.walk(st):
        if isinstance(x, ast.Call):
            if _alias.reads_only(x):
                continue
            touched = set()
            for a in list(x.args) + [k.value for k in x.keywords]:
                b = a.value if isinstance(a, ast.Starred) else a
                while isinstance(b, (ast.Subscript, ast.Attribute)):
                    b = b.value
                if isinstance(b, ast.UnaryOp) and isinstance(b.op, ast.UAdd) and isinstance(b.operand, ast.Name):
                    b = b.operand          # lowered pyx `&x`
                if isinstance(b, ast.Name):
                    touched.add(b.id)
            if isinstance(x.func, ast.Attribute):
                b = x.func.value
                while isinstance(b, (ast.Subscript, ast.Attribute)):
                    b = b.value
                if isinstance(b, ast.Name):
                    touched.add(b.id)
            elif isinstance(x.func, ast.Name):
                touched.add(x.func.id)       # a nested function of the caller may change what it captured
            if touched & operands:
                return True
        elif isinstance(x, (ast.Assign, ast.AugAssign, ast.Delete, ast.AnnAssign)):
            for t in (x.targets if isinstance(x, (ast.Assign, ast.Delete)) else [x.target]):
                b = t
                while isinstance(b, (ast.Subscript, ast.Attribute)):
                    b = b.value
                if isinstance(b, ast.Name) and b.id in operands and b is not t:
                    return True
        elif isinstance(x, (ast.Subscript, ast.Attribute)) and isinstance(x.ctx, (ast.Store, ast.Del)):
            # the target of a for / with / comprehension / walrus
            b = x
            while isinstance(b, (ast.Subscript, ast.Attribute)):
                b = b.value
            if isinstance(b, ast.Name) and b.id in operands:
                return True
    return False


def inline_comprehension_temps(tree, ref_mod):
    """`t = [.. for ..]` followed at once by a statement whose value is `f(t, ..)` (f a dotted name, t its first argument, t a local the
    reference function did not have, bound once and read once): the comprehension is the first thing that statement evaluates
    either way, so it may stand there."""
    from . import localnames
    n_done = 0
    for q, fn in localnames._numbered(tree):
        ref = ref_mod.get(q)
        if not ref:
            continue
        ref_names = {n for n, _ in ref}
        params = localnames._params(fn)
        own = list(localnames._own_nodes(fn))
        for parent in [fn] + [x for x in own if isinstance(x, (ast.If, ast.For, ast.While, ast.With, ast.Try))]:
            for fld in ("body", "orelse", "finalbody"):
                block = getattr(parent, fld, None)
                if not isinstance(block, list):
                    continue
                for k in range(len(block) - 1):
                    st, nxt = block[k], block[k + 1]
                    if not (isinstance(st, ast.Assign) and len(st.targets) == 1 and isinstance(st.targets[0], ast.Name)
                            and isinstance(st.value, (ast.ListComp, ast.SetComp, ast.DictComp))):
                        continue
                    t = st.targets[0].id
                    if t in ref_names or t in params or sum(1 for x in ast.walk(fn) if isinstance(x, ast.Name) and x.id == t) != 2:
                        continue
                    val = getattr(nxt, "value", None) if isinstance(nxt, (ast.Assign, ast.Expr, ast.Return)) else None
                    if not (isinstance(val, ast.Call) and val.args and isinstance(val.args[0], ast.Name) and val.args[0].id == t
                            and _dotted_name(val.func) and not ast.unparse(val.func).startswith(t + ".")):
                        continue
                    if isinstance(nxt, ast.Assign) and not all(isinstance(x, ast.Name) or (isinstance(x, ast.Attribute) and _dotted_name(x)) for x in nxt.targets):
                        continue
                    val.args[0] = st.value
                    del block[k]
                    n_done += 1
                    break
    return n_done


def fold_conditional_appends(tree, ref_mod):
    """`xs = [a, b]` / `if c: xs.append(e)` / .. / one statement that reads xs once as a call argument - with xs a local the reference
    function did not have, bound once, and nothing else in between: the read becomes `[a, b, e] if c else [a, b]` (unconditional appends
    extend the literal).  At most one conditional append is folded (two would need four alternatives)"""
    from . import localnames
    n_done = 0
    for q, fn in localnames._numbered(tree):
        ref = ref_mod.get(q)
        if not ref:
            continue
        ref_names = {n for n, _ in ref}
        body = fn.body
        for i, st in enumerate(body):
            if not (isinstance(st, ast.Assign) and len(st.targets) == 1 and isinstance(st.targets[0], ast.Name) and isinstance(st.value, ast.List)):
                continue
            nm = st.targets[0].id
            if nm in ref_names or sum(1 for x in ast.walk(fn) if isinstance(x, ast.Name) and x.id == nm and isinstance(x.ctx, ast.Store)) != 1:
                continue

            def is_append(s_):
                return isinstance(s_, ast.Expr) and isinstance(s_.value, ast.Call) and isinstance(s_.value.func, ast.Attribute) and s_.value.func.attr == "append" \
                    and isinstance(s_.value.func.value, ast.Name) and s_.value.func.value.id == nm and len(s_.value.args) == 1 and not s_.value.keywords \
                    and not any(isinstance(x, ast.Name) and x.id == nm for x in ast.walk(s_.value.args[0]))
            base, cond = list(st.value.elts), None
            j = i + 1
            while j < len(body):
                s_ = body[j]
                if is_append(s_) and cond is None:
                    base.append(s_.value.args[0])
                elif isinstance(s_, ast.If) and not s_.orelse and len(s_.body) == 1 and is_append(s_.body[0]) and cond is None \
                        and not any(isinstance(x, ast.Name) and x.id == nm for x in ast.walk(s_.test)) \
                        and not any(isinstance(x, (ast.Call, ast.NamedExpr)) for x in ast.walk(s_.test)):
                    cond = (s_.test, s_.body[0].value.args[0])
                else:
                    break
                j += 1
            if j >= len(body) or j == i + 1:
                continue
            use = body[j]
            reads = [x for x in ast.walk(fn) if isinstance(x, ast.Name) and x.id == nm and isinstance(x.ctx, ast.Load)]
            n_appends = j - (i + 1)
            in_use = [x for x in ast.walk(use) if isinstance(x, ast.Name) and x.id == nm and isinstance(x.ctx, ast.Load)]
            if len(reads) != n_appends + 1 or len(in_use) != 1 or not isinstance(use, (ast.Return, ast.Assign, ast.Expr)):
                continue
            holder = [c for c in ast.walk(use) if isinstance(c, ast.Call) and any(a is in_use[0] for a in c.args)]
            if len(holder) != 1 or sum(isinstance(c, ast.Call) for c in ast.walk(use)) != 1:
                continue
            lit = ast.List(elts=base, ctx=ast.Load())
            if cond is not None:
                lit = ast.IfExp(test=cond[0], body=ast.List(elts=base + [cond[1]], ctx=ast.Load()), orelse=ast.List(elts=list(base), ctx=ast.Load()))
            holder[0].args[holder[0].args.index(in_use[0])] = ast.copy_location(lit, in_use[0])
            ast.fix_missing_locations(use)
            del body[i:j]
            n_done += 1
            break
    return n_done


def rename_dead_aliases(tree, ref_mod):
    """`t = s` at the top level of a function body, t a local the reference function did not have and s a local (or parameter) that
    is never read again after this statement: from here on t is just another spelling of s (a helper that was written out keeps
    working on the object under its own parameter name) - t is renamed to s and the statement goes.  Rebinding t afterwards then
    rebinds s, which nobody reads under that name any more."""
    from . import localnames
    n_done = 0
    for q, fn in localnames._numbered(tree):
        ref = ref_mod.get(q)
        if not ref:
            continue
        ref_names = {n for n, _ in ref}
        params = localnames._params(fn)
        for k, st in enumerate(fn.body):
            if not (isinstance(st, ast.Assign) and len(st.targets) == 1 and isinstance(st.targets[0], ast.Name) and isinstance(st.value, ast.Name)):
                continue
            t, s_ = st.targets[0].id, st.value.id
            if t in ref_names or t in params or t == s_ or not (s_ in ref_names or s_ in params):
                continue
            before = [x for b in fn.body[:k] for x in ast.walk(b)]
            after = [x for b in fn.body[k + 1:] for x in ast.walk(b)]
            if any(isinstance(x, ast.Name) and x.id == t for x in before) or any(isinstance(x, ast.Name) and x.id == s_ for x in after):
                continue
            if any(isinstance(x, (ast.FunctionDef, ast.AsyncFunctionDef, ast.Lambda, ast.ClassDef, ast.Global, ast.Nonlocal)) for x in ast.walk(fn) if x is not fn):
                continue
            for x in after:
                if isinstance(x, ast.Name) and x.id == t:
                    x.id = s_
            del fn.body[k]
            n_done += 1
            break
    return n_done


def inline_new_temps(tree, ref_mod, ctype=None):
    """undo 'introduce temporary': a local that the reference function did not have, bound exactly once by a plain
    assignment whose operands are not rebound afterwards, is replaced by its defining expression.  The expression may
    only move where it is evaluated under the same conditions and sees the same objects: see the comments below.
    `ctype(qualname, name)` gives the declared C type of a local in lowered Cython ('' if none)."""
    from . import localnames
    n_done = 0
    for q, fn in localnames._numbered(tree):
        ref = ref_mod.get(q)
        ref_names = {n for n, _ in ref} if ref else set()
        params = localnames._params(fn)
        own = list(localnames._own_nodes(fn))
        stores = {}
        for n in own:
            if isinstance(n, ast.Name) and isinstance(n.ctx, (ast.Store, ast.Del)):
                stores.setdefault(n.id, []).append(n)
        cands = {}
        for n in own:
            if isinstance(n, ast.Assign) and len(n.targets) == 1 and isinstance(n.targets[0], ast.Name):
                nm = n.targets[0].id
                if nm in ref_names or nm in params or len(stores.get(nm, [])) != 1 or nm.startswith("__"):
                    continue
                if any(isinstance(x, (ast.Lambda, ast.ListComp, ast.GeneratorExp, ast.SetComp, ast.DictComp, ast.Yield, ast.Await, ast.NamedExpr))
                       for x in ast.walk(n.value)):
                    continue
                cands[nm] = n
        # a temporary defined through another candidate is decided in a later round, with the composed expression (core.Source
        # repeats the pass): each link of a chain alone may pass a test that the composition fails
        for nm in [nm for nm, a in cands.items() if any(isinstance(x, ast.Name) and x.id in cands and x.id != nm for x in ast.walk(a.value))]:
            cands.pop(nm)
        if not cands:
            continue
        alias_groups = _alias.groups(fn)
        nested_defs = {x.name for x in ast.walk(fn) if isinstance(x, (ast.FunctionDef, ast.AsyncFunctionDef)) and x is not fn}
        # closures may read the local: leave those alone
        for sub in ast.walk(fn):
            if sub is not fn and isinstance(sub, (ast.FunctionDef, ast.AsyncFunctionDef, ast.Lambda)):
                for x in ast.walk(sub):
                    if isinstance(x, ast.Name) and x.id in cands:
                        cands.pop(x.id, None)
        for nm, asg in list(cands.items()):
            operands = {x.id for x in ast.walk(asg.value) if isinstance(x, ast.Name)}
            # the region the temporary lives in: the statements that follow its definition in the same block
            region = _following(fn, asg)
            if region is None:
                cands.pop(nm)
                continue
            in_region = {id(x) for st in region for x in ast.walk(st)}
            uses_outside = any(isinstance(x, ast.Name) and x.id == nm and isinstance(x.ctx, ast.Load) and id(x) not in in_region for x in own)
            last_use = max([k for k, st in enumerate(region) if any(isinstance(x, ast.Name) and x.id == nm and isinstance(x.ctx, ast.Load)
                                                                       for x in ast.walk(st))] or [-1])
            # operands must keep their value from the definition up to the last use (a compound statement that both uses the
            # temporary and rebinds an operand is refused as a whole)
            later_store = uses_outside or any(isinstance(x, ast.Name) and isinstance(x.ctx, (ast.Store, ast.Del)) and x.id in operands
                                              for st in region[:last_use + 1] for x in ast.walk(st))
            in_loop = False   # uses are confined to the statements following the definition in its own block
            # every read lies in the statements that follow the definition in its block (else `uses_outside`, refused above);
            # source positions are not consulted: statements written by the helper pass all carry the position of the call
            uses_before = False
            n_uses = sum(1 for x in own if isinstance(x, ast.Name) and x.id == nm and isinstance(x.ctx, ast.Load))
            # an object that is changed in place through the name (xs.append(..), xs[i] = .., xs += ..) is state, not a temporary
            mutated = False
            for x in own:
                if isinstance(x, ast.Expr) and isinstance(x.value, ast.Call) and isinstance(x.value.func, ast.Attribute) \
                        and isinstance(x.value.func.value, ast.Name) and x.value.func.value.id == nm:
                    mutated = True
                elif isinstance(x, (ast.Assign, ast.AugAssign, ast.Delete)):
                    for t in (x.targets if isinstance(x, (ast.Assign, ast.Delete)) else [x.target]):
                        b = t
                        while isinstance(b, (ast.Subscript, ast.Attribute)):
                            b = b.value
                        if isinstance(b, ast.Name) and b.id == nm and b is not t:
                            mutated = True
                elif isinstance(x, ast.Call) and any(isinstance(a, ast.Name) and a.id == nm for a in x.args) \
                        and isinstance(asg.value, (ast.List, ast.Dict, ast.Set, ast.ListComp, ast.DictComp)):
                    pass
            # ... unless the name is nothing but a handle on a part of another object (`col = atoms.chain_id; col[i] = v`, one use):
            # storing through the handle is storing through the expression
            handle = isinstance(asg.value, (ast.Attribute, ast.Subscript, ast.Name)) and _effect_free_argument(asg.value) and n_uses == 1
            if mutated and not handle:
                n_uses = 0
            # a value that builds a NEW object (operator expression, display, call) read more than once: each use would get an object
            # of its own - a write through one of them (out=, np.copyto, a call that is not known to only read) must reach the others
            if n_uses > 1 and not isinstance(asg.value, (ast.Name, ast.Attribute, ast.Subscript, ast.Constant)) \
                    and any(_writes_through(st, {nm}) for st in region):
                n_uses = 0
            # soundness of moving the expression to its uses
            has_call = any(isinstance(x, ast.Await) or (isinstance(x, ast.Call) and not (
                (isinstance(x.func, ast.Name) and x.func.id in _PURE_BUILTINS) or ast.unparse(x.func) in _PURE_DOTTED))
                for x in ast.walk(asg.value))
            use_stmts = [k for k, st in enumerate(region) if any(isinstance(x, ast.Name) and x.id == nm and isinstance(x.ctx, ast.Load)
                                                                  for x in ast.walk(st))]
            if has_call:
                # a call may have effects: it may only move into the statement that follows it directly, once
                if use_stmts != [0] or n_uses != 1 or isinstance(region[0], (ast.For, ast.While, ast.If, ast.With, ast.Try)):
                    n_uses = 0
            if use_stmts and _may_fault(asg.value):
                # an expression that reads memory or can raise must stay in its control region: it has to be evaluated
                # unconditionally by a statement of the defining block (where that statement starts, not inside an if / loop /
                # try body), and nothing before that statement may leave the block; further uses may then sit anywhere
                direct = [k for k in use_stmts if _direct_use(region[k], nm)]
                if not direct:
                    n_uses = 0
                elif any(isinstance(x, (ast.Return, ast.Raise, ast.Break, ast.Continue)) for st in region[:direct[0]] for x in ast.walk(st)):
                    n_uses = 0      # a guard clause between definition and use: the read would move behind the exit
            if use_stmts:
                # nothing between the definition and the last use may change, in place, an object the expression is built from
                # (`v[..] *= -1`, `xs.sort()`, `f(v)`) - for plain arithmetic on names as well: the names may be arrays
                # ... through any name that may refer to the same object (`u = v; m = u @ w; v[..] *= -1`)
                local_operands = (_alias.closure_of(operands, alias_groups) - {nm}) & (set(stores) | set(params) | nested_defs)
                for st in region[:use_stmts[-1]]:
                    if _writes_through(st, local_operands):
                        n_uses = 0
                # a compound statement that uses it may write before it reads
                for k in use_stmts:
                    st_ = region[k]
                    if isinstance(st_, (ast.If, ast.For, ast.While, ast.With, ast.Try)):
                        inner = [b for fld in ("body", "orelse", "finalbody") for b in getattr(st_, fld, [])] + \
                                [b for h in getattr(st_, "handlers", []) for b in h.body]
                        reads_inside = any(isinstance(x, ast.Name) and x.id == nm and isinstance(x.ctx, ast.Load) for b in inner for x in ast.walk(b))
                        if (reads_inside or isinstance(st_, ast.While)) and _writes_through(st_, local_operands):
                            n_uses = 0
            # lowered Cython: a declared C type converts on assignment; only wide types are conversion-free for what the
            # repository computes (a `char`/`uint8`/`float32` temporary narrows or changes signedness)
            if ctype is not None:
                scope = q.split("#")[0]
                ct = ctype(scope, nm).replace("const ", "").strip()
                if ct and ct != "object":
                    et = _ctype_of_expr(asg.value, lambda n_: ctype(scope, n_))
                    small_int = isinstance(asg.value, ast.Constant) and isinstance(asg.value.value, int) and not isinstance(asg.value.value, bool) \
                        and ct in _CNUM and (_CNUM[ct][0] == "f" or 0 <= asg.value.value < 2 ** (_CNUM[ct][1] - 1))
                    if not small_int and (et is None or not _conversion_free(ct, et)):
                        n_uses = 0
            if later_store or in_loop or uses_before or nm in operands or n_uses == 0:
                cands.pop(nm)
        if not cands:
            continue
        # substitute (iterate: a temp may be defined through another temp)
        for _ in range(4):
            mapping = {nm: a.value for nm, a in cands.items()}
            for nm, a in cands.items():
                a.value = _subst(a.value, {k: v for k, v in mapping.items() if k != nm})
        mapping = {nm: a.value for nm, a in cands.items()}
        drop = {id(a) for a in cands.values()}

        def rewrite(block):
            out = []
            for st in block:
                if id(st) in drop:
                    continue
                for fld in ("body", "orelse", "finalbody"):
                    if hasattr(st, fld) and isinstance(getattr(st, fld), list) and not isinstance(st, (ast.FunctionDef, ast.AsyncFunctionDef, ast.ClassDef)):
                        new = rewrite(getattr(st, fld))
                        setattr(st, fld, new if new or fld != "body" else [ast.Pass()])
                if isinstance(st, ast.Try):
                    for h in st.handlers:
                        h.body = rewrite(h.body) or [ast.Pass()]
                out.append(st)
            return out

        fn.body[:] = rewrite(fn.body) or [ast.Pass()]
        sub = _SubstNames(mapping)
        fn.body[:] = [sub.visit(st) for st in fn.body]
        n_done += len(cands)
    if n_done:
        ast.fix_missing_locations(tree)
    return n_done


def _following(fn, stmt):
    """statements after `stmt` in the block that contains it"""
    for parent in ast.walk(fn):
        for fld in ("body", "orelse", "finalbody"):
            block = getattr(parent, fld, None)
            if isinstance(block, list) and any(x is stmt for x in block):
                k = next(i for i, x in enumerate(block) if x is stmt)
                return block[k + 1:]
        if isinstance(parent, ast.Try):
            for h in parent.handlers:
                if any(x is stmt for x in h.body):
                    k = next(i for i, x in enumerate(h.body) if x is stmt)
                    return h.body[k + 1:]
    return None


def _within_loop(fn, node):
    for lp in ast.walk(fn):
        if isinstance(lp, (ast.For, ast.While)) and any(x is node for b in lp.body for x in ast.walk(b)):
            return True
    return False


class _Aug(ast.NodeTransformer):
    """`x = x op e` -> `x op= e` for plain names and for subscripts of names (one spelling for the rules)"""

    def visit_Assign(self, n):
        self.generic_visit(n)
        if len(n.targets) == 1 and isinstance(n.value, ast.BinOp) and isinstance(n.targets[0], (ast.Name, ast.Subscript)):
            t = n.targets[0]
            if ast.dump(_as_load(t)) == ast.dump(n.value.left):
                new = ast.copy_location(ast.AugAssign(target=t, op=n.value.op, value=n.value.right), n)
                # one spelling for the rules, but the difference is kept: `x = x op e` binds a NEW object to the name, a written
                # `x op= e` changes the object in place (visible to every other holder of an array / list)
                new._rebind = isinstance(t, ast.Name)
                return new
        return n


def _as_load(t):
    t = copy.deepcopy(t)
    for x in ast.walk(t):
        if hasattr(x, "ctx"):
            x.ctx = ast.Load()
    return t


def recover_private_params(tree, ref_params):
    """a private function (leading underscore) may rename its positional parameters freely: map them back by position.
    Keyword calls of the function inside the module are renamed with it."""
    n = 0
    renamed = {}
    seen = set()
    for q, fn in _iter_funcs(tree):
        if q in seen or q not in ref_params:
            continue
        seen.add(q)
        a = fn.args
        cur = [x for x in a.posonlyargs + a.args]
        ref = ref_params[q]
        if len(cur) != len(ref) or [x.arg for x in cur] == ref:
            continue
        mapping = {x.arg: r for x, r in zip(cur, ref) if x.arg != r}
        taken = {x.id for x in ast.walk(fn) if isinstance(x, ast.Name)} | {x.arg for x in cur}
        if any(r in taken and r not in mapping for r in mapping.values()):
            continue      # the reference name is used for something else now
        for x in cur:
            if x.arg in mapping:
                x.arg = mapping[x.arg]
        for x in ast.walk(fn):
            if isinstance(x, ast.Name) and x.id in mapping:
                x.id = mapping[x.id]
        renamed[q.split(".")[-1]] = mapping
        n += 1
    if renamed:
        for c in ast.walk(tree):
            if isinstance(c, ast.Call):
                fname = c.func.id if isinstance(c.func, ast.Name) else (c.func.attr if isinstance(c.func, ast.Attribute) else None)
                if fname in renamed:
                    for k in c.keywords:
                        if k.arg in renamed[fname]:
                            k.arg = renamed[fname][k.arg]
    return n


def split_new_tuple_assignments(tree, known):
    """undo 'several related assignments -> one tuple assignment': `a, b = x, y` that the reference does not have is written as
    `a = x; b = y` when that is the same (plain names on the left, none of them read on the right: Python evaluates the
    whole right side first)"""
    n = 0
    for q, fn in _iter_funcs(tree):
        keep = set(known.get(q, []))
        # the reference's own tuple assignments are recognised by their arity as well (their names may have been renamed)
        keep_arity = {t.count(",") + 1 for t in keep}

        def rewrite(block):
            nonlocal n
            out = []
            for st in block:
                for fld in ("body", "orelse", "finalbody"):
                    if hasattr(st, fld) and isinstance(getattr(st, fld), list) and not isinstance(st, (ast.FunctionDef, ast.AsyncFunctionDef, ast.ClassDef)):
                        setattr(st, fld, rewrite(getattr(st, fld)))
                if isinstance(st, ast.Try):
                    for h in st.handlers:
                        h.body = rewrite(h.body)
                if isinstance(st, ast.Assign) and len(st.targets) == 1 and isinstance(st.targets[0], (ast.Tuple, ast.List)) \
                        and len(st.targets[0].elts) in keep_arity:
                    out.append(st)
                    continue
                # `a, b, c = map(f, (x, y, z))`: the calls in order (f a plain name / dotted name: evaluated once either way)
                if isinstance(st, ast.Assign) and len(st.targets) == 1 and isinstance(st.targets[0], (ast.Tuple, ast.List)) \
                        and isinstance(st.value, ast.Call) and isinstance(st.value.func, ast.Name) and st.value.func.id == "map" \
                        and len(st.value.args) == 2 and not st.value.keywords and isinstance(st.value.args[1], (ast.Tuple, ast.List)) \
                        and len(st.value.args[1].elts) == len(st.targets[0].elts) and (isinstance(st.value.args[0], ast.Name) or _dotted_name(st.value.args[0])) \
                        and not any(isinstance(x, ast.Starred) for x in st.value.args[1].elts) and ast.unparse(st.targets[0]) not in keep:
                    fn_ = st.value.args[0]
                    st.value = ast.copy_location(ast.List(elts=[ast.Call(func=copy.deepcopy(fn_), args=[x], keywords=[]) for x in st.value.args[1].elts],
                                                          ctx=ast.Load()), st.value)
                    ast.fix_missing_locations(st)
                # `a, b, c = [f(v) for v in (x, y, z)]`: the comprehension over a literal table is its list of elements
                if isinstance(st, ast.Assign) and len(st.targets) == 1 and isinstance(st.targets[0], (ast.Tuple, ast.List)) \
                        and isinstance(st.value, (ast.ListComp, ast.GeneratorExp)) and len(st.value.generators) == 1 \
                        and not st.value.generators[0].ifs and not st.value.generators[0].is_async \
                        and isinstance(st.value.generators[0].iter, (ast.Tuple, ast.List)) \
                        and len(st.value.generators[0].iter.elts) == len(st.targets[0].elts) and ast.unparse(st.targets[0]) not in keep:
                    g_ = st.value.generators[0]
                    subs_ = _literal_iter(ast.For(target=g_.target, iter=g_.iter, body=[ast.Pass()], orelse=[]))
                    if subs_ is not None:
                        st.value = ast.copy_location(ast.List(elts=[_subst(st.value.elt, m_) for m_ in subs_], ctx=ast.Load()), st.value)
                if isinstance(st, ast.Assign) and len(st.targets) == 1 and isinstance(st.targets[0], (ast.Tuple, ast.List)) \
                        and isinstance(st.value, (ast.Tuple, ast.List)) and len(st.targets[0].elts) == len(st.value.elts) \
                        and all(isinstance(t, ast.Name) for t in st.targets[0].elts) \
                        and not any(isinstance(v, ast.Starred) for v in st.value.elts) and ast.unparse(st.targets[0]) not in keep:
                    tn = [t.id for t in st.targets[0].elts]
                    # written one after the other, value j would see the new binding of an EARLIER target k < j: it must not read it
                    # (its own old value and later targets are read before they are bound, as in the tuple form)
                    if len(set(tn)) == len(tn) and \
                            not any(isinstance(x, ast.Name) and x.id in tn[:j] for j, v in enumerate(st.value.elts) for x in ast.walk(v)):
                        for t, v in zip(st.targets[0].elts, st.value.elts):
                            a = ast.Assign(targets=[t], value=v)
                            ast.copy_location(a, st)
                            ast.fix_missing_locations(a)
                            out.append(a)
                        n += 1
                        continue
                out.append(st)
            return out
        fn.body[:] = rewrite(fn.body)
    return n


def hoist_walrus(tree):
    """`if (x := e).any(): ..` -> `x = e` in front of the statement, when the assignment expression is the first thing the
    statement evaluates (it sits on the left spine of the test / value: receiver, left operand, first argument), so that
    nothing the statement does can come before it.  Not in `while` tests, `elif` arms are handled where they are nested."""
    n = 0

    def spine(e):
        path = []
        while True:
            if isinstance(e, ast.NamedExpr):
                return e, path
            if isinstance(e, ast.Attribute):
                path.append((e, "value")); e = e.value
            elif isinstance(e, ast.Call):
                if isinstance(e.func, ast.Attribute):
                    path.append((e.func, "value")); e = e.func.value
                elif isinstance(e.func, ast.Name) and e.args and not isinstance(e.args[0], ast.Starred):
                    path.append((e, "arg0")); e = e.args[0]
                else:
                    return None, path
            elif isinstance(e, ast.Compare):
                path.append((e, "left")); e = e.left
            elif isinstance(e, ast.BinOp):
                path.append((e, "left")); e = e.left
            elif isinstance(e, ast.Subscript):
                path.append((e, "value")); e = e.value
            elif isinstance(e, ast.UnaryOp):
                path.append((e, "operand")); e = e.operand
            elif isinstance(e, ast.BoolOp):
                path.append((e, "values0")); e = e.values[0]
            else:
                return None, path

    def rewrite(block):
        nonlocal n
        out = []
        for st in block:
            for fld in ("body", "orelse", "finalbody"):
                if hasattr(st, fld) and isinstance(getattr(st, fld), list) and not isinstance(st, ast.ClassDef):
                    setattr(st, fld, rewrite(getattr(st, fld)))
            if isinstance(st, ast.Try):
                for h in st.handlers:
                    h.body = rewrite(h.body)
            holder, field = None, None
            if isinstance(st, ast.If):
                holder, field = st, "test"
            elif isinstance(st, (ast.Assign, ast.Return, ast.Expr)) and getattr(st, "value", None) is not None:
                holder, field = st, "value"       # (not `t op= v`: the target is loaded before the value)
            if holder is not None:
                e = getattr(holder, field)
                w, path = spine(e)
                if w is not None and isinstance(w.target, ast.Name):
                    name_ = ast.Name(id=w.target.id, ctx=ast.Load())
                    if not path:
                        setattr(holder, field, name_)
                    else:
                        parent, how = path[-1]
                        if how == "arg0":
                            parent.args[0] = name_
                        elif how == "values0":
                            parent.values[0] = name_
                        else:
                            setattr(parent, how, name_)
                    a = ast.Assign(targets=[ast.Name(id=w.target.id, ctx=ast.Store())], value=w.value)
                    ast.copy_location(a, st)
                    ast.fix_missing_locations(a)
                    out.append(a)
                    n += 1
            out.append(st)
        return out
    for q, fn in _iter_funcs(tree):
        if any(isinstance(x, ast.NamedExpr) for x in ast.walk(fn)):
            fn.body[:] = rewrite(fn.body)
    return n


def normalise(rel, tree, inv):
    """apply all undo-passes; `inv` is the reference inventory of the module (or None: nothing is new)"""
    if not inv:
        return {}
    done = {}
    if not inv.get("dict_comps"):
        _DictComp().visit(tree)      # comprehensions over literal tables become literals (so that a table built that way is a constant)
    if any(isinstance(x, ast.NamedExpr) for x in ast.walk(tree)):
        done["walrus"] = hoist_walrus(tree)
    done["private-params"] = recover_private_params(tree, inv.get("private_params", {}))
    # a module that reaches names by reflection more often than the reference did may bind constants / helpers where no pass
    # looks (`self.__dict__["_X"] = ..`, `globals()["T"].reverse()`, a base class made by type(..)): nothing is undone by name
    if _reflection_count(tree) > inv.get("reflection", 0):
        done["reflection"] = 0
    else:
        done["constants"] = propagate_new_constants(tree, set(inv.get("globals", [])), rel)
        done["helpers"] = inline_new_helpers(tree, set(inv.get("functions", [])), rel)
    if "tuple_assigns" in inv:
        done["tuple-assignments"] = split_new_tuple_assignments(tree, inv.get("tuple_assigns", {}))
    done["loops"] = unroll_new_literal_loops(tree, inv.get("literal_loops", {}))
    done["comprehensions"] = expand_new_literal_comprehensions(tree, inv.get("literal_comps", {}))
    from . import localnames
    if not inv.get("dict_comps"):
        _DictComp().visit(tree)      # the reference module has no dict comprehension over a literal table
        _Getattr().visit(tree)
        done["dict-locals"] = scalarise_literal_dicts(tree)
        _Getattr().visit(tree)
    done["default-keywords"] = drop_default_keywords(tree, localnames.table().get("__defaults__", {}), inv.get("call_keywords", {}))
    done["keywords"] = positionalise_new_keywords(tree, inv.get("call_positional", {}), localnames.table().get("__signatures__", {}),
                                                  inv.get("call_keywords", {}))
    while _literal_into_reduce(tree):
        pass
    _Getattr().visit(tree)
    _Aug().visit(tree)
    ast.fix_missing_locations(tree)
    return {k: v for k, v in done.items() if v}


def expand_new_literal_comprehensions(tree, known):
    """undo 'append chain -> comprehension over a table': `xs = [elt for a, b in ((..), (..)) if cond]` with a literal table is
    written out as `xs = []` followed by one (guarded) `xs.append(..)` per row.  `known`: {qualname: [text of comprehensions the
    reference has]} - those stay."""
    n = 0
    for q, fn in _iter_funcs(tree):
        keep = set(known.get(q, []))

        def rewrite(block):
            nonlocal n
            out = []
            for st in block:
                for fld in ("body", "orelse", "finalbody"):
                    if hasattr(st, fld) and isinstance(getattr(st, fld), list) and not isinstance(st, (ast.FunctionDef, ast.AsyncFunctionDef, ast.ClassDef)):
                        setattr(st, fld, rewrite(getattr(st, fld)))
                if isinstance(st, ast.Try):
                    for h in st.handlers:
                        h.body = rewrite(h.body)
                if isinstance(st, ast.Assign) and len(st.targets) == 1 and isinstance(st.targets[0], ast.Name) and isinstance(st.value, ast.ListComp) \
                        and len(st.value.generators) == 1 and not st.value.generators[0].is_async and ast.unparse(st.value) not in keep:
                    g = st.value.generators[0]
                    fake = ast.For(target=g.target, iter=g.iter, body=[ast.Pass()], orelse=[])
                    subs = _literal_iter(fake)
                    tnames = {x.id for x in ast.walk(g.target) if isinstance(x, ast.Name)}
                    name = st.targets[0].id
                    uses_self = any(isinstance(x, ast.Name) and x.id == name for x in ast.walk(st.value))
                    # a list that is only spread into calls (`f(*xs)`) is written as the literal list (the pass for temporaries and the
                    # star rewrite then give `f(a, b, c)`)
                    only_starred = not g.ifs and all(
                        any(isinstance(p_, ast.Starred) and p_.value is x for c_ in ast.walk(fn) if isinstance(c_, ast.Call) for p_ in c_.args)
                        for x in ast.walk(fn) if isinstance(x, ast.Name) and x.id == name and isinstance(x.ctx, ast.Load))
                    # ... and so is a list that is read exactly once, as a whole (`functools.reduce(operator.or_, masks)`, `max(xs)`)
                    loads_ = [x for x in ast.walk(fn) if isinstance(x, ast.Name) and x.id == name and isinstance(x.ctx, ast.Load)]
                    stores_ = [x for x in ast.walk(fn) if isinstance(x, ast.Name) and x.id == name and isinstance(x.ctx, (ast.Store, ast.Del))]
                    read_once = not g.ifs and len(loads_) == 1 and len(stores_) == 1 and not _within_loop(fn, loads_[0])
                    if subs is not None and not uses_self and isinstance(g.iter, (ast.Tuple, ast.List)) and (only_starred or read_once):
                        lit_ = ast.Assign(targets=[ast.Name(id=name, ctx=ast.Store())], value=ast.List(elts=[_subst(st.value.elt, m) for m in subs], ctx=ast.Load()))
                        ast.copy_location(lit_, st)
                        ast.fix_missing_locations(lit_)
                        out.append(lit_)
                        n += 1
                        continue
                    if subs is not None and not uses_self and isinstance(g.iter, (ast.Tuple, ast.List)):
                        new = [ast.Assign(targets=[ast.Name(id=name, ctx=ast.Store())], value=ast.List(elts=[], ctx=ast.Load()))]
                        for m in subs:
                            app = ast.Expr(value=ast.Call(func=ast.Attribute(value=ast.Name(id=name, ctx=ast.Load()), attr="append", ctx=ast.Load()),
                                                          args=[_subst(st.value.elt, m)], keywords=[]))
                            if g.ifs:
                                test = _subst(g.ifs[0], m) if len(g.ifs) == 1 else ast.BoolOp(op=ast.And(), values=[_subst(c, m) for c in g.ifs])
                                app = ast.If(test=test, body=[app], orelse=[])
                            new.append(app)
                        for x in new:
                            ast.copy_location(x, st)
                            ast.fix_missing_locations(x)
                        out.extend(new)
                        n += 1
                        continue
                out.append(st)
            return out

        fn.body[:] = rewrite(fn.body)
    return n


def scalarise_literal_dicts(tree):
    """a local bound once to a dict literal with identifier keys and used only as `**d` or `d["key"]` is replaced by one local per
    key (assigned where the dict was built, in the same order): `fields = {"a": x, "b": y}; f(**fields)` ->
    `a = x; b = y; f(a=a, b=b)` (with fresh names when `a` is taken).  Evaluation order and position are unchanged."""
    n_done = 0
    for q, fn in _iter_funcs(tree):
        own = [x for x in ast.walk(fn)]
        taken = {x.id for x in own if isinstance(x, ast.Name)} | {a.arg for a in fn.args.posonlyargs + fn.args.args + fn.args.kwonlyargs}
        stores = {}
        for x in own:
            if isinstance(x, ast.Name) and isinstance(x.ctx, (ast.Store, ast.Del)):
                stores[x.id] = stores.get(x.id, 0) + 1
        for st in [x for x in own if isinstance(x, ast.Assign) and len(x.targets) == 1 and isinstance(x.targets[0], ast.Name)
                   and isinstance(x.value, ast.Dict) and x.value.keys and all(isinstance(k, ast.Constant) and isinstance(k.value, str) and k.value.isidentifier()
                                                                               for k in x.value.keys)]:
            d = st.targets[0].id
            if stores.get(d) != 1 or len({k.value for k in st.value.keys}) != len(st.value.keys):
                continue
            uses = [x for x in own if isinstance(x, ast.Name) and x.id == d and isinstance(x.ctx, ast.Load)]
            star_uses = [k for c in own if isinstance(c, ast.Call) for k in c.keywords if k.arg is None and k.value in uses]
            sub_uses = [x for x in own if isinstance(x, ast.Subscript) and x.value in uses and isinstance(x.slice, ast.Constant)
                        and isinstance(x.ctx, ast.Load) and x.slice.value in {k.value for k in st.value.keys}]
            if len(star_uses) + len(sub_uses) != len(uses) or not uses:
                continue
            names = {}
            for k in st.value.keys:
                nm = k.value if k.value not in taken else f"_{d}_{k.value}"
                names[k.value] = nm
                taken.add(nm)
            new_assigns = [ast.copy_location(ast.Assign(targets=[ast.Name(id=names[k.value], ctx=ast.Store())], value=v), st)
                           for k, v in zip(st.value.keys, st.value.values)]
            # replace the statement and the uses
            for parent in ast.walk(fn):
                for fld in ("body", "orelse", "finalbody"):
                    blk = getattr(parent, fld, None)
                    if isinstance(blk, list) and st in blk:
                        i = blk.index(st)
                        blk[i:i + 1] = new_assigns
            for c in own:
                if isinstance(c, ast.Call) and any(k in star_uses for k in c.keywords):
                    kws = []
                    for k in c.keywords:
                        if k in star_uses:
                            kws.extend(ast.keyword(arg=key, value=ast.Name(id=nm, ctx=ast.Load())) for key, nm in names.items())
                        else:
                            kws.append(k)
                    c.keywords = kws

            class R(ast.NodeTransformer):
                def visit_Subscript(self, x):
                    self.generic_visit(x)
                    if x in sub_uses:
                        return ast.copy_location(ast.Name(id=names[x.slice.value], ctx=ast.Load()), x)
                    return x
            R().visit(fn)
            n_done += 1
    if n_done:
        ast.fix_missing_locations(tree)
    return n_done


_REDUCE_OPS = {"operator.and_": ast.BitAnd, "operator.or_": ast.BitOr, "operator.xor": ast.BitXor, "operator.add": ast.Add,
               "operator.mul": ast.Mult, "operator.matmul": ast.MatMult, "np.logical_and": None, "np.logical_or": None}
_REDUCE_OPS = {k: v for k, v in _REDUCE_OPS.items() if v is not None}


class _DictComp(ast.NodeTransformer):
    """{k: v for a, b in <literal pairs / literal dict>.items()} -> the dict literal (no condition, literal table)"""

    def _inner_literal(self, n):
        """`.. for x in (f(c) for c in ("a", "b"))`: a generator over a literal table that only feeds another comprehension is the
        tuple of its items (evaluated one by one as the outer comprehension asks for them, or all in front: pure attribute reads)"""
        for g in n.generators:
            it = g.iter
            if isinstance(it, (ast.GeneratorExp, ast.ListComp)) and len(it.generators) == 1 and not it.generators[0].ifs and not it.generators[0].is_async:
                subs = _literal_iter(ast.For(target=it.generators[0].target, iter=it.generators[0].iter, body=[ast.Pass()], orelse=[]))
                if subs is not None and isinstance(it.generators[0].iter, (ast.Tuple, ast.List)) \
                        and not any(isinstance(x, (ast.Call, ast.Await, ast.NamedExpr)) and not (isinstance(x, ast.Call) and isinstance(x.func, ast.Name) and x.func.id == "getattr")
                                    for x in ast.walk(it.elt)):
                    g.iter = ast.copy_location(ast.Tuple(elts=[_subst(it.elt, m) for m in subs], ctx=ast.Load()), it)
        return n

    def visit_ListComp(self, n):
        self.generic_visit(n)
        return self._inner_literal(n)

    def visit_GeneratorExp(self, n):
        self.generic_visit(n)
        return self._inner_literal(n)

    def visit_DictComp(self, n):
        self.generic_visit(n)
        if len(n.generators) != 1 or n.generators[0].ifs or n.generators[0].is_async:
            return n
        g = n.generators[0]
        fake = ast.For(target=g.target, iter=g.iter, body=[ast.Pass()], orelse=[])
        subs = _literal_iter(fake)
        if subs is None:
            return n
        return ast.copy_location(ast.Dict(keys=[_subst(n.key, m) for m in subs], values=[_subst(n.value, m) for m in subs]), n)

    def visit_Call(self, n):
        """tuple(f(x) for x in (a, b, c)) / list(..) over a literal table, no condition -> (f(a), f(b), f(c))"""
        self.generic_visit(n)
        if isinstance(n.func, ast.Name) and n.func.id in ("tuple", "list") and len(n.args) == 1 and not n.keywords \
                and isinstance(n.args[0], (ast.GeneratorExp, ast.ListComp)) and len(n.args[0].generators) == 1 \
                and not n.args[0].generators[0].ifs and not n.args[0].generators[0].is_async:
            g = n.args[0].generators[0]
            subs = _literal_iter(ast.For(target=g.target, iter=g.iter, body=[ast.Pass()], orelse=[]))
            if subs is not None and isinstance(g.iter, (ast.Tuple, ast.List)):
                elts = [_subst(n.args[0].elt, m) for m in subs]
                cls = ast.Tuple if n.func.id == "tuple" else ast.List
                return ast.copy_location(cls(elts=elts, ctx=ast.Load()), n)
        # any(c in value for c in (" ", "\t")) -> " " in value or "\t" in value (all -> and): for truth-valued elements the
        # built-in and the operator give the same value and evaluate the same tests in the same order
        if isinstance(n.func, ast.Name) and n.func.id in ("any", "all") and len(n.args) == 1 and not n.keywords \
                and isinstance(n.args[0], (ast.GeneratorExp, ast.ListComp)) and len(n.args[0].generators) == 1 \
                and not n.args[0].generators[0].ifs and not n.args[0].generators[0].is_async \
                and isinstance(n.args[0].generators[0].iter, (ast.Tuple, ast.List)) and len(n.args[0].generators[0].iter.elts) >= 2:
            g = n.args[0].generators[0]
            elt = n.args[0].elt
            truthy = isinstance(elt, ast.Compare) or isinstance(elt, ast.UnaryOp) and isinstance(elt.op, ast.Not) or \
                isinstance(elt, ast.Call) and (isinstance(elt.func, ast.Attribute) and elt.func.attr in ("startswith", "endswith", "isdigit", "isalpha", "isspace")
                                               or isinstance(elt.func, ast.Name) and elt.func.id in ("isinstance", "callable", "hasattr"))
            subs = _literal_iter(ast.For(target=g.target, iter=g.iter, body=[ast.Pass()], orelse=[]))
            if subs is not None and truthy:
                return ast.copy_location(ast.BoolOp(op=ast.Or() if n.func.id == "any" else ast.And(), values=[_subst(elt, m) for m in subs]), n)
        # max(f(e) for e in (a, b)) -> max(f(a), f(b)) (min likewise; at least two items): the same values in the same order.  The items
        # may contain calls when the element expression reads the loop variable exactly once, unconditionally (each item is then
        # evaluated once, in order, as in the display)
        if isinstance(n.func, ast.Name) and n.func.id in ("max", "min") and len(n.args) == 1 and not n.keywords \
                and isinstance(n.args[0], (ast.GeneratorExp, ast.ListComp)) and len(n.args[0].generators) == 1 \
                and not n.args[0].generators[0].ifs and not n.args[0].generators[0].is_async \
                and isinstance(n.args[0].generators[0].iter, (ast.Tuple, ast.List)) and len(n.args[0].generators[0].iter.elts) >= 2 \
                and isinstance(n.args[0].generators[0].target, ast.Name) \
                and not any(isinstance(x, ast.Starred) for x in n.args[0].generators[0].iter.elts):
            g = n.args[0].generators[0]
            cnt, uncond = _unconditional_reads(n.args[0].elt, g.target.id)
            plain = all(_effect_free_argument(x) for x in g.iter.elts)
            if cnt >= 1 and (plain or (cnt == 1 and uncond)):
                return ast.copy_location(ast.Call(func=n.func, args=[_subst(n.args[0].elt, {g.target.id: x}) for x in g.iter.elts], keywords=[]), n)
        # functools.reduce(operator.and_, (f(i, j) for i, j in ((0, 1), (0, 2), (1, 2)))) -> f(0, 1) & f(0, 2) & f(1, 2)
        # (left fold, no initial value, at least one item: exactly what reduce computes)
        fn = ast.unparse(n.func)
        if fn in ("functools.reduce", "reduce") and len(n.args) == 2 and not n.keywords and ast.unparse(n.args[0]) in _REDUCE_OPS:
            seq = n.args[1]
            elts = None
            if isinstance(seq, (ast.Tuple, ast.List)) and not any(isinstance(x, ast.Starred) for x in seq.elts):
                elts = list(seq.elts)
            elif isinstance(seq, (ast.GeneratorExp, ast.ListComp)) and len(seq.generators) == 1 and not seq.generators[0].ifs \
                    and not seq.generators[0].is_async and isinstance(seq.generators[0].iter, (ast.Tuple, ast.List)):
                g = seq.generators[0]
                subs = _literal_iter(ast.For(target=g.target, iter=g.iter, body=[ast.Pass()], orelse=[]))
                if subs is not None:
                    elts = [_subst(seq.elt, m) for m in subs]
            if elts:
                acc = elts[0]
                for e in elts[1:]:
                    acc = ast.BinOp(left=acc, op=_REDUCE_OPS[ast.unparse(n.args[0])](), right=e)
                return ast.copy_location(acc, n)
        return n


def finish(tree, inv=None):
    """spelling normalisations that may become applicable after temporaries were inlined (a table bound to a name first and
    looped over afterwards is a literal loop once the name is gone)"""
    if inv:
        unroll_new_literal_loops(tree, inv.get("literal_loops", {}))
        expand_new_literal_comprehensions(tree, inv.get("literal_comps", {}))
        if not inv.get("dict_comps"):
            _DictComp().visit(tree)
        # (no module of the reference tree calls functools.reduce)
        while _literal_into_reduce(tree):
            pass
    _Getattr().visit(tree)
    _Aug().visit(tree)
    ast.fix_missing_locations(tree)
