"""Small helpers over the stdlib ast."""

import ast
import operator


def dotted(node):
    """'a.b.c' for Name/Attribute chains, else None"""
    parts = []
    while isinstance(node, ast.Attribute):
        parts.append(node.attr)
        node = node.value
    if isinstance(node, ast.Name):
        parts.append(node.id)
        return ".".join(reversed(parts))
    if isinstance(node, ast.Call) and isinstance(node.func, ast.Name) and node.func.id == "super":
        parts.append("super()")
        return ".".join(reversed(parts))
    return None


def call_name(call):
    return dotted(call.func)


def walk_local(node):
    """ast.walk that does not descend into nested function/class definitions
    (the root itself may be a function)"""
    stack = list(ast.iter_child_nodes(node))
    while stack:
        n = stack.pop()
        yield n
        if isinstance(n, (ast.FunctionDef, ast.AsyncFunctionDef, ast.ClassDef, ast.Lambda)):
            continue
        stack.extend(ast.iter_child_nodes(n))


def calls(node, local=True):
    it = walk_local(node) if local else ast.walk(node)
    return [n for n in it if isinstance(n, ast.Call)]


def calls_named(node, *names):
    out = []
    for c in calls(node):
        cn = call_name(c)
        if cn is None:
            continue
        if cn in names or cn.split(".")[-1] in names:
            out.append(c)
    return sorted(out, key=lambda c: (c.lineno, c.col_offset))


def stmts(node):
    """all statements inside a function, nested defs excluded, in source order"""
    out = [n for n in walk_local(node) if isinstance(n, ast.stmt)]
    return sorted(out, key=lambda n: (n.lineno, n.col_offset))


def targets_of(st):
    """flattened assignment targets of a statement"""
    ts = []
    if isinstance(st, ast.Assign):
        ts = list(st.targets)
    elif isinstance(st, (ast.AugAssign, ast.AnnAssign)):
        ts = [st.target]
    elif isinstance(st, (ast.For, ast.AsyncFor)):
        ts = [st.target]
    elif isinstance(st, ast.Delete):
        ts = list(st.targets)
    elif isinstance(st, (ast.With, ast.AsyncWith)):
        ts = [i.optional_vars for i in st.items if i.optional_vars is not None]
    out = []

    def flat(t):
        if isinstance(t, (ast.Tuple, ast.List)):
            for e in t.elts:
                flat(e)
        elif isinstance(t, ast.Starred):
            flat(t.value)
        else:
            out.append(t)

    for t in ts:
        flat(t)
    return out


def attr_writes(func, base="self"):
    """[(attr, stmt, target)] for writes  base.attr = / base.attr[...] = /
    del base.attr[...] / base.attr op= inside func"""
    out = []
    for st in stmts(func):
        for t in targets_of(st):
            root = t
            sub = False
            while isinstance(root, ast.Subscript):
                root = root.value
                sub = True
            if (
                isinstance(root, ast.Attribute)
                and isinstance(root.value, ast.Name)
                and root.value.id == base
            ):
                out.append((root.attr, st, t))
    return out


def names_in(node):
    return {n.id for n in ast.walk(node) if isinstance(n, ast.Name)}


def attrs_in(node, base="self"):
    return {
        n.attr
        for n in ast.walk(node)
        if isinstance(n, ast.Attribute)
        and isinstance(n.value, ast.Name)
        and n.value.id == base
    }


_BIN = {
    ast.Add: operator.add,
    ast.Sub: operator.sub,
    ast.Mult: operator.mul,
    ast.FloorDiv: operator.floordiv,
    ast.Div: operator.truediv,
    ast.Mod: operator.mod,
    ast.Pow: operator.pow,
    ast.LShift: operator.lshift,
    ast.RShift: operator.rshift,
    ast.BitOr: operator.or_,
    ast.BitAnd: operator.and_,
    ast.BitXor: operator.xor,
}


class NotConst(Exception):
    pass


class Sym:
    """opaque symbolic value, equal only to a Sym of the same text
    (used for enum members such as BondType.SINGLE)"""

    def __init__(self, text):
        self.text = text

    def __eq__(self, o):
        return isinstance(o, Sym) and o.text == self.text

    def __hash__(self):
        return hash(("Sym", self.text))

    def __repr__(self):
        return self.text


_CMP = {
    ast.Eq: lambda a, b: a == b, ast.NotEq: lambda a, b: a != b,
    ast.Lt: lambda a, b: a < b, ast.LtE: lambda a, b: a <= b,
    ast.Gt: lambda a, b: a > b, ast.GtE: lambda a, b: a >= b,
    ast.In: lambda a, b: a in b, ast.NotIn: lambda a, b: a not in b,
}


def const_eval(node, env=None, sym_attrs=True, sym_names=False):
    if sym_names:
        return _const_eval_sym_names(node, env or {}, sym_attrs)
    return _const_eval(node, env, sym_attrs)


def _const_eval_sym_names(node, env, sym_attrs):
    """like const_eval, but unknown plain names become Sym values too"""
    env = dict(env)
    for n in ast.walk(node):
        if isinstance(n, ast.Name) and n.id not in env and n.id not in ("True", "False", "None") \
                and isinstance(n.ctx, ast.Load):
            env[n.id] = Sym(n.id)
    # comprehension targets must stay unbound
    for n in ast.walk(node):
        if isinstance(n, ast.comprehension):
            for t in ast.walk(n.target):
                if isinstance(t, ast.Name):
                    env.pop(t.id, None)
    return _const_eval(node, env, sym_attrs)


def _const_eval(node, env=None, sym_attrs=True):
    """Evaluate a literal expression from the AST without executing code.
    Names resolve through `env`; dotted names not in env become Sym values
    when sym_attrs is set."""
    env = env or {}
    if isinstance(node, ast.Constant):
        return node.value
    if isinstance(node, ast.Name):
        if node.id in env:
            return env[node.id]
        if node.id in ("True", "False", "None"):
            return {"True": True, "False": False, "None": None}[node.id]
        raise NotConst(node.id)
    if isinstance(node, ast.Attribute):
        d = dotted(node)
        if d is not None:
            if d in env:
                return env[d]
            if sym_attrs:
                return Sym(d)
        raise NotConst(ast.unparse(node))
    if isinstance(node, ast.Tuple):
        return tuple(_const_eval(e, env, sym_attrs) for e in node.elts)
    if isinstance(node, ast.List):
        return [_const_eval(e, env, sym_attrs) for e in node.elts]
    if isinstance(node, ast.Set):
        return {_const_eval(e, env, sym_attrs) for e in node.elts}
    if isinstance(node, ast.Dict):
        d = {}
        for k, v in zip(node.keys, node.values):
            if k is None:
                d.update(_const_eval(v, env, sym_attrs))
            else:
                d[_const_eval(k, env, sym_attrs)] = _const_eval(v, env, sym_attrs)
        return d
    if isinstance(node, ast.UnaryOp):
        v = _const_eval(node.operand, env, sym_attrs)
        if isinstance(node.op, ast.USub):
            return -v
        if isinstance(node.op, ast.UAdd):
            return +v
        if isinstance(node.op, ast.Not):
            return not v
        if isinstance(node.op, ast.Invert):
            return ~v
    if isinstance(node, ast.BinOp) and type(node.op) in _BIN:
        return _BIN[type(node.op)](
            _const_eval(node.left, env, sym_attrs), _const_eval(node.right, env, sym_attrs)
        )
    if isinstance(node, ast.BoolOp):
        vals = [_const_eval(v, env, sym_attrs) for v in node.values]
        return all(vals) if isinstance(node.op, ast.And) else any(vals)
    if isinstance(node, ast.Compare) and all(type(o) in _CMP for o in node.ops):
        left = _const_eval(node.left, env, sym_attrs)
        for o, c in zip(node.ops, node.comparators):
            right = _const_eval(c, env, sym_attrs)
            if not _CMP[type(o)](left, right):
                return False
            left = right
        return True
    if isinstance(node, ast.Call):
        fn = dotted(node.func)
        if fn == "len" and len(node.args) == 1:
            return len(_const_eval(node.args[0], env, sym_attrs))
        if fn == "ord" and len(node.args) == 1:
            return ord(_const_eval(node.args[0], env, sym_attrs))
        if fn in ("frozenset", "set", "tuple", "list", "dict") and len(node.args) <= 1 and not node.keywords:
            ctor = {"frozenset": frozenset, "set": set, "tuple": tuple, "list": list, "dict": dict}[fn]
            if not node.args:
                return ctor()
            return ctor(_const_eval(node.args[0], env, sym_attrs))
    if isinstance(node, ast.DictComp) and len(node.generators) == 1:
        g = node.generators[0]
        it = _const_eval(g.iter, env, sym_attrs)
        out = {}
        for item in it:
            e2 = dict(env)
            _bind(g.target, item, e2)
            if all(_const_eval(c, e2, sym_attrs) for c in g.ifs):
                out[_const_eval(node.key, e2, sym_attrs)] = _const_eval(node.value, e2, sym_attrs)
        return out
    if isinstance(node, ast.Call) and isinstance(node.func, ast.Attribute) and node.func.attr == "items" and not node.args:
        return list(_const_eval(node.func.value, env, sym_attrs).items())
    if isinstance(node, ast.JoinedStr):
        parts = []
        for v in node.values:
            if isinstance(v, ast.Constant):
                parts.append(str(v.value))
            else:
                raise NotConst("f-string")
        return "".join(parts)
    raise NotConst(ast.unparse(node)[:60])


def _bind(target, value, env):
    if isinstance(target, ast.Name):
        env[target.id] = value
    elif isinstance(target, (ast.Tuple, ast.List)):
        vals = list(value)
        if len(vals) != len(target.elts):
            raise NotConst("unpack")
        for t, v in zip(target.elts, vals):
            _bind(t, v, env)
    else:
        raise NotConst("bind")


def enum_members(clsnode):
    """{name: value node} of simple `NAME = expr` assignments in a class body"""
    out = {}
    for st in clsnode.body:
        if isinstance(st, ast.Assign) and len(st.targets) == 1 and isinstance(st.targets[0], ast.Name):
            out[st.targets[0].id] = st.value
    return out


def has_decorator(func, name):
    for d in func.decorator_list:
        dn = dotted(d.func if isinstance(d, ast.Call) else d)
        if dn and dn.split(".")[-1] == name:
            return d
    return None


def param_names(func):
    a = func.args
    names = [x.arg for x in a.posonlyargs + a.args]
    if a.vararg:
        names.append(a.vararg.arg)
    names += [x.arg for x in a.kwonlyargs]
    if a.kwarg:
        names.append(a.kwarg.arg)
    return names


def is_docstring(st):
    return (
        isinstance(st, ast.Expr)
        and isinstance(st.value, ast.Constant)
        and isinstance(st.value.value, str)
    )


def body_nodoc(func):
    b = func.body
    if b and is_docstring(b[0]):
        return b[1:]
    return b
