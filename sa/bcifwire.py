"""
Wire agreement of the BinaryCIF component classes (bcif.py): what serialize()
writes is what deserialize() reads, and it comes back into the attribute it
came from.  Decided per class from the two methods and the constructor:

  keys        the keys of the dict literal serialize() returns == the keys
              deserialize() subscripts `content` with
  attribute   the value written under a key derives from attribute A; the
              deserializer passes content[key] to the constructor parameter
              that __init__ stores in A
  elements    _serialize_elements(K) and _deserialize_elements(..., K) use the
              same element key K
  prefix      a prefix added to names by the constructor is removed exactly
              once by deserialize()/__iter__ (removeprefix / [1:]), never by
              lstrip
  codec       serialize() encodes with encode_stepwise(array, encoding),
              deserialize() decodes with decode_stepwise(data, that encoding)
"""

import ast

from .astutil import call_name, calls, param_names, stmts
from .exprnorm import summarize

BCIF = "structure/io/pdbx/bcif.py"
CLASSES = ["BinaryCIFData", "BinaryCIFColumn", "BinaryCIFCategory", "BinaryCIFBlock", "BinaryCIFFile"]


def _content_keys(e, pname="content"):
    out = []
    for n in ast.walk(e):
        if isinstance(n, ast.Subscript) and isinstance(n.value, ast.Name) and n.value.id == pname \
                and isinstance(n.slice, ast.Constant) and isinstance(n.slice.value, str):
            out.append(n.slice.value)
    return out


def _value_keys(e, pname="content"):
    """content keys in value position (tests of conditionals only guard)"""
    if isinstance(e, ast.IfExp):
        return _value_keys(e.body, pname) + _value_keys(e.orelse, pname)
    return _content_keys(e, pname)


def _self_attrs(e):
    out = []
    for n in ast.walk(e):
        if isinstance(n, ast.Attribute) and isinstance(n.value, ast.Name) and n.value.id == "self":
            out.append(n.attr)
    return out


def check(ctx, rule):
    s = ctx.src(BCIF)
    n_keys = 0
    for cls in CLASSES:
        ms = s.methods(cls)
        ctx.need("serialize" in ms and "deserialize" in ms, f"{cls}.serialize/deserialize")
        ser, des = ms["serialize"], ms["deserialize"]
        ssum, dsum = summarize(ser), summarize(des)
        ctx.need(isinstance(ssum.result, ast.Dict) and dsum.result is not None, f"{cls}: serialize returns a dict literal")
        wkeys = [k.value for k in ssum.result.keys if isinstance(k, ast.Constant)]
        rkeys = _content_keys(dsum.result, param_names(des)[0])
        n_keys += len(wkeys)
        ctx.ob(f"{rule}.keys", BCIF, cls, f"written {sorted(wkeys)} read {sorted(set(rkeys))}", set(wkeys) == set(rkeys),
               f"{cls}.serialize writes the keys {sorted(wkeys)} but deserialize reads {sorted(set(rkeys))}", ser.lineno)
        # element key
        se = [ast.unparse(c.args[0]) for c in calls(ser) if (call_name(c) or "").endswith("_serialize_elements") and c.args]
        de = [ast.unparse(c.args[1]) for c in calls(des) if (call_name(c) or "").endswith("_deserialize_elements") and len(c.args) > 1]
        if se or de:
            ctx.ob(f"{rule}.elements", BCIF, cls, f"_serialize_elements({se}) / _deserialize_elements(..., {de})", se == de and len(se) == 1,
                   "the sub-components are written and read under different element keys", ser.lineno)
        # attribute round trip through the constructor
        init = ms.get("__init__")
        ctor = dsum.result
        if isinstance(ctor, ast.Call) and call_name(ctor) == cls and init is not None and cls in ("BinaryCIFData", "BinaryCIFColumn", "BinaryCIFCategory"):
            ips = param_names(init)[1:]
            isum = summarize(init)
            # parameter -> attribute it is stored in (follow local rebinding of the parameter)
            p2a = {}
            for direct in (True, False):
                for st in stmts(init):
                    if isinstance(st, ast.Assign) and isinstance(st.targets[0], ast.Attribute) and isinstance(st.targets[0].value, ast.Name) \
                            and st.targets[0].value.id == "self":
                        if direct and isinstance(st.value, ast.Name) and st.value.id in ips:
                            p2a.setdefault(st.value.id, st.targets[0].attr)
                        elif not direct:
                            used = [n.id for n in ast.walk(st.value) if isinstance(n, ast.Name) and n.id in ips]
                            if len(set(used)) == 1 and st.targets[0].attr not in p2a.values():
                                p2a.setdefault(used[0], st.targets[0].attr)
                            elif len(set(used)) > 1 and st.targets[0].attr not in p2a.values() and st.targets[0].attr.lstrip("_") in used:
                                # (`self._encoding = default(array) if encoding is None else list(encoding)`: the attribute holds the
                                # parameter it is named after; the other one only feeds the default)
                                p2a.setdefault(st.targets[0].attr.lstrip("_"), st.targets[0].attr)
            for c in calls(init):
                if call_name(c) == "super().__init__" and c.args and isinstance(c.args[0], ast.Name) and c.args[0].id in ips:
                    p2a[c.args[0].id] = "_elements"
            for key, val in zip(ssum.result.keys, ssum.result.values):
                k = key.value
                attrs = [a for a in _self_attrs(val) if a != "_serialize_elements"]
                wattr = attrs[0] if attrs else ("_elements" if "_serialize_elements" in ast.unparse(val) else None)
                if wattr == "row_count":
                    wattr = "_row_count"
                # which constructor argument receives content[k] first
                ridx = next((i for i, a in enumerate(ctor.args) if _value_keys(a, param_names(des)[0])[:1] == [k]), None)
                rattr = p2a.get(ips[ridx]) if ridx is not None and ridx < len(ips) else None
                ctx.ob(f"{rule}.attribute", BCIF, cls, f"'{k}': written from self.{wattr}, read into self.{rattr}",
                       wattr is not None and wattr == rattr,
                       f"{cls}: the value written under '{k}' comes from self.{wattr} but is read back into self.{rattr}", ser.lineno)
    ctx.floor(f"{rule}.keys", n_keys, 8)
    # codec pairing
    ms = s.methods("BinaryCIFData")
    ssum, dsum = summarize(ms["serialize"]), summarize(ms["deserialize"])
    enc = [c for c in ast.walk(ssum.result) if isinstance(c, ast.Call) and call_name(c) == "encode_stepwise"]
    dec = [c for c in ast.walk(dsum.result) if isinstance(c, ast.Call) and call_name(c) == "decode_stepwise"]
    okc = len(enc) == 1 and len(dec) == 1 and [ast.unparse(a) for a in enc[0].args] == ["self._array", "self._encoding"] \
        and _content_keys(dec[0].args[0]) == ["data"] and _content_keys(dec[0].args[1]) == ["encoding"] \
        and isinstance(dsum.result, ast.Call) and len(dsum.result.args) == 2 and ast.dump(dsum.result.args[1]) == ast.dump(dec[0].args[1])
    ctx.ob(f"{rule}.codec", BCIF, "BinaryCIFData", "encode_stepwise(array, encoding) <-> decode_stepwise(content['data'], encoding)", okc,
           "data are decoded with the encoding list stored next to them, and the object keeps that list", ms["serialize"].lineno)
    lst = [c for c in ast.walk(ssum.result) if isinstance(c, ast.ListComp)]
    okl = any(ast.unparse(l.elt).endswith(".serialize()") and ast.unparse(l.generators[0].iter) == "self._encoding" for l in lst)
    dl = [c for c in ast.walk(dsum.result) if isinstance(c, ast.ListComp)]
    okd = any(call_name(l.elt) == "deserialize_encoding" and _content_keys(l.generators[0].iter) == ["encoding"] for l in dl if isinstance(l.elt, ast.Call))
    ctx.ob(f"{rule}.codec-order", BCIF, "BinaryCIFData", "encodings serialised and deserialised in list order", okl and okd,
           "the chain of encodings is written and read element by element in order", ms["serialize"].lineno)
    # mask optional on both sides
    ms = s.methods("BinaryCIFColumn")
    ssum, dsum = summarize(ms["serialize"]), summarize(ms["deserialize"])
    mv = dict(zip([k.value for k in ssum.result.keys], ssum.result.values)).get("mask")
    okm = isinstance(mv, ast.IfExp) and "self._mask" in ast.unparse(mv.test) and isinstance(dsum.result, ast.Call) \
        and len(dsum.result.args) == 2 and isinstance(dsum.result.args[1], ast.IfExp) and _content_keys(dsum.result.args[1].test) == ["mask"]
    ctx.ob(f"{rule}.mask-optional", BCIF, "BinaryCIFColumn", "mask: None <-> None", okm,
           "a column without mask is written with mask None and read back without mask", ms["serialize"].lineno)
    # prefix
    blk = s.methods("BinaryCIFBlock")
    adds = [n for n in ast.walk(blk["__init__"]) if isinstance(n, ast.BinOp) and isinstance(n.op, ast.Add)
            and isinstance(n.left, ast.Constant) and isinstance(n.left.value, str)]
    ctx.need(len(adds) >= 1, "BinaryCIFBlock.__init__ prefixes category names")
    pre = adds[0].left.value
    for m in ("deserialize", "__iter__"):
        f = blk[m]
        exact = [n for n in ast.walk(f) if
                 (isinstance(n, ast.Call) and isinstance(n.func, ast.Attribute) and n.func.attr == "removeprefix"
                  and n.args and isinstance(n.args[0], ast.Constant) and n.args[0].value == pre)
                 or (isinstance(n, ast.Subscript) and isinstance(n.slice, ast.Slice) and isinstance(n.slice.lower, ast.Constant)
                     and n.slice.lower.value == len(pre) and n.slice.upper is None)]
        greedy = [n for n in ast.walk(f) if isinstance(n, ast.Call) and isinstance(n.func, ast.Attribute)
                  and n.func.attr in ("lstrip", "strip", "replace")]
        ctx.ob(f"{rule}.prefix", BCIF, f"BinaryCIFBlock.{m}", f"{pre!r} + name <-> removeprefix({pre!r})", len(exact) == 1 and not greedy,
               f"the prefix {pre!r} the constructor adds to a category name must be removed exactly once (a name that itself starts "
               f"with {pre!r} comes back shortened or collides otherwise)", f.lineno)
    for m in ("__getitem__", "__setitem__", "__delitem__", "__contains__"):
        f = blk[m]
        ok = any(isinstance(n, ast.BinOp) and isinstance(n.op, ast.Add) and isinstance(n.left, ast.Constant) and n.left.value == pre
                 and isinstance(n.right, ast.Name) and n.right.id == param_names(f)[1] for n in ast.walk(f))
        ctx.ob(f"{rule}.prefix", BCIF, f"BinaryCIFBlock.{m}", f"{pre!r} + key", ok,
               "stored names carry the prefix: every access by the public name must add it", f.lineno)
    # file level: write() adds only metadata keys, read() goes through deserialize
    fl = s.methods("BinaryCIFFile")
    extra = {t.slice.value for st in stmts(fl["write"]) if isinstance(st, ast.Assign) for t in st.targets
             if isinstance(t, ast.Subscript) and isinstance(t.slice, ast.Constant) and ast.unparse(t.value) == "serialized_content"}
    # (the same keys given in a dict display around the serialised content: {**self.serialize(), "encoder": .., "version": ..})
    for d_ in ast.walk(fl["write"]):
        if isinstance(d_, ast.Dict) and any(k_ is None and isinstance(v_, ast.Call) and (call_name(v_) or "").endswith(".serialize")
                                            for k_, v_ in zip(d_.keys, d_.values)):
            extra |= {k_.value if isinstance(k_, ast.Constant) else ast.unparse(k_) for k_ in d_.keys if k_ is not None}
    # (.. or added with `content.update({...})`, the table given in place or as a module-level constant)
    for u_ in ast.walk(fl["write"]):
        if isinstance(u_, ast.Call) and isinstance(u_.func, ast.Attribute) and u_.func.attr == "update" and len(u_.args) == 1 and not u_.keywords:
            tab_ = u_.args[0]
            if isinstance(tab_, ast.Name):
                tab_ = s.module_assign(tab_.id) if hasattr(s, "module_assign") else None
            if isinstance(tab_, ast.Dict):
                extra |= {k_.value if isinstance(k_, ast.Constant) else ast.unparse(k_) for k_ in tab_.keys if k_ is not None}
    extra = sorted(extra)
    # everything that can refuse (serialisation, packing) happens before the target is opened for writing: a refused write leaves the
    # file that was there as it was
    wf_ = ctx.src(BCIF).func("BinaryCIFFile.write")
    opens_ = [c for c in ast.walk(wf_) if isinstance(c, ast.Call) and call_name(c) == "open"]
    # (whether the handle is made in the `with` header or bound to a name first: nothing that serialises stands behind the call)
    inside_ = [c for o_ in opens_ for c in ast.walk(wf_) if isinstance(c, ast.Call) and (c.lineno, c.col_offset) > (o_.lineno, o_.col_offset)
               and ((call_name(c) or "").split(".")[-1] in ("serialize", "packb", "pack", "dumps") or (call_name(c) or "") in ("self.write", "BinaryCIFFile.write"))]
    ctx.ob(f"{rule}.serialised-before-opening", BCIF, "BinaryCIFFile.write", f"{len(opens_)} open(..) call(s), {len(inside_)} serialising call(s) behind one",
           len(opens_) == 1 and not inside_,
           "opening the path for writing empties the file: a SerializationError raised afterwards leaves an empty file where a valid one was", wf_.lineno)
    ctx.ob(f"{rule}.file-keys", BCIF, "BinaryCIFFile.write", f"extra keys {extra}", extra == ["encoder", "version"],
           "write() adds only the specification's metadata keys to the serialised content", fl["write"].lineno)
    packs = [c for c in calls(fl["write"]) if call_name(c) == "msgpack.packb"]
    unp = [c for c in calls(fl["read"]) if call_name(c) == "msgpack.unpackb"]
    okp = len(packs) == 1 and any(k.arg == "use_bin_type" and ast.unparse(k.value) == "True" for k in packs[0].keywords) \
        and len(unp) >= 1 and all(any(k.arg == "raw" and ast.unparse(k.value) == "False" for k in u.keywords) for u in unp)
    ctx.ob(f"{rule}.msgpack-types", BCIF, "BinaryCIFFile", "packb(use_bin_type=True) / unpackb(raw=False)", okp,
           "bytes and str must stay distinguishable on the wire (data are bytes, keys and kinds are str)", fl["write"].lineno)
    # the packer's options are the lossless ones: nothing that narrows a value on its way into the file (use_single_float writes
    # the float parameters of FixedPoint / IntervalQuantization encodings as binary32)
    LOSSLESS_PACK = {"use_bin_type": ("True",), "default": None, "strict_types": None, "unicode_errors": None, "datetime": ("False",)}
    for c_ in packs:
        bad = [k.arg for k in c_.keywords if k.arg not in LOSSLESS_PACK or (LOSSLESS_PACK[k.arg] is not None and ast.unparse(k.value) not in LOSSLESS_PACK[k.arg])]
        ctx.ob(f"{rule}.msgpack-lossless", BCIF, "BinaryCIFFile.write", "packb options " + str(sorted(k.arg or "**" for k in c_.keywords)), not bad,
               f"packer option {bad[0] if bad else ''} changes values on their way into the file (floats are narrowed to binary32 by use_single_float)",
               c_.lineno)
        # ... and the hook the packer calls for what it cannot serialise itself (NumPy scalars: the parameters of FixedPoint /
        # IntervalQuantization / Delta encodings) hands back the Python value of the scalar: `.item()` keeps a float a float,
        # `int(..)` would truncate it.  The hook is compared as a whole function with that definition
        hooks = [k.value for k in c_.keywords if k.arg == "default"]
        for h in hooks:
            if isinstance(h, ast.Name) and h.id in s.funcs:
                from .equiv import same_function
                hf = s.funcs[h.id]
                prm = param_names(hf)[0]
                okh, shown = same_function(hf, f"def {hf.name}({prm}):\n    if isinstance({prm}, np.generic):\n        return {prm}.item()\n"
                                               f"    else:\n        raise TypeError('x')\n")
                ctx.ob(f"{rule}.msgpack-lossless", BCIF, hf.name, "NumPy scalar -> scalar.item()", okh,
                       "the packer's fallback for NumPy scalars must hand back the scalar's own Python value (float parameters stay "
                       "floats); the code computes " + shown, hf.lineno)
            else:
                ctx.ob(f"{rule}.msgpack-lossless", BCIF, "BinaryCIFFile.write", "default hook is a function of the module", False,
                       "the packer's fallback hook cannot be resolved", c_.lineno)
    okr = all(call_name(p) in ("BinaryCIFFile.deserialize", "cls.deserialize") for p in [c for c in calls(fl["read"]) if any(u is a for u in unp for a in c.args)])
    ctx.ob(f"{rule}.read-deserialises", BCIF, "BinaryCIFFile.read", "BinaryCIFFile.deserialize(msgpack.unpackb(...))", okr and bool(unp),
           "read() builds the file from the unpacked content", fl["read"].lineno)
