"""
One may-alias judgement for the whole engine: which names may the value of an expression share storage with?

`roots(e, al)` - `al` maps a name to the set of origins it may refer to (None: every name is its own origin).

    x, x.a, x[i], x[a:b], *x            the object, a part of its state, an element, a view
    a if c else b, a or b, (y := a)     either operand
    [a, b], (a, b), {k: a}              the container holds the objects
    lambda: .. x .., comprehension      captures / iterates what it mentions
    +x   (lowered Cython `&x`)          a pointer to x
    np.asarray(a), a.reshape(..), a.astype(t, copy=<not literally True>), np.array(a, copy=<not True>), d.get(k), d.items()
                                        documented views / elements of the argument or receiver
    (lambda v: v)(a), table[k](a), f(a) with f a LOCAL callable (parameter, nested def, local lambda)
                                        a callee that is written on the spot may hand back its argument: may-alias
    g(a) with g a function of the module: `on_call` (effects: the callee's own return summary)
    every other call                    a new object (library functions, constructors, arithmetic, comparisons, literals)
"""

import ast

from .astutil import call_name

# numpy functions that hand back (a view of) their first argument
VIEW_FUNCS = {"asarray", "asanyarray", "ascontiguousarray", "asfortranarray", "atleast_1d", "atleast_2d", "atleast_3d", "ravel", "reshape",
              "squeeze", "transpose", "swapaxes", "moveaxis", "rollaxis", "broadcast_to", "broadcast_arrays", "expand_dims", "frombuffer",
              "flipud", "fliplr", "flip", "diagonal", "real", "imag", "split", "array_split", "hsplit", "vsplit", "dsplit", "nditer",
              "as_strided", "sliding_window_view", "require", "array", "rot90", "tril", "triu", "view", "nan_to_num", "meshgrid"}
# methods that hand back (a view of / an element of) their receiver
VIEW_METHODS = {"view", "reshape", "ravel", "squeeze", "transpose", "swapaxes", "get", "items", "values", "keys", "pop", "setdefault",
                "popitem", "__getitem__", "__iter__", "__enter__", "newbyteorder", "diagonal", "getfield"}
# methods that never change their receiver (str / ndarray / set / dict readers)
PURE_METHODS = {"copy", "tolist", "sum", "mean", "min", "max", "any", "all", "nonzero", "cumsum", "cumprod", "argsort", "argmax", "argmin",
                "flatten", "tobytes", "join", "split", "rsplit", "strip", "lstrip", "rstrip", "format", "lower", "upper",
                "encode", "decode", "count", "index", "startswith", "endswith", "find", "rfind", "replace", "isdigit", "isalpha", "isalnum",
                "isupper", "islower", "title", "capitalize", "std", "var", "prod", "dot", "round", "item", "ljust", "rjust", "zfill", "center",
                "splitlines", "isspace", "union", "intersection", "difference", "symmetric_difference", "issubset", "issuperset",
                "isdisjoint", "bit_length", "is_integer", "conjugate", "trace", "ptp", "searchsorted", "repeat", "astype", "reshape",
                "ravel", "squeeze", "transpose", "swapaxes", "view", "get", "items", "keys", "values", "extends", "as_array", "as_item",
                "__len__", "__eq__", "__ne__", "__lt__", "__le__", "__gt__", "__ge__", "__hash__", "__str__", "__repr__", "__contains__"}
# builtins / numpy functions that only read their arguments (numpy: everything but the first-argument writers, without out=)
PURE_FUNCS = {"len", "int", "float", "bool", "str", "bytes", "repr", "ord", "chr", "hash", "abs", "round", "sum", "min", "max", "any", "all",
              "isinstance", "issubclass", "hasattr", "callable", "range", "sorted", "list", "tuple", "set", "frozenset", "dict", "format",
              "divmod", "pow", "id", "type", "print", "enumerate", "zip", "reversed", "iter", "slice", "getattr"}
NP_FIRST_ARG_WRITERS = {"copyto", "put", "place", "putmask", "put_along_axis", "fill_diagonal", "shuffle"}


def reads_only(c):
    """a call that is known not to change any object it is handed or called on"""
    fn = call_name(c) or ""
    if isinstance(c.func, ast.Name):
        return c.func.id in PURE_FUNCS
    tail = _np_tail(fn)
    if tail is not None:
        last = tail.split(".")[-1]
        return last not in NP_FIRST_ARG_WRITERS and last != "at" and not any(k.arg == "out" for k in c.keywords) \
            and not tail.startswith("random.")
    if isinstance(c.func, ast.Attribute):
        return c.func.attr in PURE_METHODS and not any(k.arg == "out" for k in c.keywords)
    return False


IMMUTABLE_ATTRS = {"shape", "ndim", "size", "dtype", "itemsize", "nbytes", "name", "__name__"}


def _np_tail(fn):
    return fn.split(".", 1)[1] if fn.startswith(("np.", "numpy.")) else None


def _could_be_false(e):
    """a `copy=` argument that is not known to be true"""
    return not (isinstance(e, ast.Constant) and e.value is True)


def call_kind(c, local_callables=()):
    """'fresh' (a new object), 'first' (may share storage with the first argument), 'receiver', or 'any' (any argument or the receiver)"""
    fn = call_name(c) or ""
    if not isinstance(c.func, (ast.Name, ast.Attribute)):
        return "any"                      # (lambda v: v)(x), table[k](x), f()(x)
    if isinstance(c.func, ast.Name):
        if c.func.id in local_callables:
            return "any"
        return "fresh"
    tail = _np_tail(fn)
    if tail is not None:
        last = tail.split(".")[-1]
        if last == "array":
            cp = [k.value for k in c.keywords if k.arg == "copy"]
            return "fresh" if not cp or not _could_be_false(cp[0]) else "first"
        if any(k.arg == "out" for k in c.keywords):
            return "any"
        return "first" if last in VIEW_FUNCS else "fresh"
    m = c.func.attr
    if m == "astype":
        cp = [k.value for k in c.keywords if k.arg == "copy"]
        if len(c.args) >= 5:              # ndarray.astype(dtype, order, casting, subok, copy)
            cp.append(c.args[4])
        return "fresh" if not cp or not _could_be_false(cp[0]) else "receiver"
    if m in VIEW_METHODS:
        return "receiver"
    return "fresh"


def roots2(e, al=None, local_callables=(), on_call=None, holds=None):
    """(same, held): origins whose object the value of `e` may BE (the object itself, a view, a part of its state), and origins
    whose objects it may HOLD as items (a list / dict / tuple built from them).  A store into `c[k]` changes what `c` may be,
    not what it holds; reading `c[k]` may yield either.
    `al` / `holds` map a name to its two sets (None: every name is its own origin and holds nothing)."""
    def of(name):
        if al is None:
            return {name}, set()
        return set(al.get(name, ())), set((holds or {}).get(name, ()))

    def both(p):
        return p[0] | p[1]

    def join(ps):
        s_, h_ = set(), set()
        for p in ps:
            s_ |= p[0]
            h_ |= p[1]
        return s_, h_

    def elem(p):
        """an item / part / view of a value"""
        return both(p), set(p[1])

    def comp(x):
        # the targets are items of what is iterated; the result holds what its element expression yields
        nonlocal al, holds
        saved = al, holds
        if al is not None:
            al, holds = dict(al), dict(holds or {})
        try:
            for g in x.generators:
                it = elem(r(g.iter))
                if al is not None:
                    for t in ast.walk(g.target):
                        if isinstance(t, ast.Name):
                            al[t.id], holds[t.id] = set(it[0]), set(it[1])
            if al is None:
                names = {n.id for n in ast.walk(x) if isinstance(n, ast.Name) and isinstance(n.ctx, ast.Load)}
                bound = {t.id for g in x.generators for t in ast.walk(g.target) if isinstance(t, ast.Name)}
                return set(), names - bound
            parts = [x.key, x.value] if isinstance(x, ast.DictComp) else [x.elt]
            return set(), both(join([r(p_) for p_ in parts]))
        finally:
            al, holds = saved

    def r(x):
        if x is None or isinstance(x, (ast.Constant, ast.JoinedStr, ast.Compare, ast.BinOp, ast.Slice)):
            return set(), set()
        if isinstance(x, ast.Name):
            return of(x.id)
        if isinstance(x, ast.UnaryOp):
            # lowered Cython `&x` is `+x`: a pointer into x
            return r(x.operand) if isinstance(x.op, ast.UAdd) and isinstance(x.operand, (ast.Name, ast.Subscript, ast.Attribute)) else (set(), set())
        if isinstance(x, ast.Attribute):
            return (set(), set()) if x.attr in IMMUTABLE_ATTRS or x.attr.isupper() else elem(r(x.value))
        if isinstance(x, (ast.Subscript, ast.Starred)):
            return elem(r(x.value))
        if isinstance(x, (ast.Await, ast.NamedExpr, ast.FormattedValue)):
            return r(x.value)
        if isinstance(x, ast.IfExp):
            return join([r(x.body), r(x.orelse)])
        if isinstance(x, ast.BoolOp):
            return join([r(v) for v in x.values])
        if isinstance(x, (ast.Tuple, ast.List, ast.Set)):
            return set(), both(join([r(v) for v in x.elts]))
        if isinstance(x, ast.Dict):
            return set(), both(join([r(v) for v in list(x.keys) + list(x.values) if v is not None]))
        if isinstance(x, ast.Call):
            if on_call is not None:
                ans = on_call(x)
                if ans is not None:
                    return set(ans), set()
            kind = call_kind(x, local_callables)
            if kind == "fresh":
                # constructors of containers keep the items: list(xs), tuple(xs), dict(d), sorted(xs), set(xs)
                if isinstance(x.func, ast.Name) and x.func.id in ("list", "tuple", "dict", "sorted", "set", "frozenset", "reversed", "zip", "enumerate") and x.args:
                    return set(), both(join([r(a) for a in x.args]))
                return set(), set()
            if kind == "first":
                return elem(r(x.args[0])) if x.args else (set(), set())
            if kind == "receiver":
                return elem(r(x.func.value))
            ps = [r(a) for a in list(x.args) + [k.value for k in x.keywords]]
            if isinstance(x.func, ast.Attribute):
                ps.append(r(x.func.value))
            elif not isinstance(x.func, ast.Name):
                ps.extend(of(n.id) for n in ast.walk(x.func) if isinstance(n, ast.Name))
            return elem(join(ps))
        if isinstance(x, (ast.ListComp, ast.SetComp, ast.DictComp, ast.GeneratorExp)):
            return comp(x)
        if isinstance(x, ast.Lambda):
            return set(), both(join([of(n.id) for n in ast.walk(x) if isinstance(n, ast.Name) and isinstance(n.ctx, ast.Load)]))
        return elem(join([of(n.id) for n in ast.walk(x) if isinstance(n, ast.Name)]))

    return r(e)


def roots(e, al=None, local_callables=(), on_call=None):
    """names (origins) whose objects the value of `e` may share storage with or hold (one set: for the flow-insensitive
    classes of `groups`, where holding an object and being it are not told apart)"""
    s_, h_ = roots2(e, al, local_callables, on_call)
    return s_ | h_


def base_name(t):
    """the name at the bottom of a chain of subscripts / attributes (None if there is none)"""
    while isinstance(t, (ast.Subscript, ast.Attribute, ast.Starred)):
        t = t.value
    if isinstance(t, ast.UnaryOp) and isinstance(t.op, ast.UAdd):
        return base_name(t.operand)
    return t.id if isinstance(t, ast.Name) else None


_STR_TO_STR = {"strip", "lstrip", "rstrip", "lower", "upper", "replace", "format", "join", "ljust", "rjust", "center", "zfill", "title",
               "capitalize", "swapcase", "expandtabs", "casefold", "removeprefix", "removesuffix", "translate"}
_STR_TO_LIST = {"split", "rsplit", "splitlines"}


def text_type(e, types):
    """'str' / 'liststr' when the expression is text (immutable) or a list of text by construction, else None"""
    if isinstance(e, ast.JoinedStr) or isinstance(e, ast.Constant) and isinstance(e.value, (str, bytes, int, float, bool, type(None))):
        return "str"
    if isinstance(e, ast.Name):
        return types.get(e.id)
    if isinstance(e, ast.Call):
        if isinstance(e.func, ast.Name) and e.func.id in ("str", "repr", "chr", "int", "float", "len", "bool", "format"):
            return "str"
        if isinstance(e.func, ast.Attribute) and e.func.attr in _STR_TO_STR:
            return "str"
        if isinstance(e.func, ast.Attribute) and e.func.attr in _STR_TO_LIST:
            return "liststr"
        return None
    if isinstance(e, ast.Subscript):
        t = text_type(e.value, types)
        if t == "str":
            return "str"
        if t == "liststr":
            return "liststr" if isinstance(e.slice, ast.Slice) else "str"
        return None
    if isinstance(e, ast.BinOp) and isinstance(e.op, (ast.Add, ast.Mod, ast.Mult)):
        l, r = text_type(e.left, types), text_type(e.right, types)
        return "str" if l == "str" and r in ("str", None) and isinstance(e.op, ast.Mod) or l == "str" and r == "str" else None
    if isinstance(e, ast.IfExp):
        a, b = text_type(e.body, types), text_type(e.orelse, types)
        return a if a == b else None
    return None


def text_names(fn):
    """{name: 'str' | 'liststr'} for the locals of a function whose every binding is text by construction (immutable values:
    no other name can see a change through them)"""
    binds = {}
    params = {a.arg for a in ast.walk(fn.args) if isinstance(a, ast.arg)} if isinstance(fn, (ast.FunctionDef, ast.AsyncFunctionDef)) else set()
    for n in ast.walk(fn):
        if isinstance(n, ast.Assign):
            for t in n.targets:
                if isinstance(t, ast.Name):
                    binds.setdefault(t.id, []).append(n.value)
                else:
                    for x in ast.walk(t):
                        if isinstance(x, ast.Name) and isinstance(x.ctx, ast.Store):
                            binds.setdefault(x.id, []).append(None)
        elif isinstance(n, ast.AugAssign) and isinstance(n.target, ast.Name):
            binds.setdefault(n.target.id, []).append(ast.BinOp(left=ast.Name(id=n.target.id, ctx=ast.Load()), op=n.op, right=n.value))
        elif isinstance(n, ast.Name) and isinstance(n.ctx, (ast.Store, ast.Del)):
            binds.setdefault(n.id, [])
    # stores that are not plain assignments (for targets, with, walrus, unpacking) make the name untyped
    plain = {id(t) for n in ast.walk(fn) if isinstance(n, ast.Assign) for t in n.targets if isinstance(t, ast.Name)}
    plain |= {id(n.target) for n in ast.walk(fn) if isinstance(n, ast.AugAssign) and isinstance(n.target, ast.Name)}
    untyped = {n.id for n in ast.walk(fn) if isinstance(n, ast.Name) and isinstance(n.ctx, (ast.Store, ast.Del)) and id(n) not in plain} | params
    types = {}
    for _ in range(4):
        new = {}
        for nm, vals in binds.items():
            if nm in untyped or not vals or any(v is None for v in vals):
                continue
            ts = {text_type(v, {**types, nm: types.get(nm) or "str"}) if isinstance(v, ast.BinOp) else text_type(v, types) for v in vals}
            if len(ts) == 1 and None not in ts:
                new[nm] = ts.pop()
        if new == types:
            break
        types = new
    return types


def groups(fn, extra_stmts=()):
    """flow-insensitive may-alias classes of the local names of one function: {name: frozenset(names)} (names that are
    alone are not listed).  Two names are in one class when one is bound to a value that may share storage with the other
    anywhere in the function (assignments, tuple assignments, for targets, with .. as, walrus, nested functions that
    mention the name)."""
    parent = {}
    local_callables = local_callable_names(fn)
    texts = text_names(fn)

    def find(a):
        parent.setdefault(a, a)
        while parent[a] != a:
            parent[a] = parent[parent[a]]
            a = parent[a]
        return a

    def union(a, b):
        ra, rb = find(a), find(b)
        if ra != rb:
            parent[ra] = rb

    def bind(target, value):
        if isinstance(target, (ast.Tuple, ast.List)) and isinstance(value, (ast.Tuple, ast.List)) and len(target.elts) == len(value.elts) \
                and not any(isinstance(x, ast.Starred) for x in list(target.elts) + list(value.elts)):
            for t, v in zip(target.elts, value.elts):
                bind(t, v)
            return
        if text_type(value, texts) == "str":
            return              # text is immutable: nothing can be changed through it
        rs = {o for o in roots(value, None, local_callables) if texts.get(o) != "str"}
        for x in ast.walk(target):
            if isinstance(x, ast.Name) and isinstance(x.ctx, ast.Store):
                for o in rs:
                    union(x.id, o)
        # storing an object into a container / attribute makes the container hold it: `box[0] = x`, `obj.a = x`
        b = base_name(target)
        if b is not None and not isinstance(target, ast.Name):
            for o in rs:
                union(b, o)

    for n in list(ast.walk(fn)) + [x for st in extra_stmts for x in ast.walk(st)]:
        if isinstance(n, ast.Assign):
            for t in n.targets:
                bind(t, n.value)
        elif isinstance(n, ast.AnnAssign) and n.value is not None:
            bind(n.target, n.value)
        elif isinstance(n, ast.NamedExpr):
            bind(n.target, n.value)
        elif isinstance(n, (ast.For, ast.AsyncFor, ast.comprehension)):
            bind(n.target, n.iter)
        elif isinstance(n, (ast.With, ast.AsyncWith)):
            for i in n.items:
                if i.optional_vars is not None:
                    bind(i.optional_vars, i.context_expr)
        elif isinstance(n, (ast.FunctionDef, ast.AsyncFunctionDef)) and n is not fn:
            for x in ast.walk(n):
                if isinstance(x, ast.Name):
                    union(n.name, x.id)
    out = {}
    for a in list(parent):
        out.setdefault(find(a), set()).add(a)
    res = {}
    for g in out.values():
        if len(g) > 1:
            fg = frozenset(g)
            for a in g:
                res[a] = fg
    return res


def closure_of(names, grp):
    out = set(names)
    for n in names:
        out |= grp.get(n, frozenset())
    return out


def local_callable_names(fn):
    """names bound inside the function that may be called: parameters, nested defs, locals bound to a lambda (a callee that
    is written on the spot - unlike a library function - may hand back its argument)"""
    out = set()
    if isinstance(fn, (ast.FunctionDef, ast.AsyncFunctionDef)):
        out |= {a.arg for a in ast.walk(fn.args) if isinstance(a, ast.arg)}
    for n in ast.walk(fn):
        if isinstance(n, (ast.FunctionDef, ast.AsyncFunctionDef)) and n is not fn:
            out.add(n.name)
        elif isinstance(n, ast.Assign) and isinstance(n.value, ast.Lambda):
            out |= {t.id for t in n.targets if isinstance(t, ast.Name)}
    return out - {"self", "cls"}
