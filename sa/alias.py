"""
One may-alias judgement for the whole engine: which names may the value of an expression share storage with?

`roots(e, al)` - `al` maps a name to the set of origins it may refer to (None: every name is its own origin).

    x, x.a, x[i], x[a:b], *x            the object, a part of its state, an element, a view
    a if c else b, a or b, (y := a)     either operand
    [a, b], (a, b), {k: a}              the container holds the objects
    lambda: .. x .., comprehension      captures / iterates what it mentions
    +x   (lowered Cython `&x`)          a pointer to x
    np.asarray(a), a.reshape(..), a.astype(t, copy=<not literally True>), np.array(a, copy=<not True>), d.get(k), d.items()
                                        documented views / elements of the argument or receiver
    (lambda v: v)(a), table[k](a), f(a) with f a LOCAL callable (parameter, nested def, local lambda)
                                        a callee that is written on the spot may hand back its argument: may-alias
    g(a) with g a function of the module: `on_call` (effects: the callee's own return summary)
    every other call                    a new object (library functions, constructors, arithmetic, comparisons, literals)
"""

import ast

from .astutil import call_name

# numpy functions that hand back (a view of) their first argument
VIEW_FUNCS = {"asarray", "asanyarray", "ascontiguousarray", "asfortranarray", "atleast_1d", "atleast_2d", "atleast_3d", "ravel", "reshape",
              "squeeze", "transpose", "swapaxes", "moveaxis", "rollaxis", "broadcast_to", "broadcast_arrays", "expand_dims", "frombuffer",
              "flipud", "fliplr", "flip", "diagonal", "real", "imag", "split", "array_split", "hsplit", "vsplit", "dsplit", "nditer",
              "as_strided", "sliding_window_view", "require", "array", "rot90", "tril", "triu", "view", "nan_to_num", "meshgrid"}
_VARIADIC_VIEW_FUNCS = {"atleast_1d", "atleast_2d", "atleast_3d", "broadcast_arrays", "meshgrid", "nditer", "ix_"}
# methods that hand back (a view of / an element of) their receiver
VIEW_METHODS = {"view", "reshape", "ravel", "squeeze", "transpose", "swapaxes", "get", "items", "values", "keys", "pop", "setdefault",
                "popitem", "__getitem__", "__iter__", "__enter__", "newbyteorder", "diagonal", "getfield"}
# methods that never change their receiver (str / ndarray / set / dict readers)
PURE_METHODS = {"copy", "tolist", "sum", "mean", "min", "max", "any", "all", "nonzero", "cumsum", "cumprod", "argsort", "argmax", "argmin",
                "flatten", "tobytes", "join", "split", "rsplit", "strip", "lstrip", "rstrip", "format", "lower", "upper",
                "encode", "decode", "count", "index", "startswith", "endswith", "find", "rfind", "replace", "isdigit", "isalpha", "isalnum",
                "isupper", "islower", "title", "capitalize", "std", "var", "prod", "dot", "round", "item", "ljust", "rjust", "zfill", "center",
                "splitlines", "isspace", "union", "intersection", "difference", "symmetric_difference", "issubset", "issuperset",
                "isdisjoint", "bit_length", "is_integer", "conjugate", "trace", "ptp", "searchsorted", "repeat", "astype", "reshape",
                "ravel", "squeeze", "transpose", "swapaxes", "view", "get", "items", "keys", "values", "extends", "as_array", "as_item",
                "__len__", "__eq__", "__ne__", "__lt__", "__le__", "__gt__", "__ge__", "__hash__", "__str__", "__repr__", "__contains__"}
# builtins / numpy functions that only read their arguments (numpy: everything but the first-argument writers, without out=)
PURE_FUNCS = {"len", "int", "float", "bool", "str", "bytes", "repr", "ord", "chr", "hash", "abs", "round", "sum", "min", "max", "any", "all",
              "isinstance", "issubclass", "hasattr", "callable", "range", "sorted", "list", "tuple", "set", "frozenset", "dict", "format",
              "divmod", "pow", "id", "type", "print", "enumerate", "zip", "reversed", "iter", "slice", "getattr"}
NP_FIRST_ARG_WRITERS = {"copyto", "put", "place", "putmask", "put_along_axis", "fill_diagonal", "shuffle"}


def reads_only(c):
    """a call that is known not to change any object it is handed or called on"""
    fn = call_name(c) or ""
    if fn.startswith(("np.ndarray.", "numpy.ndarray.")) and fn.split(".")[-1] not in PURE_METHODS:
        return False        # np.ndarray.fill(x, 0): the unbound method of the array type
    if isinstance(c.func, ast.Name):
        return c.func.id in PURE_FUNCS
    if fn in ("time.time", "time.monotonic", "time.perf_counter", "time.time_ns", "time.monotonic_ns") and not c.args and not c.keywords:
        return True         # reading the clock changes nothing (time.sleep is not among them: other threads and processes run meanwhile)
    tail = _np_tail(fn)
    if tail is not None:
        last = tail.split(".")[-1]
        return last not in NP_FIRST_ARG_WRITERS and last != "at" and not any(k.arg == "out" for k in c.keywords) \
            and not tail.startswith("random.")
    if isinstance(c.func, ast.Attribute):
        return c.func.attr in PURE_METHODS and not any(k.arg == "out" for k in c.keywords)
    return False


IMMUTABLE_ATTRS = {"shape", "ndim", "size", "dtype", "itemsize", "nbytes", "name", "__name__"}
# attributes that are counts by their name (`row_count`, `_array_length`): numbers, nobody's storage
_NUMBER_ATTR_SUFFIXES = ("_count", "_length", "_size", "_depth")


def _np_tail(fn):
    return fn.split(".", 1)[1] if fn.startswith(("np.", "numpy.")) else None


def _could_be_false(e):
    """a `copy=` argument that is not known to be true"""
    return not (isinstance(e, ast.Constant) and e.value is True)


# library callables KNOWN to hand back a new object that shares nothing with their arguments; any other library callable
# (numpy, builtins, the standard library, dunder and unknown methods) may hand back (a view / an item of) what it was given
NP_FRESH = {
    "zeros", "ones", "full", "empty", "zeros_like", "ones_like", "full_like", "empty_like", "arange", "linspace", "eye", "identity",
    "copy", "concatenate", "stack", "hstack", "vstack", "dstack", "column_stack", "append", "insert", "delete", "repeat", "tile", "where",
    "nonzero", "flatnonzero", "argwhere", "unique", "sort", "argsort", "searchsorted", "isin", "in1d", "intersect1d", "union1d", "setdiff1d",
    "sum", "prod", "mean", "std", "var", "min", "max", "amin", "amax", "nanmin", "nanmax", "nanmean", "nansum", "argmin", "argmax", "ptp",
    "any", "all", "count_nonzero", "cumsum", "cumprod", "dot", "matmul", "cross", "outer", "inner", "tensordot", "trace", "abs",
    "absolute", "sqrt", "square", "exp", "log", "log2", "log10", "sin", "cos", "tan", "arcsin", "arccos", "arctan", "arctan2", "deg2rad",
    "rad2deg", "floor", "ceil", "rint", "round", "around", "sign", "negative", "add", "subtract", "multiply", "divide", "true_divide",
    "floor_divide", "power", "mod", "remainder", "maximum", "minimum", "fmax", "fmin", "hypot", "clip", "isnan", "isfinite", "isinf",
    "isclose", "allclose", "array_equal", "equal", "not_equal", "greater", "less", "greater_equal", "less_equal", "logical_and",
    "logical_or", "logical_not", "logical_xor", "bitwise_and", "bitwise_or", "bitwise_xor", "invert", "left_shift", "right_shift",
    "iinfo", "finfo", "dtype", "issubdtype", "can_cast", "result_type", "promote_types", "shape", "ndim", "size", "cumulative_sum",
    "bincount", "interp", "take", "take_along_axis", "choose", "compress", "select", "packbits", "unpackbits",
    "fromiter", "fromstring", "char.add", "char.strip", "char.upper", "char.lower", "linalg.norm", "linalg.det", "linalg.inv",
    "linalg.svd", "linalg.eig", "linalg.eigh", "linalg.solve", "linalg.lstsq", "linalg.pinv", "linalg.matrix_rank", "quantile",
    "percentile", "median", "average", "lexsort", "indices", "triu_indices", "tril_indices", "diag_indices", "sign", "pad", "roll", "kron", "array_str",
    "array_repr", "tobytes", "random.rand", "random.random", "random.randint", "random.choice", "random.permutation", "random.default_rng",
    "isscalar", "iterable", "lcm", "gcd", "convolve", "correlate", "vectorize", "frompyfunc", "char.array", "core.defchararray.add",
    "loadtxt", "genfromtxt", "load", "datetime64", "timedelta64", "errstate", "printoptions", "testing.assert_allclose", "where",
}
BUILTIN_FRESH = {"len", "int", "float", "bool", "str", "bytes", "bytearray", "repr", "ord", "chr", "hash", "abs", "round", "any", "all",
                 "isinstance", "issubclass", "hasattr", "callable", "range", "format", "divmod", "pow", "id", "type", "print",
                 "open", "input", "bin", "hex", "oct", "ascii", "complex", "object", "super", "memoryview_"}
# builtins that build a new container of their argument's items
BUILTIN_COLLECT = {"list", "tuple", "dict", "sorted", "set", "frozenset", "reversed", "zip", "enumerate", "map", "filter", "iter", "slice"}
_BUILTIN_NAMES = set(dir(__import__("builtins")))
DOTTED_FRESH_PREFIXES = ("math.", "os.", "re.", "struct.", "json.", "warnings.", "logging.", "time.", "datetime.", "shutil.", "sys.", "string.",
                         "textwrap.", "hashlib.", "base64.", "subprocess.", "tempfile.", "glob.", "numbers.", "msgpack.", "io.", "requests.",
                         "urllib.", "tarfile.", "zipfile.", "gzip.", "pathlib.", "Path", "abc.", "enum.", "functools.lru_cache", "functools.wraps")
# methods known to hand back a new object whatever the receiver is (text, numbers, reductions, copies of arrays)
FRESH_METHODS = {"tolist", "sum", "mean", "min", "max", "any", "all", "nonzero", "cumsum", "cumprod", "argsort", "argmax", "argmin", "flatten",
                 "tobytes", "join", "split", "rsplit", "strip", "lstrip", "rstrip", "format", "lower", "upper", "encode", "decode", "count",
                 "index", "startswith", "endswith", "find", "rfind", "replace", "isdigit", "isalpha", "isalnum", "isupper", "islower", "title",
                 "capitalize", "std", "var", "prod", "dot", "round", "item", "ljust", "rjust", "zfill", "center", "splitlines", "isspace",
                 "union", "intersection", "difference", "symmetric_difference", "issubset", "issuperset", "isdisjoint", "bit_length",
                 "is_integer", "trace", "ptp", "searchsorted", "repeat", "__len__", "__eq__", "__ne__", "__lt__", "__le__", "__gt__", "__ge__",
                 "__hash__", "__str__", "__repr__", "__contains__", "__bool__", "__int__", "__float__", "extends", "total_seconds", "hexdigest",
                 "strftime", "read", "readline", "readlines", "write", "group", "groups", "span", "match", "search", "fullmatch", "findall",
                 "sub", "as_integer_ratio", "isoformat", "array_length", "stack_depth", "get_atom_count", "get_bond_count", "get_symbols",
                 "get_alphabet", "get_annotation_categories", "score_matrix", "shape_3d",
                 # RDKit: getters that hand back a number, a string or a new array / dict (GetAtoms, GetBonds, GetConformers, GetNeighbors,
                 # GetPDBResidueInfo, GetMol are NOT here: they hand back parts of the molecule)
                 "GetAltLoc", "GetBeginAtomIdx", "GetEndAtomIdx", "GetBondType", "GetChainId", "GetFormalCharge", "GetIdx", "GetInsertionCode",
                 "GetIsHeteroAtom", "GetName", "GetNumAtoms", "GetNumHeavyAtoms", "GetNumConformers", "GetOccupancy", "GetPositions", "GetProp",
                 "GetPropsAsDict", "GetResidueName", "GetResidueNumber", "GetSymbol", "GetTempFactor", "Is3D", "HasProp", "GetAtomicNum"}


# methods that give a new object which may be (one of) the ITEMS its receiver holds (an object array, a list of arrays)
_REDUCING_METHODS = {"tolist", "item", "sum", "min", "max", "prod", "flatten", "repeat", "round", "cumsum", "cumprod", "dot", "trace", "ptp", "mean"}
# names under which modules / functions are imported anywhere in the analysed sources (core.Source registers them):
# `from m import f as g` -> IMPORT_ALIASES["g"] = "f";  `import m as k` / `import m` -> MODULE_ALIASES has "k" / "m"
IMPORT_ALIASES = {}
MODULE_ALIASES = set()


def register_imports(tree):
    for n in ast.walk(tree):
        if isinstance(n, ast.ImportFrom):
            for a in n.names:
                if a.asname and a.asname != a.name:
                    IMPORT_ALIASES[a.asname] = a.name
        elif isinstance(n, ast.Import):
            for a in n.names:
                nm = (a.asname or a.name).split(".")[0]
                if nm not in ("np", "numpy"):
                    MODULE_ALIASES.add(nm)


_NP_OBJECT_MAKERS = {"array", "full", "full_like", "repeat", "tile", "concatenate", "stack", "hstack", "vstack", "append", "insert", "fromiter",
                     "where", "take", "choose", "select", "empty", "empty_like"}
_RETURNS = None


def repository_returns():
    """{function name | .method name: {"params": [...], "pos": [...], "self": bool}} from localnames.json (`__returns__`)"""
    global _RETURNS
    if _RETURNS is None:
        from . import localnames
        _RETURNS = localnames.table().get("__returns__", {})
    return _RETURNS


def _first_or_keyword(c):
    """the argument a numpy view function looks at: the first positional one, or - given by keyword - any of them"""
    if c.args:
        return [c.args[0]]
    return [k.value for k in c.keywords]


def call_kind(c, local_callables=()):
    """'fresh' (a new object that shares nothing), 'collect' (a new container of the argument's items), 'first' (may share storage
    with the first argument), 'receiver', or 'any' (any argument or the receiver).
    Callables written on the spot (lambdas, local defs, parameters, `f()(..)`) and LIBRARY callables that are not known to be
    fresh answer 'any' / 'receiver'; a function of the repository called by its plain name answers 'fresh' here (inside one
    module `effects` replaces that by the callee's own return summary)."""
    fn = call_name(c) or ""
    if not isinstance(c.func, (ast.Name, ast.Attribute)):
        return "any"                      # (lambda v: v)(x), table[k](x), f()(x)
    star_kw = any(k.arg is None for k in c.keywords)
    if isinstance(c.func, ast.Name):
        nm = c.func.id
        if nm in local_callables:
            return "any"
        if nm in BUILTIN_COLLECT:
            return "collect"
        if nm in BUILTIN_FRESH:
            return "fresh"
        if nm in _BUILTIN_NAMES:
            return "any"                  # max(x, y), min, next, getattr, vars, ...
        if nm in IMPORT_ALIASES and IMPORT_ALIASES[nm] not in repository_returns():
            return "any"                  # a function imported under another name, of which nothing is known
        return "fresh"
    tail = _np_tail(fn)
    if tail is not None:
        last = tail.split(".")[-1]
        if last == "array":
            cp = [k.value for k in c.keywords if k.arg == "copy"]
            return "fresh" if not star_kw and (not cp or not _could_be_false(cp[0])) else "first"
        if any(k.arg == "out" for k in c.keywords) or star_kw:
            return "any"
        if last in _VARIADIC_VIEW_FUNCS:
            return "any"
        if last in VIEW_FUNCS:
            return "first"
        return "fresh" if (tail in NP_FRESH or last in NP_FRESH) else "any"
    m = c.func.attr
    base = c.func.value
    root = base
    while isinstance(root, ast.Attribute):
        root = root.value
    dotted_mod = isinstance(root, ast.Name) and not isinstance(base, ast.Name) or isinstance(base, ast.Name) and fn.startswith(DOTTED_FRESH_PREFIXES)
    if fn in ("math.prod", "functools.reduce", "math.fsum"):
        return "any"
    if fn.startswith(DOTTED_FRESH_PREFIXES) or fn in ("copy.deepcopy",):
        return "fresh"
    if fn == "copy.copy":
        return "collect"
    if m == "astype":
        cp = [k.value for k in c.keywords if k.arg == "copy"]
        if len(c.args) >= 5:              # ndarray.astype(dtype, order, casting, subok, copy)
            cp.append(c.args[4])
        return "fresh" if not star_kw and (not cp or not _could_be_false(cp[0])) else "receiver"
    if m == "copy":
        return "copy"                     # a new array - or a new container holding the same items
    if isinstance(base, ast.Name) and base.id in _BUILTIN_NAMES:
        return "any"                      # dict.fromkeys(keys, x), list.__add__(a, b): the unbound method of a builtin type
    if m in ("get", "pop", "setdefault") and (len(c.args) > 1 or c.keywords):
        return "any"                      # d.get(k, x) hands back x when k is missing
    if m in VIEW_METHODS or m.startswith("__") and m.endswith("__") and m not in FRESH_METHODS:
        return "receiver"
    if m in FRESH_METHODS:
        return "reduce" if m in _REDUCING_METHODS else "fresh"
    if isinstance(base, ast.Name) and base.id[:1].isupper() and base.id not in local_callables:
        return "fresh"                    # Class.method(..): a constructor / class-level function of the repository
    if isinstance(base, ast.Name) and (base.id in ("itertools", "operator", "functools", "contextlib", "copy", "collections", "heapq", "bisect")
                                       or base.id in MODULE_ALIASES):
        return "any"
    # a method no table knows: it may hand back its receiver (`x.conj()`, `x.conjugate()` for a real array ARE x), a view or an item of it
    return "receiver"


def roots2(e, al=None, local_callables=(), on_call=None, holds=None):
    """(same, held): origins whose object the value of `e` may BE (the object itself, a view, a part of its state), and origins
    whose objects it may HOLD as items (a list / dict / tuple built from them).  A store into `c[k]` changes what `c` may be,
    not what it holds; reading `c[k]` may yield either.
    `al` / `holds` map a name to its two sets (None: every name is its own origin and holds nothing)."""
    def of(name):
        if al is None:
            return {name}, set((holds or {}).get(name, ()))
        return set(al.get(name, ())), set((holds or {}).get(name, ()))

    def both(p):
        return p[0] | p[1]

    def join(ps):
        s_, h_ = set(), set()
        for p in ps:
            s_ |= p[0]
            h_ |= p[1]
        return s_, h_

    def elem(p):
        """an item / part / view of a value"""
        return both(p), set(p[1])

    def comp(x):
        # the targets are items of what is iterated; the result holds what its element expression yields
        nonlocal al, holds
        saved = al, holds
        if al is not None:
            al, holds = dict(al), dict(holds or {})
        try:
            for g in x.generators:
                it = elem(r(g.iter))
                if al is not None:
                    for t in ast.walk(g.target):
                        if isinstance(t, ast.Name):
                            al[t.id], holds[t.id] = set(it[0]), set(it[1])
            if al is None:
                names = {n.id for n in ast.walk(x) if isinstance(n, ast.Name) and isinstance(n.ctx, ast.Load)}
                bound = {t.id for g in x.generators for t in ast.walk(g.target) if isinstance(t, ast.Name)}
                return set(), names - bound
            parts = [x.key, x.value] if isinstance(x, ast.DictComp) else [x.elt]
            return set(), both(join([r(p_) for p_ in parts]))
        finally:
            al, holds = saved

    def r(x):
        if x is None or isinstance(x, (ast.Constant, ast.JoinedStr, ast.Compare, ast.Slice)):
            return set(), set()
        if isinstance(x, ast.BinOp):
            # arithmetic on arrays / numbers gives a new object; `[x] * 1`, `[] + [x]`, `box + [x]` give a container of the same items
            if isinstance(x.op, (ast.Add, ast.Mult)) and any(isinstance(o, (ast.List, ast.Tuple, ast.Set, ast.Dict, ast.ListComp)) for o in (x.left, x.right)):
                return set(), both(join([r(x.left), r(x.right)]))
            if isinstance(x.op, (ast.Add, ast.Sub)) and any(isinstance(y, ast.UnaryOp) and isinstance(y.op, ast.UAdd) and isinstance(y.operand, ast.Name)
                                                             for o in (x.left, x.right) for y in ast.walk(o)):
                return elem(join([r(x.left), r(x.right)]))               # lowered Cython `&x + k`: pointer arithmetic stays inside x
            if isinstance(x.op, (ast.Add, ast.Mult)):
                return set(), join([r(x.left), r(x.right)])[1]           # `box * 1`, `box + box`: a new list of the same items
            return set(), set()
        if isinstance(x, ast.Name):
            return of(x.id)
        if isinstance(x, ast.UnaryOp):
            # lowered Cython `&x` is `+x`: a pointer into x
            return r(x.operand) if isinstance(x.op, ast.UAdd) and isinstance(x.operand, (ast.Name, ast.Subscript, ast.Attribute)) else (set(), set())
        if isinstance(x, ast.Attribute):
            if x.attr in IMMUTABLE_ATTRS or x.attr.endswith(_NUMBER_ATTR_SUFFIXES) or named_constant(x):
                return set(), set()
            if al is None and isinstance(x.value, ast.Name) and x.value.id in ("self", "cls"):
                # the fields of the instance are told apart (one level): `self._annot[k] = v` does not touch what `self.coord` is
                fld = f"{x.value.id}.{x.attr}"
                return {fld}, set((holds or {}).get(fld, ()))
            return elem(r(x.value))
        if isinstance(x, (ast.Subscript, ast.Starred)):
            return elem(r(x.value))
        if isinstance(x, (ast.Await, ast.NamedExpr, ast.FormattedValue)):
            return r(x.value)
        if isinstance(x, ast.IfExp):
            return join([r(x.body), r(x.orelse)])
        if isinstance(x, ast.BoolOp):
            return join([r(v) for v in x.values])
        if isinstance(x, (ast.Tuple, ast.List, ast.Set)):
            return set(), both(join([r(v) for v in x.elts]))
        if isinstance(x, ast.Dict):
            return set(), both(join([r(v) for v in list(x.keys) + list(x.values) if v is not None]))
        if isinstance(x, ast.Call):
            if on_call is not None:
                ans = on_call(x)
                if ans is not None:
                    return set(ans), set()
            every = list(x.args) + [k.value for k in x.keywords]
            # a function / method of the repository: what ITS return value may be (effects.return_aliases of the reference tree)
            ent = None
            if isinstance(x.func, ast.Name) and x.func.id not in local_callables and x.func.id not in _BUILTIN_NAMES:
                ent = repository_returns().get(IMPORT_ALIASES.get(x.func.id, x.func.id))
            elif isinstance(x.func, ast.Attribute) and isinstance(x.func.value, ast.Name) and x.func.value.id in MODULE_ALIASES \
                    and x.func.value.id not in local_callables and not (call_name(x) or "").startswith(DOTTED_FRESH_PREFIXES):
                ent = repository_returns().get(x.func.attr)       # module.function(..)
            elif isinstance(x.func, ast.Attribute) and not (call_name(x) or "").startswith(("np.", "numpy.")) \
                    and x.func.attr not in VIEW_METHODS and x.func.attr != "astype" and x.func.attr != "copy":
                ent = repository_returns().get("." + x.func.attr)
                if ent is not None and x.func.attr in FRESH_METHODS and not ent["self"] and not ent["params"]:
                    ent = None
            if ent is not None and not any(isinstance(a, ast.Starred) for a in x.args) and not any(k.arg is None for k in x.keywords):
                ps = [r(x.args[i]) for i in ent["pos"] if i < len(x.args)]
                ps += [r(k.value) for k in x.keywords if k.arg in ent["params"]]
                if ent["self"] and isinstance(x.func, ast.Attribute):
                    ps.append(r(x.func.value))
                return elem(join(ps)) if ps else (set(), set())
            kind = call_kind(x, local_callables)
            if kind == "fresh":
                # constructors of the repository (`Annotation(features)`, `dict(k=x)`-like keyword holders) keep what they are given
                cn_ = x.func.id if isinstance(x.func, ast.Name) else x.func.attr if isinstance(x.func, ast.Attribute) else ""
                if cn_.endswith(("Error", "Exception", "Warning")):
                    return set(), both(join([r(a) for a in every]))      # an exception carries its arguments
                if _np_tail(call_name(x) or "") is not None and (call_name(x) or "").split(".")[-1] in _NP_OBJECT_MAKERS:
                    # a new array; an object array (no dtype given, or dtype=object) keeps the ITEMS of the containers it was made from
                    dt = [k.value for k in x.keywords if k.arg == "dtype"]
                    if not dt or ast.unparse(dt[0]) in ("object", "'O'", "np.object_", "'object'"):
                        ps_ = join([r(a) for a in every if not (dt and a is dt[0])])
                        return set(), (both(ps_) if dt else ps_[1])
                return set(), set()
            if kind == "reduce":
                p_ = r(x.func.value)
                return set(p_[1]), set(p_[1])
            if kind == "collect":
                return set(), both(join([r(a) for a in every]))
            if kind == "copy":
                p_ = r(x.func.value)
                return set(), set(p_[1])
            if kind == "first":
                return elem(join([r(a) for a in _first_or_keyword(x)])) if every else (set(), set())
            if kind == "receiver":
                return elem(r(x.func.value))
            ps = [r(a) for a in every]
            if isinstance(x.func, ast.Attribute):
                ps.append(r(x.func.value))
            elif not isinstance(x.func, ast.Name):
                ps.extend(of(n.id) for n in ast.walk(x.func) if isinstance(n, ast.Name))
            elif isinstance(x.func, ast.Name) and isinstance(local_callables, dict):
                # a local function may hand back what it captured
                ps.extend(of(n) for n in local_callables.get(x.func.id, ()))
            return elem(join(ps))
        if isinstance(x, (ast.ListComp, ast.SetComp, ast.DictComp, ast.GeneratorExp)):
            return comp(x)
        if isinstance(x, ast.Lambda):
            return set(), both(join([of(n.id) for n in ast.walk(x) if isinstance(n, ast.Name) and isinstance(n.ctx, ast.Load)]))
        return elem(join([of(n.id) for n in ast.walk(x) if isinstance(n, ast.Name)]))

    return r(e)


def roots(e, al=None, local_callables=(), on_call=None, holds=None):
    """names (origins) whose objects the value of `e` may share storage with or hold (one set: for the flow-insensitive
    classes of `groups`, where holding an object and being it are not told apart)"""
    s_, h_ = roots2(e, al, local_callables, on_call, holds)
    return s_ | h_


def named_constant(e):
    """`Enum.MEMBER`, `Class.CONSTANT`, `np.newaxis`-like: an upper-case attribute of a class or module NAME (an upper-case
    attribute of an object - `x.T` - is part of that object)"""
    if not (isinstance(e, ast.Attribute) and e.attr.isupper()):
        return False
    b = e.value
    if isinstance(b, ast.Name) and b.id in ("self", "cls"):
        return len(e.attr) > 1          # self.CONSTANT: a class-level constant read through the instance
    while isinstance(b, ast.Attribute):
        b = b.value
    return isinstance(b, ast.Name) and (b.id[:1].isupper() or b.id in ("np", "numpy", "math", "sys", "os", "re"))


def written_names(target):
    """names whose object may change when something is stored into / called on `target` (an expression): its roots - not just
    the name at the bottom of a subscript chain (`np.asarray(x)[:] = 0`, `x.view().fill(0)`, `(a if c else b)[i] = v`)"""
    return roots(target)


def base_name(t):
    """the name at the bottom of a chain of subscripts / attributes (None if there is none); a field of the instance
    (`self.attr[..]`) is the pseudo-name `self.attr`"""
    while isinstance(t, (ast.Subscript, ast.Attribute, ast.Starred)):
        if isinstance(t, ast.Attribute) and isinstance(t.value, ast.Name) and t.value.id in ("self", "cls"):
            return f"{t.value.id}.{t.attr}"
        t = t.value
    if isinstance(t, ast.UnaryOp) and isinstance(t.op, ast.UAdd):
        return base_name(t.operand)
    return t.id if isinstance(t, ast.Name) else None


_STR_TO_STR = {"strip", "lstrip", "rstrip", "lower", "upper", "replace", "format", "join", "ljust", "rjust", "center", "zfill", "title",
               "capitalize", "swapcase", "expandtabs", "casefold", "removeprefix", "removesuffix", "translate"}
_STR_TO_LIST = {"split", "rsplit", "splitlines"}


def text_type(e, types):
    """'str' / 'liststr' when the expression is text (immutable) or a list of text by construction, else None"""
    if isinstance(e, ast.JoinedStr) or isinstance(e, ast.Constant) and isinstance(e.value, (str, bytes, int, float, bool, type(None))):
        return "str"
    if isinstance(e, ast.Name):
        return types.get(e.id)
    if isinstance(e, ast.Call):
        if isinstance(e.func, ast.Name) and e.func.id in ("str", "repr", "chr", "int", "float", "len", "bool", "format"):
            return "str"
        if isinstance(e.func, ast.Attribute) and e.func.attr in _STR_TO_STR:
            return "str"
        if isinstance(e.func, ast.Attribute) and e.func.attr in _STR_TO_LIST \
                and not (isinstance(e.func.value, ast.Name) and e.func.value.id in ("np", "numpy")):       # np.split(a, n): arrays
            return "liststr"
        return None
    if isinstance(e, ast.Subscript):
        t = text_type(e.value, types)
        if t == "str":
            return "str"
        if t == "liststr":
            return "liststr" if isinstance(e.slice, ast.Slice) else "str"
        return None
    if isinstance(e, ast.BinOp) and isinstance(e.op, (ast.Add, ast.Mod, ast.Mult)):
        l, r = text_type(e.left, types), text_type(e.right, types)
        return "str" if l == "str" and r in ("str", None) and isinstance(e.op, ast.Mod) or l == "str" and r == "str" else None
    if isinstance(e, ast.IfExp):
        a, b = text_type(e.body, types), text_type(e.orelse, types)
        return a if a == b else None
    return None


def text_names(fn):
    """{name: 'str' | 'liststr'} for the locals of a function whose every binding is text by construction (immutable values:
    no other name can see a change through them)"""
    binds = {}
    params = {a.arg for a in ast.walk(fn.args) if isinstance(a, ast.arg)} if isinstance(fn, (ast.FunctionDef, ast.AsyncFunctionDef)) else set()
    for n in ast.walk(fn):
        if isinstance(n, ast.Assign):
            for t in n.targets:
                if isinstance(t, ast.Name):
                    binds.setdefault(t.id, []).append(n.value)
                else:
                    for x in ast.walk(t):
                        if isinstance(x, ast.Name) and isinstance(x.ctx, ast.Store):
                            binds.setdefault(x.id, []).append(None)
        elif isinstance(n, ast.AugAssign) and isinstance(n.target, ast.Name):
            binds.setdefault(n.target.id, []).append(ast.BinOp(left=ast.Name(id=n.target.id, ctx=ast.Load()), op=n.op, right=n.value))
        elif isinstance(n, ast.Name) and isinstance(n.ctx, (ast.Store, ast.Del)):
            binds.setdefault(n.id, [])
    # stores that are not plain assignments (for targets, with, walrus, unpacking) make the name untyped
    plain = {id(t) for n in ast.walk(fn) if isinstance(n, ast.Assign) for t in n.targets if isinstance(t, ast.Name)}
    plain |= {id(n.target) for n in ast.walk(fn) if isinstance(n, ast.AugAssign) and isinstance(n.target, ast.Name)}
    untyped = {n.id for n in ast.walk(fn) if isinstance(n, ast.Name) and isinstance(n.ctx, (ast.Store, ast.Del)) and id(n) not in plain} | params
    types = {}
    for _ in range(4):
        new = {}
        for nm, vals in binds.items():
            if nm in untyped or not vals or any(v is None for v in vals):
                continue
            ts = {text_type(v, {**types, nm: types.get(nm) or "str"}) if isinstance(v, ast.BinOp) else text_type(v, types) for v in vals}
            if len(ts) == 1 and None not in ts:
                new[nm] = ts.pop()
        if new == types:
            break
        types = new
    return types


class Groups(dict):
    """{name: frozenset(names that may be the same object)} plus `.holds`: {name: names whose objects it may hold as items}"""
    holds = {}


_ADDERS = {"append", "extend", "add", "insert", "update", "setdefault", "appendleft", "extendleft", "__setitem__", "put", "push"}


def groups(fn, extra_stmts=()):
    """flow-insensitive may-alias information about the local names of one function.
    classes: two names are in one class when one is bound to a value that may BE (share storage with) the other anywhere in
    the function (assignments, tuple assignments, for targets, with .. as, walrus, nested functions that mention the name);
    holds: a name holds another when a container display, a collecting builtin, an `append`-like call, `box += [x]` or a
    store `box[k] = x` / `obj.a = x` puts the other's object into it.  Reading an item (`box[0]`, `for row in box`) may yield
    what the container is a view of or what it holds."""
    parent = {}
    holds = {}
    local_callables = local_callable_names(fn)
    texts = text_names(fn)
    nodes = list(ast.walk(fn)) + [x for st in extra_stmts for x in ast.walk(st)]

    def find(a):
        parent.setdefault(a, a)
        while parent[a] != a:
            parent[a] = parent[parent[a]]
            a = parent[a]
        return a

    def union(a, b):
        ra, rb = find(a), find(b)
        if ra != rb:
            parent[ra] = rb

    def r2(e):
        s_, h_ = roots2(e, None, local_callables, None, holds)
        return {o for o in s_ if texts.get(o) != "str"}, {o for o in h_ if texts.get(o) != "str"}

    def hold(name, items):
        if name is not None and items:
            cur = holds.setdefault(name, set())
            if not items <= cur:
                cur |= items
                changed[0] = True

    def bind(target, value, item=False):
        if isinstance(target, (ast.Tuple, ast.List)) and isinstance(value, (ast.Tuple, ast.List)) and len(target.elts) == len(value.elts) \
                and not any(isinstance(x, ast.Starred) for x in list(target.elts) + list(value.elts)):
            for t, v in zip(target.elts, value.elts):
                bind(t, v, item)
            return
        if text_type(value, texts) == "str":
            return              # text is immutable: nothing can be changed through it
        s_, h_ = r2(value)
        if item:
            s_, h_ = s_ | h_, h_
        if isinstance(target, ast.Name):
            for o in s_:
                union(target.id, o)
            hold(target.id, h_)
        elif isinstance(target, (ast.Tuple, ast.List, ast.Starred)):
            for x in (target.elts if not isinstance(target, ast.Starred) else [target.value]):
                bind_items(x, s_ | h_, h_)
        else:
            # storing an object into a container / attribute makes the container hold it: `box[0] = x`, `obj.a = x`
            # (a store with a multi-dimensional index - `table[0, 1:] = v` - is NumPy's: the values are copied in)
            # (a dict / an object array with a plain tuple key `d[a, b] = v` keeps the object)
            if not (isinstance(target, ast.Subscript) and isinstance(target.slice, ast.Tuple)
                    and any(isinstance(e_, ast.Slice) or isinstance(e_, ast.Constant) and e_.value is Ellipsis for e_ in target.slice.elts)):
                hold(base_name(target), s_ | h_)

    def bind_items(target, s_, h_):
        if isinstance(target, ast.Name):
            for o in s_:
                union(target.id, o)
            hold(target.id, h_)
        elif isinstance(target, (ast.Tuple, ast.List)):
            for x in target.elts:
                bind_items(x, s_, h_)
        elif isinstance(target, ast.Starred):
            bind_items(target.value, s_, h_)
        else:
            hold(base_name(target), s_)

    changed = [True]
    rounds = 0
    while changed[0] and rounds < 12:
        changed[0] = False
        rounds += 1
        before = {find(a) for a in parent}, len(parent)
        for n in nodes:
            if isinstance(n, ast.Assign):
                for t in n.targets:
                    bind(t, n.value)
            elif isinstance(n, ast.AnnAssign) and n.value is not None:
                bind(n.target, n.value)
            elif isinstance(n, ast.NamedExpr):
                bind(n.target, n.value)
            elif isinstance(n, ast.AugAssign):
                # `box += [x]` / `box |= {x}`: the container takes the items in
                s_, h_ = r2(n.value)
                hold(base_name(n.target), h_ | (s_ if isinstance(n.value, (ast.Name, ast.Call, ast.Attribute, ast.Subscript)) and False else set()))
            elif isinstance(n, (ast.For, ast.AsyncFor, ast.comprehension)):
                bind(n.target, n.iter, item=True)
            elif isinstance(n, (ast.With, ast.AsyncWith)):
                for i in n.items:
                    if i.optional_vars is not None:
                        bind(i.optional_vars, i.context_expr)
            elif isinstance(n, ast.ExceptHandler) and n.name:
                # the exception carries what it was raised with
                for r_ in nodes:
                    if isinstance(r_, ast.Raise) and isinstance(r_.exc, ast.Call):
                        for a_ in list(r_.exc.args) + [k.value for k in r_.exc.keywords]:
                            s_, h_ = r2(a_)
                            hold(n.name, s_ | h_)
                    elif isinstance(r_, ast.Raise) and r_.exc is not None:
                        # `raise e`: the handler's name may be that very object
                        s_, h_ = r2(r_.exc)
                        for o in s_:
                            union(n.name, o)
                        hold(n.name, h_)
                    if isinstance(r_, ast.Raise) and r_.cause is not None:
                        s_, h_ = r2(r_.cause)
                        hold(n.name, s_ | h_)
            elif isinstance(n, ast.Call) and isinstance(n.func, ast.Attribute) and n.func.attr in _ADDERS:
                items = set()
                for a_ in list(n.args) + [k.value for k in n.keywords]:
                    s_, h_ = r2(a_)
                    items |= s_ | h_
                hold(base_name(n.func.value), items)
            elif isinstance(n, ast.Call) and isinstance(n.func, ast.Attribute) and isinstance(n.func.value, ast.Name) and len(n.args) >= 2 \
                    and (n.func.value.id in _BUILTIN_NAMES and n.func.attr in _ADDERS
                         or n.func.value.id in ("heapq", "bisect", "operator", "collections", "itertools", "functools")) and not reads_only(n):
                # `list.append(box, x)`, `heapq.heappush(box, x)`, `operator.setitem(box, 0, x)`: the first argument takes the others in
                items = set()
                for a_ in list(n.args[1:]) + [k.value for k in n.keywords]:
                    s_, h_ = r2(a_)
                    items |= s_ | h_
                hold(base_name(n.args[0]), items)
            elif isinstance(n, (ast.FunctionDef, ast.AsyncFunctionDef)) and n is not fn:
                for x in ast.walk(n):
                    if isinstance(x, ast.Name):
                        union(n.name, x.id)
        if ({find(a) for a in parent}, len(parent)) != before:
            changed[0] = True
    out = {}
    for a in list(parent):
        out.setdefault(find(a), set()).add(a)
    res = Groups()
    for g in out.values():
        if len(g) > 1:
            fg = frozenset(g)
            for a in g:
                res[a] = fg
    res.holds = {k: set(v) for k, v in holds.items()}
    return res


def closure_of(names, grp):
    out = set(names)
    for n in names:
        out |= grp.get(n, frozenset())
    return out


def held_closure(names, grp):
    """everything reachable from the names through `holds` (and the classes of what is reached)"""
    holds = getattr(grp, "holds", {}) or {}
    seen = set()
    todo = list(closure_of(names, grp))
    while todo:
        n = todo.pop()
        for h in holds.get(n, ()):
            for m in closure_of({h}, grp):
                if m not in seen:
                    seen.add(m)
                    todo.append(m)
    return seen


def written_through(target, grp=None):
    """names whose objects may change when something is stored into `target` (the expression that is subscripted / whose attribute
    is set / on which a mutating method is called): what it may BE - `box` for `box[k] = v`; `box` and what it holds for
    `box[k][i] = v`; `x` for `np.asarray(x)[:] = v`, `x.view().fill(0)`, `(x if c else y)[i] = v` - closed under the classes"""
    holds = getattr(grp, "holds", None) if grp is not None else None
    s_, _ = roots2(target, None, (), None, holds or {})
    return closure_of(s_, grp or {})


class _Callables(dict):
    """{name of a local callable: names its body mentions} - `in` / iteration as for a set of names"""


def local_callable_names(fn):
    """names bound inside the function that may be called: parameters, nested defs, locals bound to a lambda (a callee that
    is written on the spot - unlike a library function - may hand back its argument or what it captured).  A mapping
    name -> names the callable's body mentions (empty for parameters)."""
    out = _Callables()
    if isinstance(fn, (ast.FunctionDef, ast.AsyncFunctionDef)):
        for a in ast.walk(fn.args):
            if isinstance(a, ast.arg):
                out[a.arg] = set()
    for n in ast.walk(fn):
        if isinstance(n, (ast.FunctionDef, ast.AsyncFunctionDef)) and n is not fn:
            own = {a.arg for a in ast.walk(n.args) if isinstance(a, ast.arg)}
            out[n.name] = {x.id for x in ast.walk(n) if isinstance(x, ast.Name)} - own
        elif isinstance(n, ast.Assign) and isinstance(n.value, ast.Lambda):
            own = {a.arg for a in ast.walk(n.value.args) if isinstance(a, ast.arg)}
            for t in n.targets:
                if isinstance(t, ast.Name):
                    out[t.id] = {x.id for x in ast.walk(n.value.body) if isinstance(x, ast.Name)} - own
    # a local bound to anything else and then called (`g = x.view`, `g = np.asarray`, `f = _helper`): what it hands back is unknown
    called = {n.func.id for n in ast.walk(fn) if isinstance(n, ast.Call) and isinstance(n.func, ast.Name)}
    for n in ast.walk(fn):
        tgts = []
        if isinstance(n, ast.Assign) and not isinstance(n.value, ast.Lambda):
            tgts = [(t, n.value) for t in n.targets]
        elif isinstance(n, (ast.AnnAssign, ast.NamedExpr)) and n.value is not None:
            tgts = [(n.target, n.value)]
        elif isinstance(n, (ast.For, ast.comprehension)):
            tgts = [(n.target, n.iter)]
        elif isinstance(n, ast.withitem) and n.optional_vars is not None:
            tgts = [(n.optional_vars, n.context_expr)]
        for t, v in tgts:
            if isinstance(v, ast.Call) and isinstance(v.func, ast.Name) and v.func.id == "type" and len(v.args) == 1 and not v.keywords \
                    or isinstance(v, ast.Call) and isinstance(v.func, ast.Attribute) and v.func.attr.endswith("_class") and not v.args:
                continue          # `Category = type(atom_site)`, `Column = Category.subcomponent_class()`: a class - calling it makes a new object
            for nm in ast.walk(t):
                if isinstance(nm, ast.Name) and nm.id in called:
                    out.setdefault(nm.id, set()).update(x.id for x in ast.walk(v) if isinstance(x, ast.Name))
    out.pop("self", None)
    out.pop("cls", None)
    return out
