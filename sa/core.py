"""
Core of the analyser: source access, obligations, findings, known findings,
evidence and the seeded-fault self validation.
"""

import ast
import hashlib
import json
import os
import re
import sys
import time
import traceback
import warnings

from . import localnames, pyxfront

warnings.simplefilter("ignore", SyntaxWarning)

VERIF = os.path.dirname(os.path.dirname(os.path.abspath(__file__)))
REPO = os.environ.get("SA_REPO", "/repo")
SRC = "src/biotite"


class AnalysisError(Exception):
    """The analysis itself is broken (vanished anchor, unparsable source...)."""


class _Guarded(dict):
    """the functions of a module; handing out one that is outside the analysed subset (subset.py) is an ANALYSIS-ERROR"""

    def __init__(self, items, src, prefix="", whole=False):
        super().__init__(items)
        self._src = src
        self._prefix = prefix
        self._whole = whole      # classes: with everything inside

    def __getitem__(self, q):
        self._src._check_subset(self._prefix + q, self._whole)
        return super().__getitem__(q)

    def get(self, q, default=None):
        if super().__contains__(q):
            self._src._check_subset(self._prefix + q, self._whole)
        return super().get(q, default)

    def items(self):
        for q in self:
            self._src._check_subset(self._prefix + q, self._whole)
        return super().items()

    def values(self):
        for q in self:
            self._src._check_subset(self._prefix + q, self._whole)
        return super().values()


class Source:
    def __init__(self, rel, text):
        self.rel = rel
        self.text = text
        self.is_pyx = rel.endswith((".pyx", ".pxd"))
        self.low = None
        self.renamed = {}
        self.normalised = {}
        self.outside_subset = {}
        self.new_state = {}
        try:
            if self.is_pyx:
                self.low = pyxfront.lower(rel, text)
                self.tree = self.low.tree
                self._subset_guard()
                from . import normalize
                self.normalised = normalize.normalise(rel, self.tree, localnames.table().get(rel, {}).get("__inventory__"))
                self.renamed = localnames.recover(rel, self.tree, self.low)
                if localnames.table().get(rel):
                    n_t = 0
                    for _round in range(8):
                        k_t = normalize.inline_new_temps(self.tree, localnames.table().get(rel, {}),
                                                       lambda sc_, nm_: self.low.resolve(self.low.ctype(sc_, nm_).replace("const ", "").strip())
                                                       if "[" not in self.low.ctype(sc_, nm_) else self.low.ctype(sc_, nm_))
                        n_t += k_t
                        if not k_t:
                            break
                    if n_t:
                        self.normalised["temporaries"] = n_t
                        normalize.finish(self.tree, localnames.table().get(rel, {}).get("__inventory__"))
            else:
                self.tree = ast.parse(text, filename=rel)
                self._subset_guard()
                # undo behaviour-preserving refactorings (new constants, helpers, table loops: normalize.py) ...
                from . import normalize
                self.normalised = normalize.normalise(rel, self.tree, localnames.table().get(rel, {}).get("__inventory__"))
                # ... and renames of local variables (localnames.py), then temporaries the reference did not have
                self.renamed = localnames.recover(rel, self.tree)
                n_t = 0
                for _round in range(8 if localnames.table().get(rel) else 0):
                    k_t = normalize.inline_new_temps(self.tree, localnames.table().get(rel, {}))
                    k_t += normalize.rename_dead_aliases(self.tree, localnames.table().get(rel, {}))
                    k_t += normalize.inline_comprehension_temps(self.tree, localnames.table().get(rel, {}))
                    k_t += normalize.fold_conditional_appends(self.tree, localnames.table().get(rel, {}))
                    n_t += k_t
                    if not k_t:
                        break
                if n_t:
                    self.normalised["temporaries"] = n_t
                    normalize.finish(self.tree, localnames.table().get(rel, {}).get("__inventory__"))
        except pyxfront.LoweringError as e:
            raise AnalysisError(f"cannot lower {rel}: {e}")
        except SyntaxError as e:
            raise AnalysisError(f"cannot parse {rel}:{e.lineno}: {e.msg}")
        localnames.orient_comparisons(self.tree)
        # how often the reference function stored each target (exprnorm.has_code: an overwritten statement is not "present")
        sc_ = (localnames.table().get(rel, {}).get("__inventory__") or {}).get("store_counts")
        if sc_ is not None:
            for q_, fn_ in pyxfront.iter_funcs(self.tree):
                if q_ in sc_:
                    fn_._ref_store_counts = sc_[q_]
        from . import exprnorm as _en
        _en.register_enums(self.tree)
        from . import alias as _al
        _al.register_imports(self.tree)
        self._funcs = None
        self._classes = None

    def _subset_guard(self):
        """constructs the engine cannot read (subset.py), counted on the text as written and compared with the reference census:
        module-level excess fails at once, a function's excess when a rule asks for that function"""
        from . import subset
        inv = localnames.table().get(self.rel, {}).get("__inventory__") or {}
        if "census" not in inv or os.environ.get("SA_REGENERATING_INVENTORY") == "1":
            return      # (tools/gen_localnames.py collects the list of files with the guard off: the census it is about to write is the reference)
        new = subset.census(self.tree)
        if self.is_pyx:
            # compiler directives given as decorators are the business of the rules that read them; decorators that DECLARE C types
            # or change how the function is compiled and called are declarations the front end does not see
            ref_c = inv["census"]
            for k_, c in new.items():
                decs = c.pop("decorators", None) or []
                old = (ref_c.get(k_) or {}).get("decorators", [])
                for d_ in decs:
                    if d_ not in old and d_.startswith(("cython.locals", "cython.returns", "cython.cfunc", "cython.ccall", "cython.exceptval",
                                                         "cython.inline", "cython.declare")):
                        c["node:cython-declaration-decorator"] = c.get("node:cython-declaration-decorator", 0) + 1
        # new instance attributes (state between calls that no rule knows) do not stop the rules: they are reported as "cannot decide"
        # at the end of a run that found nothing else (core.run_property)
        def _without_attrs(c_):
            return {k_: {kk_: v_ for kk_, v_ in d_.items() if not kk_.startswith("selfattr:")} for k_, d_ in c_.items()}
        self.new_state = {k_: sorted(kk_[9:] for kk_ in d_ if kk_.startswith("selfattr:") and kk_ not in (inv["census"].get(k_) or {}))
                          for k_, d_ in new.items() if k_ in inv["census"]}
        self.new_state = {k_: v_ for k_, v_ in self.new_state.items() if v_}
        self.outside_subset = subset.flags(_without_attrs(new), _without_attrs(inv["census"]))
        self.tree._outside_subset = set(self.outside_subset)
        if "<module>" in self.outside_subset:
            raise AnalysisError(f"{self.rel}: the module body is outside the analysed subset of Python: {self.outside_subset['<module>']}")

    def _check_subset(self, qualname, whole=False):
        if whole:
            for k_, why in self.outside_subset.items():
                if k_.startswith(qualname + "."):
                    raise AnalysisError(f"{self.rel}: {k_} is outside the analysed subset of Python: {why}")
        parts = qualname.split(".")
        for i in range(1, len(parts) + 1):
            why = self.outside_subset.get(".".join(parts[:i]))
            if why:
                raise AnalysisError(f"{self.rel}: {'.'.join(parts[:i])} is outside the analysed subset of Python: {why}")

    # ---- lookup -------------------------------------------------------
    @property
    def funcs(self):
        if self._funcs is None:
            self._funcs = _Guarded(pyxfront.iter_funcs(self.tree), self)
        return self._funcs

    @property
    def classes(self):
        if self._classes is None:
            d = {}

            def rec(node, prefix):
                for ch in ast.iter_child_nodes(node):
                    if isinstance(ch, ast.ClassDef):
                        d[prefix + ch.name] = ch
                        rec(ch, prefix + ch.name + ".")
                    elif isinstance(ch, (ast.FunctionDef, ast.AsyncFunctionDef)):
                        pass
                    else:
                        rec(ch, prefix)

            rec(self.tree, "")
            self._classes = _Guarded(d.items(), self, whole=True)
        return self._classes

    def func(self, qualname):
        f = self.funcs.get(qualname)
        if f is None:
            raise AnalysisError(f"anchor vanished: function {qualname} in {self.rel}")
        return f

    def cls(self, name):
        c = self.classes.get(name)
        if c is None:
            raise AnalysisError(f"anchor vanished: class {name} in {self.rel}")
        return c

    def module_assign(self, name):
        """value node of the (last) module-level assignment `name = ...`"""
        val = None
        for st in self.tree.body:
            if isinstance(st, ast.Assign):
                for t in st.targets:
                    if isinstance(t, ast.Name) and t.id == name:
                        val = st.value
            elif isinstance(st, ast.AnnAssign) and isinstance(st.target, ast.Name):
                if st.target.id == name and st.value is not None:
                    val = st.value
        if val is None:
            raise AnalysisError(f"anchor vanished: module variable {name} in {self.rel}")
        return val

    def methods(self, clsname):
        c = self.cls(clsname)
        return _Guarded(((n.name, n) for n in c.body if isinstance(n, (ast.FunctionDef, ast.AsyncFunctionDef))), self, clsname + ".")


class Finding:
    def __init__(self, prop, rule, module, qualname, construct, line, reason):
        self.prop = prop
        self.rule = rule
        self.module = module
        self.qualname = qualname
        self.construct = construct
        self.line = line
        self.reason = reason

    def key(self):
        return (self.rule, self.module, self.qualname, self.construct)

    def as_dict(self):
        return {
            "property": self.prop,
            "rule": self.rule,
            "module": self.module,
            "qualname": self.qualname,
            "construct": self.construct,
            "line": self.line,
            "reason": self.reason,
        }


def norm(node):
    """normalised text of an AST node (position independent)"""
    if isinstance(node, str):
        return re.sub(r"\s+", " ", node).strip()
    return ast.unparse(node)


class Ctx:
    """One analysis run of one property over one source tree."""

    def __init__(self, prop, tier="quick", overrides=None, repo=None):
        self.prop = prop
        self.tier = tier
        self.repo = repo or REPO
        self.overrides = overrides or {}
        self._cache = {}
        self.obligations = []  # dicts
        self.findings = []
        self.undecided = []       # "cannot decide" verdicts that do not stop the other rules: reported (exit 2) only when nothing is violated
        self.stats = {}
        self.files = set()
        self.notes = []

    # ---- sources ------------------------------------------------------
    def path(self, rel):
        return os.path.join(self.repo, SRC, rel)

    def src(self, rel):
        if rel in self._cache:
            return self._cache[rel]
        if rel in self.overrides:
            text = self.overrides[rel]
        else:
            p = self.path(rel)
            if not os.path.exists(p):
                raise AnalysisError(f"anchor vanished: file {SRC}/{rel}")
            with open(p, encoding="utf-8") as f:
                text = f.read()
        s = Source(rel, text)
        self._cache[rel] = s
        self.files.add(rel)
        if getattr(self, "sweeping", False):
            # read by a package-wide sweep of ONE rule (thorough tier), not by the property's rules: the lints that go with "every file
            # the property reads" (R0) are not this file's business
            self.swept = getattr(self, "swept", set()) | {rel}
        return s

    def all_sources(self, exts=(".py", ".pyx", ".pxd")):
        base = os.path.join(self.repo, SRC)
        out = []
        for root, dirs, files in os.walk(base):
            dirs.sort()
            for fn in sorted(files):
                if fn.endswith(exts):
                    out.append(os.path.relpath(os.path.join(root, fn), base))
        return out

    # ---- obligations --------------------------------------------------
    def count(self, key, n=1):
        self.stats[key] = self.stats.get(key, 0) + n

    def ob(self, rule, module, qualname, construct, ok, reason="", line=None,
           nontrivial=True, detail=None):
        """Record one obligation.  `construct` is normalised text identifying
        the construct (never a line number)."""
        construct = norm(construct) if not isinstance(construct, str) else norm(construct)
        rec = {
            "rule": rule,
            "module": module,
            "qualname": qualname,
            "construct": construct,
            "ok": bool(ok),
            "nontrivial": bool(nontrivial),
        }
        if detail is not None:
            rec["detail"] = detail
        if not ok:
            rec["reason"] = reason
        self.obligations.append(rec)
        if not ok:
            self.findings.append(
                Finding(self.prop, rule, module, qualname, construct, line, reason)
            )
        return bool(ok)

    def need(self, cond, what):
        """anchor requirement: failing means the analysis is broken"""
        if not cond:
            raise AnalysisError(f"anchor vanished: {what}")

    def cannot_decide(self, cond, what):
        """a construct one rule cannot follow: the other rules still run (a violation they find is reported as such); if none does,
        the run ends as "cannot decide" (exit 2)"""
        if not cond and what not in self.undecided:
            self.undecided.append(what)

    def floor(self, rule, n, minimum):
        """instance-count floor: a rule matching fewer instances than were
        confirmed by hand is broken, not passing"""
        self.stats[f"instances.{rule}"] = n
        if n < minimum:
            raise AnalysisError(
                f"rule {rule} matched {n} instances, fewer than the {minimum} confirmed"
            )


# ---------------------------------------------------------------------------
# known findings


def load_known():
    p = os.path.join(VERIF, "known_findings.json")
    if not os.path.exists(p):
        return {"known": [], "fixed": []}
    with open(p) as f:
        return json.load(f)


def known_index(prop):
    idx = {}
    for k in load_known().get("known", []):
        if k["property"] == prop:
            idx[(k["rule"], k["module"], k["qualname"], k["construct"])] = k
    return idx


# ---------------------------------------------------------------------------
# mutants (seeded faults used for self validation)


class Mutant:
    """A seeded fault: a text edit of one source that must make `rule` fire
    (optionally in `qualname`).  `old` must occur exactly `count` times."""

    def __init__(self, name, rel, old, new, rule, qualname=None, count=1, kind="break"):
        self.name = name
        self.rel = rel
        self.old = old
        self.new = new
        self.rule = rule
        self.qualname = qualname
        self.count = count
        self.kind = kind  # "break": rule must fire; "repair": finding must vanish; "silent": behaviour-preserving rewrite, nothing may fire

    def build(self, ctx):
        text = ctx.src(self.rel).text
        if text.count(self.old) != self.count:
            return None
        return text.replace(self.old, self.new)


class MultiMutant(Mutant):
    """several text edits of one source (each `old` replaced once, in order); any new finding counts (rule None)"""

    def __init__(self, name, rel, edits, rule=None, qualname=None, kind="break"):
        Mutant.__init__(self, name, rel, None, None, rule, qualname, 1, kind)
        self.edits = edits

    def build(self, ctx):
        text = ctx.src(self.rel).text
        for old, new in self.edits:
            if text.count(old) < 1:
                return None
            text = text.replace(old, new, 1)
        return text


class PatchMutant(Mutant):
    """a stored change set (unified diff, possibly over several files) as an in-memory variant; kind 'break' (seeded changes: any
    new finding or a stopped analysis counts) or 'silent' (refactorings: no new finding; `allow_undecided`: the analysis may stop)"""

    def __init__(self, name, patch, kind, allow_undecided=False):
        Mutant.__init__(self, name, None, None, None, None, None, 1, kind)
        self.patch = patch
        self.allow_undecided = allow_undecided

    def build(self, ctx):
        from . import patchsets
        return patchsets.overrides(ctx, self.patch)


def all_mutants(mod, prop):
    from .redteam_cases import CASES
    from . import patchsets
    out = list(getattr(mod, "MUTANTS", [])) + [MultiMutant("redteam-" + k, rel, edits) for k, (p_, rel, edits) in CASES.items() if p_ == prop]
    out += [PatchMutant(name, path, kind, exp == 2) for name, kind, path, exp in patchsets.stored(prop)]
    return out


def run_property(prop, tier, overrides=None, repo=None):
    mod = __import__(f"sa.props.{prop}", fromlist=["run"])
    ctx = Ctx(prop, tier, overrides, repo)
    mod.run(ctx)
    # every Cython source the property read: its C declarations still hold the values the reference declarations held
    from . import lints as _lints
    for rel_ in sorted(ctx.files - getattr(ctx, "swept", set())):
        if rel_.endswith(".pyx") and rel_ in ctx._cache:
            _lints.declared_types_keep_values(ctx, rel_)
        if rel_ in ctx._cache:
            _lints.none_distinction_kept(ctx, rel_)
        if rel_.endswith(".py") and rel_ in ctx._cache:
            # the repository-wide lints (allow-lists: nothing on today's tree, whatever module) for every module the property reads -
            # a helper that belongs to another property's files is watched all the same
            _lints.optional_numbers_tested_for_none(ctx, rel_, "R0.optional-value-tested-for-none", 0)
            _lints.iterators_consumed_once(ctx, rel_, "R0.iterator-read-once")
            _lints.loop_updates_kept(ctx, rel_, "R0.loop-updates-kept", 0)
            _lints.integer_tests_accept_numpy(ctx, rel_, "R0.integer-test-accepts-numpy", 0)
            _lints.dtype_family_tests(ctx, rel_, "R0.dtype-family-test", 0)
            _lints.alphabets_compared_by_value(ctx, rel_, "R0.alphabet-compared-by-value", 0)
            _lints.lookup_results_tested_for_none(ctx, rel_, "R0.lookup-found-is-not-none", 0)
    for rel_ in sorted(ctx.files - getattr(ctx, "swept", set())):
        for cls_, attrs_ in sorted(getattr(ctx._cache.get(rel_), "new_state", {}).items()):
            ctx.cannot_decide(False, f"{rel_}: class {cls_} keeps new state on its instances ({', '.join('self.' + a_ for a_ in attrs_)}): a value kept "
                                     "between calls (a memo, a cache, a flag) that no rule written for the class knows - whether it is kept up to date "
                                     "cannot be decided")
    if ctx.undecided:
        known = known_index(prop)
        if all(f.key() in known for f in ctx.findings):
            raise AnalysisError("cannot decide: " + " | ".join(ctx.undecided))
    return ctx, mod


def _mutant_job(args):
    prop, tier, m_idx, repo = args
    try:
        mod = __import__(f"sa.props.{prop}", fromlist=["run"])
        m = all_mutants(mod, prop)[m_idx]
        base = Ctx(prop, tier, None, repo)
        text = m.build(base)
        if text is None:
            return (m_idx, "unbuildable", "")
        try:
            ctx, _ = run_property(prop, "quick", text if isinstance(text, dict) else {m.rel: text}, repo)
        except AnalysisError as e:
            # a mutant that destroys an anchor is detected as analysis error:
            # counts as caught only for kind 'break' (the run would not pass)
            if m.kind == "silent":
                if getattr(m, "allow_undecided", False):
                    return (m_idx, "hits", [])          # recorded expectation: this restructuring cannot be decided
                return (m_idx, "silent-alarm", ["ANALYSIS-ERROR " + str(e)])
            return (m_idx, "caught-as-analysis-error" if m.kind == "break" else "error", str(e))
        if m.kind == "silent":
            return (m_idx, "hits", [f.key() for f in ctx.findings])
        hits = [
            f
            for f in ctx.findings
            if (m.rule is None or f.rule == m.rule) and (m.qualname is None or f.qualname == m.qualname)
        ]
        return (m_idx, "hits", [f.key() for f in hits])
    except Exception:
        return (m_idx, "error", traceback.format_exc())


def self_validate(prop, mod, base_ctx, jobs, seed):
    """every seeded fault must produce a *new* finding of its rule; every
    repair twin must remove the known finding it names"""
    muts = all_mutants(mod, prop)
    base_keys = {f.key() for f in base_ctx.findings}
    order = list(range(len(muts)))
    import random

    random.Random(seed).shuffle(order)
    args = [(prop, "quick", i, base_ctx.repo) for i in order]
    results = []
    if jobs > 1 and len(args) > 1:
        import multiprocessing as mp

        with mp.get_context("fork").Pool(min(jobs, len(args))) as pool:
            results = pool.map(_mutant_job, args)
    else:
        results = [_mutant_job(a) for a in args]
    caught = 0
    unbuildable = []
    missed = []
    names = []
    silent_ok = []
    false_alarms = []
    for idx, status, payload in results:
        m = muts[idx]
        if status == "unbuildable":
            unbuildable.append(m.name)
            continue
        if status == "error":
            raise AnalysisError(f"self validation of {m.name} crashed: {payload}")
        if m.kind == "silent":
            # behaviour-preserving rewrite: no rule may raise a new alarm
            new = payload if status == "silent-alarm" else [k for k in payload if tuple(k) not in base_keys]
            if new:
                false_alarms.append(f"{m.name}: {new[0]}")
            else:
                silent_ok.append(m.name)
            continue
        if m.kind == "break":
            if status == "caught-as-analysis-error":
                caught += 1
                names.append(m.name + " (anchor loss)")
                continue
            new = [k for k in payload if tuple(k) not in base_keys]
            if new:
                caught += 1
                names.append(m.name)
            else:
                missed.append(m.name)
        else:  # repair twin: the named rule must have fewer findings than before
            before = [
                k for k in base_keys
                if k[0] == m.rule and (m.qualname is None or k[2] == m.qualname)
            ]
            after = [tuple(k) for k in payload]
            if len(after) < len(before):
                caught += 1
                names.append(m.name + " (repair twin silent)")
            elif not before:
                # the defect is already repaired in the tree: nothing to silence
                unbuildable.append(m.name + " (already repaired)")
            else:
                missed.append(m.name)
    # whole-file behaviour-preserving transformations (reformat, rename locals)
    from . import robust

    for vname, over in robust.variants(base_ctx).items():
        try:
            vctx, _ = run_property(prop, "quick", over, base_ctx.repo)
            new = [f.key() for f in vctx.findings if f.key() not in base_keys]
            # (the R0 rules run once per file that was loaded; the thorough tier loads files the quick tier of the variant does not)
            n_v = sum(1 for o in vctx.obligations if not o["rule"].startswith("R0."))
            n_b = sum(1 for o in base_ctx.obligations if not o["rule"].startswith("R0."))
            if n_v != n_b and not vname.startswith("auto-unused-local"):
                new.append(f"obligation count changed {n_b} -> {n_v}")
        except AnalysisError as e:
            new = ["ANALYSIS-ERROR " + str(e)]
        if new:
            false_alarms.append(f"{vname}: {new[0]}")
        else:
            silent_ok.append(f"{vname} ({len(over)} files)")
    if false_alarms:
        raise AnalysisError(
            "behaviour-preserving variants raised an alarm (checker defect): " + "; ".join(false_alarms)
        )
    if missed:
        raise AnalysisError(
            "seeded faults not detected by the checker (checker defect): "
            + ", ".join(missed)
        )
    return {
        "variants": len(muts),
        "breaking_variants": len([m for m in muts if m.kind != "silent"]),
        "behaviour_preserving_variants_silent": silent_ok,
        "caught": caught,
        "unbuildable": len(unbuildable),
        "unbuildable_names": unbuildable,
        "names": names,
    }


# ---------------------------------------------------------------------------
# driver


def write_evidence(prop, tier, seed, ctx, mod, wall, nviol, known_hits, selfval):
    obs = ctx.obligations
    distinct = {
        (o["rule"], o["module"], o["qualname"], o["construct"])
        for o in obs
        if o["nontrivial"]
    }
    rules = sorted({o["rule"] for o in obs})
    import random

    rnd = random.Random(seed)
    samples = []
    by_rule = {}
    for o in obs:
        by_rule.setdefault(o["rule"], []).append(o)
    for r in rules:
        lst = by_rule[r]
        for o in rnd.sample(lst, min(2, len(lst))):
            samples.append(o)
    bad = [o for o in obs if not o["ok"]]
    for o in bad[:10]:
        if o not in samples:
            samples.append(o)
    cov = {
        "explanation": getattr(mod, "EXPLANATION", "")
        + " Rules applied: "
        + "; ".join(f"{r} ({len(by_rule[r])} obligations)" for r in rules),
        "evaluations": len(obs),
        "distinct_nontrivial": len(distinct),
        "rule": "obligations are derived from the current source tree by the rules named in "
        "'explanation'; one obligation = (rule, module, function, construct); it is "
        "non-trivial when deciding it needed more than the existence of the construct "
        "(a table evaluation, a path or dominance argument, a width computation, a "
        "set comparison); distinct = distinct keys",
        "samples": samples,
        "obligations": len(obs),
        "discharged": len([o for o in obs if o["ok"]]),
        "known_findings_matched": known_hits,
        "files_analysed": sorted(ctx.files),
        "stats": ctx.stats,
        "self_validation": selfval,
        "exhaustive": True,
    }
    ev = {
        "property_id": prop,
        "tier": tier,
        "seed": seed,
        "level": "other",
        "coverage": cov,
        "assumptions": getattr(mod, "ASSUMPTIONS", [])
        + [
            "the Cython lowering front end (sa/pyxfront.py) preserves the statement "
            "structure of the .pyx sources",
            "static analysis of source text: nothing is executed; clauses decided are "
            "necessary conditions of the property, not the behaviour as a whole",
        ],
        "wall_s": round(wall, 3),
        "violations": nviol,
    }
    os.makedirs(os.path.join(VERIF, "evidence"), exist_ok=True)
    p = os.path.join(VERIF, "evidence", f"{prop}.json")
    tmp = p + f".tmp{os.getpid()}"
    with open(tmp, "w") as f:
        json.dump(ev, f, indent=1, sort_keys=True)
    os.replace(tmp, p)


def check(prop, tier="quick", jobs=1, seed=0):
    t0 = time.time()
    try:
        ctx, mod = run_property(prop, tier)
        floor = getattr(mod, "MIN_OBLIGATIONS", 1)
        if len(ctx.obligations) < floor:
            raise AnalysisError(
                f"only {len(ctx.obligations)} obligations derived, fewer than the "
                f"{floor} confirmed by hand"
            )
        selfval = None
        if tier == "thorough":
            selfval = self_validate(prop, mod, ctx, jobs, seed)
    except AnalysisError as e:
        print(f"ANALYSIS-ERROR property={prop} {e}")
        return 2
    except Exception:
        print(f"ANALYSIS-ERROR property={prop} internal error")
        traceback.print_exc()
        return 2
    known = known_index(prop)
    seen_known = set()
    violations = []
    for f in ctx.findings:
        if f.key() in known:
            seen_known.add(f.key())
        else:
            violations.append(f)
    for k in sorted(seen_known):
        print(f"KNOWN-FINDING: property={prop} {known[k]['what']} "
              f"[{k[0]} {k[1]}::{k[2]}]")
    stale = [k for k in known if k not in seen_known]
    for k in sorted(stale):
        print(f"note: listed finding no longer reproduced by the rule: {k}")
    rc = 0
    if not violations and ctx.undecided:
        for u_ in ctx.undecided:
            print(f"ANALYSIS-ERROR property={prop} cannot decide: {u_}")
        return 2
    if violations:
        os.makedirs(os.path.join(VERIF, "evidence", "replay"), exist_ok=True)
        seen = set()
        n = 0
        for f in violations:
            if f.key() in seen:
                continue
            seen.add(f.key())
            n += 1
            rp = os.path.join(VERIF, "evidence", "replay", f"{prop}-{n}.json")
            with open(rp, "w") as fh:
                json.dump(f.as_dict(), fh, indent=1)
            print(
                f"{SRC}/{f.module}:{f.line or '?'}: [{f.rule}] {f.qualname}: "
                f"{f.construct} -- {f.reason}"
            )
            print(f"VIOLATION property={prop} replay={rp}")
        rc = 1
    wall = time.time() - t0
    write_evidence(prop, tier, seed, ctx, mod, wall, len(violations), len(seen_known), selfval)
    nob = len(ctx.obligations)
    print(
        f"{prop} {tier}: {nob} obligations, {nob - len(ctx.findings)} discharged, "
        f"{len(seen_known)} known findings, {len(violations)} violations, "
        f"{len(ctx.files)} files, {wall:.2f}s"
        + (f", self-validation {selfval['caught']}/{selfval.get('breaking_variants', selfval['variants'])} seeded faults caught"
           f" ({selfval['unbuildable']} not buildable)"
           f", {len(selfval.get('behaviour_preserving_variants_silent', []))} behaviour-preserving rewrites silent" if selfval else "")
    )
    return rc


def replay(path):
    with open(path) as f:
        d = json.load(f)
    prop = d["property"]
    try:
        ctx, mod = run_property(prop, "quick")
    except AnalysisError as e:
        print(f"ANALYSIS-ERROR property={prop} {e}")
        return 2
    key = (d["rule"], d["module"], d["qualname"], d["construct"])
    for f in ctx.findings:
        if f.key() == key:
            print(
                f"{SRC}/{f.module}:{f.line or '?'}: [{f.rule}] {f.qualname}: "
                f"{f.construct} -- {f.reason}"
            )
            print(f"VIOLATION property={prop} replay={path}")
            return 1
    print(f"obligation {key} holds on the current tree")
    return 0
