"""
Exact polynomial arithmetic over named symbols, used to decide identities of
*literal* matrices in the source (rotation matrices written out in cos/sin,
cross-product matrices, lattice combinations) without evaluating any code.

A polynomial is a dict  monomial -> Fraction, a monomial a sorted tuple of
(symbol, exponent).  `reduce(p, rules)` rewrites  sym**2 -> polynomial  for
each rule until a normal form is reached; with one rule per disjoint variable
group (s**2 -> 1 - c**2, z**2 -> 1 - x**2 - y**2) the normal form is unique,
so  p == q  in the quotient ring  iff  reduce(p - q) == 0.
"""

import ast
from fractions import Fraction


class NotPoly(Exception):
    pass


class Poly:
    __slots__ = ("t",)

    def __init__(self, terms=None):
        self.t = {m: c for m, c in (terms or {}).items() if c != 0}

    @staticmethod
    def const(c):
        return Poly({(): Fraction(c)})

    @staticmethod
    def sym(name):
        return Poly({((name, 1),): Fraction(1)})

    def __add__(self, o):
        o = _lift(o)
        t = dict(self.t)
        for m, c in o.t.items():
            t[m] = t.get(m, 0) + c
        return Poly(t)

    __radd__ = __add__

    def __neg__(self):
        return Poly({m: -c for m, c in self.t.items()})

    def __sub__(self, o):
        return self + (-_lift(o))

    def __rsub__(self, o):
        return _lift(o) - self

    def __mul__(self, o):
        o = _lift(o)
        t = {}
        for m1, c1 in self.t.items():
            for m2, c2 in o.t.items():
                d = dict(m1)
                for s, e in m2:
                    d[s] = d.get(s, 0) + e
                m = tuple(sorted(d.items()))
                t[m] = t.get(m, 0) + c1 * c2
        return Poly(t)

    __rmul__ = __mul__

    def __pow__(self, n):
        if not isinstance(n, int) or n < 0:
            raise NotPoly("power")
        r = Poly.const(1)
        for _ in range(n):
            r = r * self
        return r

    def is_zero(self):
        return not self.t

    def __eq__(self, o):
        return (self - _lift(o)).is_zero()

    def __hash__(self):
        return hash(tuple(sorted(self.t.items())))

    def symbols(self):
        return {s for m in self.t for s, _ in m}

    def __repr__(self):
        if not self.t:
            return "0"
        out = []
        for m, c in sorted(self.t.items()):
            mon = "*".join(s if e == 1 else f"{s}^{e}" for s, e in m)
            out.append(f"{c}" + ("*" + mon if mon else ""))
        return " + ".join(out)


def _lift(o):
    if isinstance(o, Poly):
        return o
    if isinstance(o, (int, Fraction)):
        return Poly.const(o)
    raise NotPoly(repr(o))


def reduce(p, rules):
    """rules: {symbol: Poly} meaning symbol**2 -> Poly"""
    changed = True
    guard = 0
    while changed:
        changed = False
        guard += 1
        if guard > 64:
            raise NotPoly("reduction does not terminate")
        out = Poly()
        for m, c in p.t.items():
            d = dict(m)
            hit = next((s for s in rules if d.get(s, 0) >= 2), None)
            if hit is None:
                out = out + Poly({m: c})
                continue
            changed = True
            d[hit] -= 2
            rest = Poly({tuple(sorted((s, e) for s, e in d.items() if e)): c})
            out = out + rest * rules[hit]
        p = out
    return p


def from_ast(e, env):
    """env: {name or unparsed-subexpression: Poly}.  Calls/subscripts are
    looked up by their unparsed text so `cos(angles[0])` can be a symbol."""
    key = ast.unparse(e)
    if key in env:
        return env[key]
    if isinstance(e, ast.Constant) and isinstance(e.value, (int, float)) and not isinstance(e.value, bool):
        return Poly.const(Fraction(e.value).limit_denominator(10**9))
    if isinstance(e, ast.UnaryOp) and isinstance(e.op, ast.USub):
        return -from_ast(e.operand, env)
    if isinstance(e, ast.UnaryOp) and isinstance(e.op, ast.UAdd):
        return from_ast(e.operand, env)
    if isinstance(e, ast.BinOp):
        if isinstance(e.op, ast.Add):
            return from_ast(e.left, env) + from_ast(e.right, env)
        if isinstance(e.op, ast.Sub):
            return from_ast(e.left, env) - from_ast(e.right, env)
        if isinstance(e.op, ast.Mult):
            return from_ast(e.left, env) * from_ast(e.right, env)
        if isinstance(e.op, ast.Pow) and isinstance(e.right, ast.Constant) and isinstance(e.right.value, int):
            return from_ast(e.left, env) ** e.right.value
    raise NotPoly(key)


def matrix_from_ast(e, env):
    """a literal list-of-lists (optionally wrapped in np.array(...))"""
    if isinstance(e, ast.Call) and e.args:
        e = e.args[0]
    if not isinstance(e, (ast.List, ast.Tuple)):
        raise NotPoly("not a matrix literal")
    rows = []
    for r in e.elts:
        if not isinstance(r, (ast.List, ast.Tuple)):
            raise NotPoly("not a matrix literal")
        rows.append([from_ast(x, env) for x in r.elts])
    return rows


def matmul(a, b):
    n, k, m = len(a), len(b), len(b[0])
    return [[sum((a[i][t] * b[t][j] for t in range(k)), Poly()) for j in range(m)] for i in range(n)]


def transpose(a):
    return [list(r) for r in zip(*a)]


def det3(a):
    return (a[0][0] * (a[1][1] * a[2][2] - a[1][2] * a[2][1])
            - a[0][1] * (a[1][0] * a[2][2] - a[1][2] * a[2][0])
            + a[0][2] * (a[1][0] * a[2][1] - a[1][1] * a[2][0]))


def identity(n):
    return [[Poly.const(1 if i == j else 0) for j in range(n)] for i in range(n)]


def mat_eq(a, b, rules):
    return all(reduce(a[i][j] - b[i][j], rules).is_zero() for i in range(len(a)) for j in range(len(a[0])))
