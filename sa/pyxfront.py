"""
Lowering of the Cython subset used by biotite to plain Python.

The lowered text has the *same line numbering* as the ``.pyx`` source and is
accepted by ``ast.parse``.  Everything that is stripped is recorded in side
tables so that rules can still ask for C types, casts, ``except`` sentinels
and compiler directives.

Nothing is imported or executed; Cython itself is not available in the
sandbox.  The lowering *fails closed*: a construct it does not know raises
``LoweringError`` (the caller turns that into ANALYSIS-ERROR, exit 2).
"""

import ast
import io
import re
import tokenize
from dataclasses import dataclass, field


class LoweringError(Exception):
    pass


@dataclass
class CFunc:
    name: str
    qualname: str
    line: int
    kind: str  # "cdef" | "def"
    rettype: str = ""
    inline: bool = False
    except_clause: str = ""  # e.g. "-1", "*", "" (none)
    params: list = field(default_factory=list)  # [(name, ctype, default_text)]


@dataclass
class Lowered:
    path: str
    source: str  # original text
    text: str  # lowered text
    tree: ast.AST
    # (qualname of enclosing function or "" / "<class>Name") -> {var: ctype}
    decls: dict
    funcs: dict  # qualname -> CFunc
    casts: list  # [(line, ctype, qualname)]
    addrof: list  # [(line, qualname)]
    ctypedefs: dict  # alias -> target
    fused: dict  # name -> [members]
    enums: dict  # name -> {member: value or None}
    cclasses: set  # names of cdef classes
    carrays: dict  # (scope, name) -> size text
    cdef_lines: int  # number of logical lines starting with cdef/ctypedef/cimport consumed

    def ctype(self, scope, name):
        """Declared C type of `name` in function `scope` ('' if not declared)."""
        d = self.decls.get(scope, {})
        if name in d:
            return d[name]
        # class attribute declared with cdef at class level
        if "." in scope:
            cls = scope.rsplit(".", 1)[0]
            d = self.decls.get("<class>" + cls, {})
            if name in d:
                return d[name]
        return ""

    def resolve(self, ctype):
        """Follow ctypedefs: 'uint32' -> 'np.uint32_t'."""
        seen = set()
        while ctype in self.ctypedefs and ctype not in seen:
            seen.add(ctype)
            ctype = self.ctypedefs[ctype]
        return ctype


_OPERAND_END = {tokenize.NAME, tokenize.NUMBER, tokenize.STRING}
_KEYWORD_OPERATORS = {
    "return", "in", "not", "and", "or", "if", "else", "elif", "while", "is",
    "yield", "lambda", "for", "assert", "del", "raise", "print", "with", "as",
}


def _tokens(text):
    try:
        return list(tokenize.generate_tokens(io.StringIO(text).readline))
    except (tokenize.TokenError, IndentationError, SyntaxError) as e:
        raise LoweringError(f"tokenize: {e}")


def _split_top(toks, sep=","):
    """split token list at top-level separators"""
    parts, cur, depth = [], [], 0
    for t in toks:
        if t.type == tokenize.OP:
            if t.string in "([{":
                depth += 1
            elif t.string in ")]}":
                depth -= 1
            elif t.string == sep and depth == 0:
                parts.append(cur)
                cur = []
                continue
        cur.append(t)
    parts.append(cur)
    return parts


def _find_top(toks, s):
    depth = 0
    for i, t in enumerate(toks):
        if t.type == tokenize.OP:
            if t.string in "([{":
                depth += 1
            elif t.string in ")]}":
                depth -= 1
            elif t.string == s and depth == 0:
                return i
    return -1


def _text(toks):
    out = []
    prev = None
    for t in toks:
        if prev is not None and prev.end != t.start:
            out.append(" ")
        out.append(t.string)
        prev = t
    return "".join(out)


def _significant(toks):
    return [
        t
        for t in toks
        if t.type
        not in (tokenize.COMMENT, tokenize.NL, tokenize.INDENT, tokenize.DEDENT)
    ]


_VALUE_CAST_TYPES = {"int", "long", "short", "char", "unsigned int", "unsigned long", "unsigned char", "unsigned short", "long long",
                     "float", "double", "bint", "Py_ssize_t", "ssize_t", "size_t",
                     "int8", "int16", "int32", "int64", "uint8", "uint16", "uint32", "uint64", "float32", "float64",
                     "np.int8_t", "np.int16_t", "np.int32_t", "np.int64_t", "np.uint8_t", "np.uint16_t", "np.uint32_t", "np.uint64_t",
                     "np.float32_t", "np.float64_t", "CodeType", "CodeType1", "CodeType2"}


_OBJECT_CAST_TYPES = {"object", "list", "tuple", "dict", "set", "bytes", "str", "bytearray", "np.ndarray", "ndarray", "void"}


def _reinterpreting_cast(ctype_txt):
    """a cast that does not convert a value: to a pointer type or to a Python object type.  Everything else (C number types,
    ctypedef'd names, fused types, `signed int`, `long int`, ...) may truncate, wrap or change sign and stays in the tree"""
    t = " ".join(ctype_txt.split())
    if t.endswith("?"):
        t = t[:-1].strip()      # `<T?>x` is a checked cast: for an object type a type test, for a C number type the same conversion as `<T>x`
    return t.endswith("*") or t in _OBJECT_CAST_TYPES


def _operand_end(sig, k, path):
    """index (in `sig`) of the last token of the unary operand that starts at sig[k]: prefixes, an atom, its trailers"""
    n = len(sig)

    def close(i):
        depth = 0
        while i < n:
            if sig[i].type == tokenize.OP and sig[i].string in "([{":
                depth += 1
            elif sig[i].type == tokenize.OP and sig[i].string in ")]}":
                depth -= 1
                if depth == 0:
                    return i
            i += 1
        raise LoweringError(f"{path}: unbalanced brackets after a cast")
    while k < n and sig[k].type == tokenize.OP and sig[k].string in ("-", "+", "~", "&", "<"):
        if sig[k].string == "<":
            while k < n and not (sig[k].type == tokenize.OP and sig[k].string == ">"):
                k += 1
        k += 1
    if k >= n:
        raise LoweringError(f"{path}: cast without operand")
    if sig[k].type == tokenize.OP and sig[k].string in "([{":
        k = close(k)
    elif sig[k].type not in (tokenize.NAME, tokenize.NUMBER, tokenize.STRING):
        raise LoweringError(f"{path}:{sig[k].start[0]}: unexpected operand of a cast: {sig[k].string!r}")
    while k + 1 < n:
        nx = sig[k + 1]
        if nx.type == tokenize.OP and nx.string in "([":
            k = close(k + 1)
        elif nx.type == tokenize.OP and nx.string == "." and k + 2 < n and sig[k + 2].type == tokenize.NAME:
            k += 2
        else:
            break
    return k


def lower(path, source=None):
    if source is None:
        with open(path, encoding="utf-8") as f:
            source = f.read()
    toks = _tokens(source)
    ed = []  # (start(line,col), end(line,col), replacement)

    decls = {}
    funcs = {}
    casts = []
    addrof = []
    ctypedefs = {}
    fused = {}
    enums = {}
    cclasses = set()
    carrays = {}
    consumed = 0

    # ---- group into logical lines -------------------------------------
    logical = []
    cur = []
    for t in toks:
        if t.type in (tokenize.ENCODING,):
            continue
        cur.append(t)
        if t.type in (tokenize.NEWLINE, tokenize.ENDMARKER):
            logical.append(cur)
            cur = []
    if cur:
        logical.append(cur)

    # scope tracking by indentation: stack of (indent_col, kind, name)
    scope_stack = []  # entries: (indent, kind, name)
    pending_block = None  # (kind, name) waiting for its INDENT
    fused_open = None
    enum_open = None

    def cur_func():
        names = []
        for ind, kind, name in scope_stack:
            names.append(name)
        # qualname = dotted path of classes and functions
        return ".".join(names)

    def cur_scope_key():
        if scope_stack and scope_stack[-1][1] == "class":
            return "<class>" + ".".join(n for _, _, n in scope_stack)
        return ".".join(n for _, _, n in scope_stack)

    def strip_params(ptoks, fn: CFunc):
        """ptoks: tokens between the parentheses of a signature"""
        for seg in _split_top(ptoks):
            seg = _significant(seg)
            if not seg:
                continue
            if seg[0].type == tokenize.OP and seg[0].string in ("*", "**", "/"):
                if len(seg) >= 2:
                    fn.params.append((seg[1].string, "", ""))
                continue
            eq = _find_top(seg, "=")
            left = seg if eq < 0 else seg[:eq]
            default = "" if eq < 0 else _text(seg[eq + 1 :])
            # trailing "not None" / "or None"
            if (
                len(left) >= 3
                and left[-1].string == "None"
                and left[-2].string in ("not", "or")
            ):
                ed.append((left[-3].end, left[-1].end, ""))
                left = left[:-2]
            # python annotation  name: type
            colon = _find_top(left, ":")
            if colon > 0 and len(left[:colon]) == 1:
                fn.params.append((left[0].string, _text(left[colon + 1 :]), default))
                continue
            name_tok = left[-1]
            if name_tok.type != tokenize.NAME:
                raise LoweringError(
                    f"{path}:{name_tok.start[0]}: cannot find parameter name in "
                    f"'{_text(seg)}'"
                )
            typ = left[:-1]
            if typ:
                ed.append((typ[0].start, name_tok.start, ""))
            fn.params.append((name_tok.string, _text(typ), default))

    def handle_signature(ll, sig_start_idx, kind):
        """ll: significant tokens of the logical line; sig_start_idx: index of
        the function NAME token. Handles params and trailing except/nogil."""
        name_tok = ll[sig_start_idx]
        if ll[sig_start_idx + 1].string != "(":
            raise LoweringError(f"{path}:{name_tok.start[0]}: expected '('")
        depth = 0
        close = None
        for i in range(sig_start_idx + 1, len(ll)):
            s = ll[i].string
            if ll[i].type == tokenize.OP:
                if s in "([{":
                    depth += 1
                elif s in ")]}":
                    depth -= 1
                    if depth == 0:
                        close = i
                        break
        if close is None:
            raise LoweringError(f"{path}:{name_tok.start[0]}: unbalanced signature")
        qual = ".".join([n for _, _, n in scope_stack] + [name_tok.string])
        fn = CFunc(name_tok.string, qual, name_tok.start[0], kind)
        strip_params(ll[sig_start_idx + 2 : close], fn)
        # what follows ')'
        rest = ll[close + 1 :]
        # drop NEWLINE
        rest = [t for t in rest if t.type not in (tokenize.NEWLINE, tokenize.ENDMARKER)]
        has_colon = bool(rest) and rest[-1].string == ":"
        tail = rest[:-1] if has_colon else rest
        # python return annotation "-> x" stays
        if tail and tail[0].string != "->":
            fn.except_clause = _text(
                [t for t in tail if t.string not in ("except", "nogil", "noexcept")]
            ) or ("noexcept" if any(t.string == "noexcept" for t in tail) else "")
            if any(t.string == "except" for t in tail) and not fn.except_clause:
                fn.except_clause = "?"
            ed.append((ll[close].end, tail[-1].end, ""))
        funcs[qual] = fn
        return fn, has_colon

    for line in logical:
        # maintain scope by INDENT/DEDENT tokens at the start of the line
        for t in line:
            if t.type == tokenize.INDENT:
                if pending_block is not None:
                    scope_stack.append((len(t.string), pending_block[0], pending_block[1]))
                    pending_block = None
                else:
                    scope_stack.append((len(t.string), "block", None))
            elif t.type == tokenize.DEDENT:
                if scope_stack:
                    scope_stack.pop()
                fused_open = None if fused_open and len(scope_stack) < fused_open[1] else fused_open
                enum_open = None if enum_open and len(scope_stack) < enum_open[1] else enum_open
        # anonymous blocks must not contribute to names
        ll = _significant(line)
        ll_code = [t for t in ll if t.type not in (tokenize.NEWLINE, tokenize.ENDMARKER)]
        if not ll_code:
            continue
        pending_block = None
        first = ll_code[0]

        def blank_to_pass():
            ed.append((first.start, ll_code[-1].end, "pass"))

        # names of scope: drop anonymous blocks
        def qual_prefix():
            return [n for _, k, n in scope_stack if n is not None]

        # record enum / fused members
        if fused_open and len(scope_stack) >= fused_open[1] and first.type == tokenize.NAME and len(ll_code) <= 3:
            fused[fused_open[0]].append(_text(ll_code))
        if enum_open and len(scope_stack) >= enum_open[1] and first.type == tokenize.NAME:
            eq = _find_top(ll_code, "=")
            nm = first.string
            if nm != "pass":
                enums[enum_open[0]][nm] = _text(ll_code[eq + 1 :]).rstrip(",") if eq > 0 else None

        s0 = first.string
        if first.type == tokenize.NAME and s0 == "cimport":
            consumed += 1
            blank_to_pass()
            continue
        if first.type == tokenize.NAME and s0 == "from" and any(
            t.string == "cimport" for t in ll_code[:8]
        ):
            consumed += 1
            blank_to_pass()
            continue
        if first.type == tokenize.NAME and s0 == "ctypedef":
            consumed += 1
            if len(ll_code) >= 3 and ll_code[1].string == "fused":
                name = ll_code[2].string
                fused[name] = []
                ed.append((first.start, ll_code[2].start, "class "))
                pending_block = ("class", name)
                fused_open = (name, len(scope_stack) + 1)
                continue
            # ctypedef TYPE alias
            alias = ll_code[-1].string
            ctypedefs[alias] = _text(ll_code[1:-1])
            blank_to_pass()
            continue
        if first.type == tokenize.NAME and s0 == "cdef":
            consumed += 1
            rest = ll_code[1:]
            if not rest:
                raise LoweringError(f"{path}:{first.start[0]}: bare cdef")
            r0 = rest[0].string
            if r0 == "class":
                cclasses.add(rest[1].string)
                ed.append((first.start, rest[0].start, ""))
                pending_block = ("class", rest[1].string)
                continue
            if r0 == "enum":
                name = rest[1].string
                enums[name] = {}
                ed.append((first.start, rest[1].start, "class "))
                pending_block = ("class", name)
                enum_open = (name, len(scope_stack) + 1)
                continue
            if r0 in ("extern", "struct", "union", "packed", "public", "api"):
                raise LoweringError(f"{path}:{first.start[0]}: unsupported 'cdef {r0}'")
            inline = False
            if r0 == "inline":
                inline = True
                rest = rest[1:]
            # function or variable?
            i_eq = _find_top(rest, "=")
            i_par = -1
            depth = 0
            for i, t in enumerate(rest):
                if t.type == tokenize.OP:
                    if t.string == "(" and depth == 0:
                        i_par = i
                        break
                    if t.string in "[{":
                        depth += 1
                    elif t.string in "]}":
                        depth -= 1
            is_func = (
                i_par > 0
                and (i_eq < 0 or i_par < i_eq)
                and rest[i_par - 1].type == tokenize.NAME
            )
            if is_func:
                idx = ll_code.index(rest[i_par - 1])
                fn, has_colon = handle_signature(ll, ll.index(rest[i_par - 1]), "cdef")
                fn.inline = inline
                fn.rettype = _text(rest[: i_par - 1])
                if has_colon:
                    ed.append((first.start, rest[i_par - 1].start, "def "))
                    pending_block = ("func", fn.name)
                else:
                    # declaration only (.pxd)
                    # remove all other edits of this line: simply blank whole
                    lo, hi = first.start, ll_code[-1].end
                    ed[:] = [e for e in ed if not (e[0] >= lo and e[1] <= hi)]
                    blank_to_pass()
                continue
            # variable declaration(s)
            scope = cur_scope_key_names(scope_stack)
            segs = _split_top(rest)
            out_parts = []
            ctype_text = None
            for k, seg in enumerate(segs):
                seg = [t for t in seg]
                if not seg:
                    continue
                eq = _find_top(seg, "=")
                left = seg if eq < 0 else seg[:eq]
                init = None if eq < 0 else seg[eq + 1 :]
                size = None
                # trailing [N] C-array
                if left[-1].string == "]":
                    d = 0
                    j = len(left) - 1
                    while j >= 0:
                        if left[j].string == "]":
                            d += 1
                        elif left[j].string == "[":
                            d -= 1
                            if d == 0:
                                break
                        j -= 1
                    size = _text(left[j + 1 : -1])
                    left = left[:j]
                name_tok = left[-1]
                if name_tok.type != tokenize.NAME:
                    raise LoweringError(
                        f"{path}:{first.start[0]}: cannot parse declarator '{_text(seg)}'"
                    )
                typ = left[:-1]
                if k == 0:
                    stars = ""
                    while typ and typ[-1].string in ("*", "**"):
                        stars = typ[-1].string + stars
                        typ = typ[:-1]
                    ctype_text = _text(typ)
                    this_type = ctype_text + stars
                else:
                    stars = "".join(t.string for t in typ)
                    this_type = (ctype_text or "") + stars
                decls.setdefault(scope, {})[name_tok.string] = this_type
                if size is not None:
                    carrays[(scope, name_tok.string)] = size
                if init is not None:
                    out_parts.append((name_tok, init))
            if not out_parts:
                blank_to_pass()
            else:
                # keep text of the initialisers in place; delete what lies between
                pos = first.start
                for n, (name_tok, init) in enumerate(out_parts):
                    prefix = (name_tok.string + " = ") if n == 0 else ("; " + name_tok.string + " = ")
                    ed.append((pos, init[0].start, prefix))
                    pos = init[-1].end
                if pos != ll_code[-1].end:
                    ed.append((pos, ll_code[-1].end, ""))
            continue
        if first.type == tokenize.NAME and s0 == "cpdef":
            raise LoweringError(f"{path}:{first.start[0]}: cpdef not supported")
        if first.type == tokenize.NAME and s0 in ("DEF", "IF", "ELIF", "ELSE"):
            raise LoweringError(f"{path}:{first.start[0]}: compile-time {s0}")
        if first.type == tokenize.NAME and s0 == "def" or (
            s0 == "async" and len(ll_code) > 1 and ll_code[1].string == "def"
        ):
            idx = 1 if s0 == "def" else 2
            fn, has_colon = handle_signature(ll, ll.index(ll_code[idx]), "def")
            pending_block = ("func", fn.name)
            continue
        if first.type == tokenize.NAME and s0 == "class":
            pending_block = ("class", ll_code[1].string)
            continue

    # ---- expression-level rewrites: casts and address-of ----------------
    # they may sit inside lines handled above (initialisers), so they are
    # found on the raw token stream and must not overlap deleted prefixes.
    flat = [t for t in toks if t.type not in (tokenize.ENCODING,)]
    sig = [
        t
        for t in flat
        if t.type
        not in (tokenize.COMMENT, tokenize.NL, tokenize.INDENT, tokenize.DEDENT)
    ]

    def operand_position(i):
        if i == 0:
            return True
        p = sig[i - 1]
        if p.type in (tokenize.NEWLINE,):
            return True
        if p.type == tokenize.NAME:
            return p.string in _KEYWORD_OPERATORS
        if p.type in (tokenize.NUMBER, tokenize.STRING):
            return False
        if p.type == tokenize.OP:
            return p.string not in (")", "]", "}")
        return True

    i = 0
    n = len(sig)
    while i < n:
        t = sig[i]
        if t.type == tokenize.OP and t.string == "<" and operand_position(i):
            depth = 0
            j = i + 1
            while j < n:
                s = sig[j].string
                if sig[j].type == tokenize.OP:
                    if s in "([{":
                        depth += 1
                    elif s in ")]}":
                        depth -= 1
                    elif s == ">" and depth == 0:
                        break
                    elif s == ">>" and depth == 0:
                        raise LoweringError(f"{path}:{t.start[0]}: '>>' closing a cast")
                if sig[j].type == tokenize.NEWLINE:
                    raise LoweringError(f"{path}:{t.start[0]}: unterminated cast")
                j += 1
            if j >= n:
                raise LoweringError(f"{path}:{t.start[0]}: unterminated cast")
            ctype_txt = _text(sig[i + 1 : j])
            casts.append((t.start[0], ctype_txt))
            if not _reinterpreting_cast(ctype_txt):
                # a conversion between number types changes the value (truncation, wrap-around): it stays visible to the rules
                # as __cast__("T", operand); pointer / object casts reinterpret and are dropped
                end = _operand_end(sig, j + 1, path)
                ed.append((t.start, sig[j].end, f'__cast__("{ctype_txt.strip()}", '))
                ed.append((sig[end].end, sig[end].end, ")"))
            else:
                ed.append((t.start, sig[j].end, ""))
            i = j + 1
            continue
        if t.type == tokenize.OP and t.string == "&" and operand_position(i):
            addrof.append(t.start[0])
            ed.append((t.start, t.end, "+"))
        i += 1

    # ---- apply edits -----------------------------------------------------
    lines = source.splitlines(keepends=True)
    starts = [0]
    for ln in lines:
        starts.append(starts[-1] + len(ln))

    def off(pos):
        return starts[pos[0] - 1] + pos[1]

    flat_edits = sorted(((off(a), off(b), new) for a, b, new in ed), key=lambda e: (e[0], e[1]))
    # drop edits fully contained in an earlier (enclosing) edit: e.g. a cast
    # inside a cimport line blanked to 'pass'
    merged = []
    for a, b, new in flat_edits:
        if merged and a < merged[-1][1]:
            if b <= merged[-1][1]:
                continue
            raise LoweringError(f"{path}: overlapping edits near offset {a}")
        merged.append((a, b, new))
    out = []
    last = 0
    for a, b, new in merged:
        out.append(source[last:a])
        removed = source[a:b].count("\n")
        out.append(new)
        if removed:
            # keep line numbering: a replaced whole statement ("pass") is
            # followed by blank lines, a partial edit by explicit line joins
            out.append(("\n" if new == "pass" else " \\\n") * removed)
        last = b
    out.append(source[last:])
    text = "".join(out)
    if text.count("\n") != source.count("\n"):
        raise LoweringError(f"{path}: line count changed by lowering")
    try:
        tree = ast.parse(text, filename=path)
    except SyntaxError as e:
        raise LoweringError(f"{path}:{e.lineno}: lowered source does not parse: {e.msg}")

    # attach qualnames to casts / addrof
    spans = []
    for q, node in iter_funcs(tree):
        spans.append((node.lineno, node.end_lineno, q))

    def owner(line):
        best = ""
        bl = -1
        for a, b, q in spans:
            if a <= line <= b and a > bl:
                best, bl = q, a
        return best

    casts2 = [(ln, ty, owner(ln)) for ln, ty in casts]
    addr2 = [(ln, owner(ln)) for ln in addrof]
    return Lowered(
        path, source, text, tree, decls, funcs, casts2, addr2, ctypedefs, fused,
        enums, cclasses, carrays, consumed,
    )


def cur_scope_key_names(scope_stack):
    named = [(k, n) for _, k, n in scope_stack if n is not None]
    if named and named[-1][0] == "class":
        return "<class>" + ".".join(n for _, n in named)
    return ".".join(n for _, n in named)


def iter_funcs(tree):
    """yield (qualname, FunctionDef) for every function, nested included"""

    def rec(node, prefix):
        for ch in ast.iter_child_nodes(node):
            if isinstance(ch, (ast.FunctionDef, ast.AsyncFunctionDef)):
                q = prefix + ch.name
                yield q, ch
                yield from rec(ch, q + ".")
            elif isinstance(ch, ast.ClassDef):
                yield from rec(ch, prefix + ch.name + ".")
            else:
                yield from rec(ch, prefix)

    yield from rec(tree, "")


_CDEF_RE = re.compile(r"^\s*(cdef|ctypedef|cimport|from\s+\S+\s+cimport)\b")


def count_cdef_lines(source):
    """Independent count (plain regex over physical lines, strings excluded
    only by the fact that such lines do not occur in docstrings of this repo;
    the comparison tolerates lines inside strings by being a lower bound on
    the token-based count is NOT assumed: equality is required by callers on
    a per-file frozen offset table)."""
    n = 0
    for ln in source.splitlines():
        if _CDEF_RE.match(ln):
            n += 1
    return n
