"""
The repository's own `Copyable` contract, checked over resolved classes.

copy() = __copy_create__() then __copy_fill__(clone).  For a class C:

create-arity   the constructor call in the __copy_create__ that C inherits
               must fit the __init__ that C inherits (type(self)(...) resolves
               to C itself): required parameters supplied, not too many.
fill-super     a __copy_fill__ override calls super().__copy_fill__(clone).
fresh          every value stored on the clone comes from a fresh expression
               (np.copy(x), x.copy(), copy.copy/deepcopy, constructor call,
               comprehension); a bare `self.f` shares mutable state, unless
               the field is listed as immutable with a reason.
method-value   `x.copy` used as a value (not called) is an error.
"""

import ast

from .astutil import call_name, dotted, param_names, stmts, walk_local

FRESH_CALLS = {"copy", "deepcopy", "array", "asarray_copy", "list", "dict", "set", "tuple"}


def init_arity(func):
    """(required, maximum) positional parameters of an __init__ (self excluded)"""
    a = func.args
    pos = a.posonlyargs + a.args
    n = len(pos) - 1
    req = n - len(a.defaults)
    mx = float("inf") if a.vararg else n
    return max(req, 0), mx


def is_fresh(e):
    """True: a new object; False: it may BE (a view of / an alias of) state of `self`; None: unknown.  The may-alias judgement is
    the engine's (alias.roots2): `self._coord.view()`, `np.asarray(self._coord)`, `x.astype(t, copy=False)`, `self._a or None`,
    `[self._a][0]` all may be the original's own object"""
    from . import alias as _alias
    try:
        same, _held = _alias.roots2(e)
    except Exception:
        same = set()
    if any(o == "self" or o.startswith("self.") for o in same):
        return False
    if isinstance(e, ast.Call):
        cn = call_name(e)
        last = (cn or "").split(".")[-1]
        if isinstance(e.func, ast.Attribute):
            last = e.func.attr
        if last in FRESH_CALLS or last.startswith("copy"):
            return True
        if last and last[0].isupper():
            return True  # constructor
        if last in ("type",):
            return True
        if isinstance(e.func, ast.Call):  # type(self)(...)
            return True
        return None  # unknown call: not a bare share
    if isinstance(e, (ast.ListComp, ast.DictComp, ast.SetComp, ast.List, ast.Dict, ast.Tuple, ast.Constant, ast.BinOp, ast.JoinedStr)):
        return True
    if isinstance(e, ast.Name):
        return None
    if isinstance(e, ast.Attribute) or isinstance(e, ast.Subscript):
        return False
    return None


def check(ctx, idx, classes, rule, immutable=None, helper_methods=()):
    """`immutable`: {(class, field): reason}"""
    immutable = immutable or {}
    n = 0
    for cls in classes:
        ci = idx.get(cls)
        oi, init = idx.resolve(cls, "__init__")
        oc, create = idx.resolve(cls, "__copy_create__")
        # ---- create arity (abstract classes are never instantiated)
        abstract = any(
            any((dotted(d.func if isinstance(d, ast.Call) else d) or "").endswith("abstractmethod")
                for d in m.decorator_list)
            for m in ci.methods.values()
        )
        if init is not None and not abstract:
            req, mx = init_arity(init)
            if create is None:
                supplied = 0
                kw = set()
                where = "Copyable.__copy_create__ (type(self)())"
                target = cls
                line = ci.node.lineno
                rel = ci.rel
            else:
                ret = [r for r in walk_local(create) if isinstance(r, ast.Return) and r.value is not None]
                call = ret[0].value if ret and isinstance(ret[0].value, ast.Call) else None
                where = f"{oc.name}.__copy_create__"
                line = create.lineno
                rel = oc.rel
                if call is None:
                    supplied = None
                else:
                    supplied = len(call.args)
                    kw = {k.arg for k in call.keywords}
                    if any(isinstance(a, ast.Starred) for a in call.args) or None in kw:
                        supplied = None  # *args / **kwargs: cannot count
                    fn = call.func
                    if isinstance(fn, ast.Call) and call_name(fn) == "type":
                        target = cls
                    elif dotted(fn) in ("self.__class__",):
                        target = cls
                    else:
                        target = (dotted(fn) or "").split(".")[-1]
                        ti, tinit = idx.resolve(target, "__init__") if target in idx.classes else (None, None)
                        if tinit is not None:
                            req, mx = init_arity(tinit)
            if supplied is not None:
                n += 1
                names = [p for p in param_names(init)[1:]] if init is not None else []
                supplied_total = supplied + len([k for k in kw if k in names[supplied:]])
                ok = req <= supplied_total and supplied <= mx
                ctx.ob(
                    f"{rule}.create-arity", rel, f"{cls}.__copy_create__",
                    f"{where} supplies {supplied_total} argument(s); {target}.__init__ requires {req}",
                    ok,
                    f"copying (and slicing, which copies) a {cls} calls its constructor with "
                    f"{supplied_total} argument(s) but {target}.__init__ (from {oi.name}) requires "
                    f"{req}: TypeError",
                    line,
                )
        # ---- state handed to the constructor by __copy_create__ must be copied there (the clone owns its state)
        if create is not None and init is not None:
            ret = [r for r in walk_local(create) if isinstance(r, ast.Return) and r.value is not None]
            call = ret[0].value if ret and isinstance(ret[0].value, ast.Call) else None
            tname = (dotted(call.func) or "").split(".")[-1] if call is not None else None
            ti, tinit = idx.resolve(tname, "__init__") if tname in idx.classes else (None, None)
            if call is not None and tinit is not None:
                from .effects import params_kept_by_identity
                kept = params_kept_by_identity(tinit)
                tparams = param_names(tinit)[1:]
                passed = [(tparams[k], a) for k, a in enumerate(call.args) if k < len(tparams) and not isinstance(a, ast.Starred)]
                passed += [(k.arg, k.value) for k in call.keywords if k.arg]
                for pn, a in passed:
                    if is_fresh(a) is not False:
                        continue            # a call (`self._root.copy()`) or a literal: already a new object
                    # (anything that may BE the original's own state counts: `self.f`, `self.f or None`, `[self.f][0]`)
                    a_attr = next((x.attr for x in ast.walk(a) if isinstance(x, ast.Attribute) and isinstance(x.value, ast.Name) and x.value.id == "self"), "?")

                    class _A:
                        attr = a_attr
                    a = _A
                    if (cls, a.attr) in immutable or (cls, pn) in immutable:
                        continue
                    n += 1
                    ctx.ob(f"{rule}.copy-owns-state", oc.rel, f"{cls}.__copy_create__", f"{tname}({pn}=self.{a.attr}) - __init__ keeps {pn} " +
                           ("as it is" if pn in kept else "as a new object"), pn not in kept,
                           f"the copy is built from the original's own `{a.attr}` and {tname}.__init__ stores the object it is given"
                           + (f" ({kept[pn][0][1]}, line {kept[pn][0][0]})" if pn in kept else "") + ": original and copy share it, "
                           "a change of one shows in the other", create.lineno)
        # ---- fill
        fill = ci.methods.get("__copy_fill__")
        funcs = []
        if fill is not None:
            clone = param_names(fill)[1]
            sup = [c for c in ast.walk(fill) if isinstance(c, ast.Call) and call_name(c) == "super().__copy_fill__"]
            pc, pf = idx.resolve(cls, "__copy_fill__", after=cls)
            from .astutil import body_nodoc
            parent_trivial = pf is None or all(isinstance(x, ast.Pass) for x in body_nodoc(pf))
            n += 1
            ctx.ob(f"{rule}.fill-super", ci.rel, f"{cls}.__copy_fill__", "super().__copy_fill__(clone)",
                   parent_trivial or (bool(sup) and all(len(c.args) == 1 and dotted(c.args[0]) == clone for c in sup)),
                   f"{cls}.__copy_fill__ does not chain to super().__copy_fill__({clone}): state of "
                   "the base classes is not copied", fill.lineno)
            funcs.append((f"{cls}.__copy_fill__", fill, clone))
        for h in helper_methods:
            if h in ci.methods:
                f = ci.methods[h]
                funcs.append((f"{cls}.{h}", f, param_names(f)[1]))
        if "__copy_create__" in ci.methods:
            funcs.append((f"{cls}.__copy_create__", ci.methods["__copy_create__"], None))
        for qual, f, clone in funcs:
            for st in stmts(f):
                if clone and isinstance(st, (ast.Assign, ast.AugAssign, ast.AnnAssign)) and getattr(st, "value", None) is not None:
                    targets = st.targets if isinstance(st, ast.Assign) else [st.target]
                    for t in targets:
                        root = t
                        while isinstance(root, ast.Subscript):
                            root = root.value
                        if not (isinstance(root, ast.Attribute) and isinstance(root.value, ast.Name)
                                and root.value.id == clone):
                            continue
                        n += 1
                        fr = is_fresh(st.value)
                        field = root.attr
                        exempt = immutable.get((cls, field))
                        ctx.ob(
                            f"{rule}.fresh", ci.rel, qual, st,
                            fr is not False or exempt is not None,
                            f"the clone's {field} is assigned from `{ast.unparse(st.value)}` without "
                            "copying: the copy shares this mutable state with its original",
                            st.lineno,
                            detail={"exempt": exempt} if exempt else None,
                        )
            # bound method used as a value
            called = {id(c.func) for c in ast.walk(f) if isinstance(c, ast.Call)}
            for a in ast.walk(f):
                if isinstance(a, ast.Attribute) and a.attr in ("copy", "deepcopy") and id(a) not in called \
                        and isinstance(a.ctx, ast.Load):
                    n += 1
                    ctx.ob(f"{rule}.method-value", ci.rel, qual, a, False,
                           f"`{ast.unparse(a)}` is passed as a value, not called: the clone receives a "
                           "bound method instead of a copy", a.lineno)
    return n
