"""The stored change sets of /verif (seeded/: breaking changes demonstrated on the real code, seeded_pyx/: argued breaking
edits of Cython sources, benign/: behaviour-preserving refactorings) as in-memory variants of the sources: a unified diff is
applied to the text that the check reads from /repo, nothing is written anywhere.  Used by the thorough tier
(core.self_validate): every breaking change of the property must raise a new finding (or stop the analysis), every
refactoring must stay silent (or, where benign/<id>/expected_rc says 2, may stop the analysis as 'cannot decide')."""

import os
import re

from .core import SRC, VERIF

_HUNK = re.compile(r"^@@ -(\d+)(?:,(\d+))? \+(\d+)(?:,(\d+))? @@")


def parse(diff_text):
    """{path: [(old_start, [old lines], [new lines]), ...]}"""
    files = {}
    cur = None
    hunk = None
    for line in diff_text.splitlines():
        if line.startswith("+++ "):
            p = line[4:].strip()
            p = p[2:] if p.startswith("b/") else p
            cur = files.setdefault(p, [])
            hunk = None
            continue
        if line.startswith(("--- ", "diff --git", "index ", "new file", "deleted file", "similarity", "rename ")):
            continue
        m = _HUNK.match(line)
        if m and cur is not None:
            hunk = (int(m.group(1)), [], [])
            cur.append(hunk)
            continue
        if hunk is None:
            continue
        if line.startswith("\\"):
            continue
        tag, body = (line[:1], line[1:]) if line else (" ", "")
        if tag == " ":
            hunk[1].append(body); hunk[2].append(body)
        elif tag == "-":
            hunk[1].append(body)
        elif tag == "+":
            hunk[2].append(body)
    return files


def apply(text, hunks):
    """apply hunks to text (the old block is looked for at the stated line first, then as close to it as possible); None if a
    hunk does not fit"""
    lines = text.split("\n")
    shift = 0
    for start, old, new in hunks:
        want = start - 1 + shift
        cands = [i for i in range(0, len(lines) - len(old) + 1) if lines[i:i + len(old)] == old] if old else [want]
        if not cands:
            # tolerate differences in trailing whitespace
            cands = [i for i in range(0, len(lines) - len(old) + 1) if [x.rstrip() for x in lines[i:i + len(old)]] == [x.rstrip() for x in old]]
            if not cands:
                return None
        at = min(cands, key=lambda i: abs(i - want))
        lines[at:at + len(old)] = new
        shift += len(new) - len(old)
    return "\n".join(lines)


def overrides(ctx, patch_path):
    """{rel: new text} for the files under src/biotite that the patch touches; None if it does not apply"""
    with open(patch_path, encoding="utf-8") as f:
        files = parse(f.read())
    out = {}
    prefix = SRC.rstrip("/") + "/"
    for path, hunks in files.items():
        if not path.startswith(prefix):
            continue
        rel = path[len(prefix):]
        full = ctx.path(rel)
        if not os.path.exists(full):
            return None
        with open(full, encoding="utf-8") as f:
            text = f.read()
        new = apply(text, hunks)
        if new is None:
            return None
        out[rel] = new
    return out or None


def stored(prop):
    """[(name, kind, patch path, expected_rc)] of the change sets stored for a property"""
    out = []
    for sub, kind in (("seeded", "break"), ("seeded_pyx", "break"), ("benign", "silent")):
        d = os.path.join(VERIF, sub)
        if not os.path.isdir(d):
            continue
        for name in sorted(os.listdir(d)):
            if not name.startswith(prop + "-"):
                continue
            p = os.path.join(d, name, "patch.diff")
            if not os.path.exists(p):
                continue
            exp = 0
            e = os.path.join(d, name, "expected_rc")
            if os.path.exists(e):
                exp = int(open(e).read().strip() or 0)
            out.append((f"{sub}/{name}", kind, p, exp))
    # refactorings stored for OTHER properties that touch a file this property reads must be silent here as well (the list of
    # files comes from this property's own modules: every path constant "…/….py(x)" in sa/props/<prop>.py)
    try:
        with open(os.path.join(VERIF, "sa", "props", prop + ".py"), encoding="utf-8") as f:
            mine = set(re.findall(r'"((?:[a-z_0-9]+/)*[a-z_0-9]+\.pyx?)"', f.read()))
    except OSError:
        mine = set()
    d = os.path.join(VERIF, "benign")
    if mine and os.path.isdir(d):
        for name in sorted(os.listdir(d)):
            if name.startswith(prop + "-"):
                continue
            p = os.path.join(d, name, "patch.diff")
            if not os.path.exists(p):
                continue
            with open(p, encoding="utf-8") as f:
                touched = {x[len(SRC) + 1:] for x in re.findall(r"^\+\+\+ b/(\S+)", f.read(), re.M) if x.startswith(SRC + "/")}
            if touched & mine:
                # (a recorded "cannot decide" holds for every property that reads the restructured function)
                e = os.path.join(d, name, "expected_rc")
                exp = int(open(e).read().strip() or 0) if os.path.exists(e) else 0
                out.append((f"benign/{name} (shared file)", "silent", p, exp))
    return out
