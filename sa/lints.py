"""Small repository-wide rules that several properties share (each call creates obligations under the caller's rule id)."""

import ast

from .astutil import call_name
from .core import AnalysisError

_CONCRETE_BUILTINS = {"float": "float64 only (float32 / float16 arrays are not matched)",
                      "int": "the platform integer only (int8 ... int32 / unsigned arrays are not matched)",
                      "complex": "complex128 only"}


_ABSTRACT_NP_TYPES = {"floating", "integer", "signedinteger", "unsignedinteger", "number", "inexact", "complexfloating", "character", "flexible",
                      "generic", "str_", "bytes_", "bool_", "object_", "datetime64", "timedelta64", "void"}


def dtype_family_tests(ctx, rel, rule, min_sites=1):
    """`np.issubdtype(dtype, T)` decides which branch an array of a whole dtype FAMILY takes (all floats are compared NaN-tolerantly,
    all integers are packed, ...).  T must be the abstract numpy type (np.floating, np.integer, np.str_ ...): the Python builtins
    float / int name one concrete dtype, so float32 data would silently take the other branch."""
    s = ctx.src(rel)
    n = 0
    for qual, f in s.funcs.items():
        for c in ast.walk(f):
            if isinstance(c, ast.Call) and (call_name(c) or "").endswith("issubdtype") and len(c.args) == 2:
                t = c.args[1]
                # nested functions are visited with their parents as well: one obligation per call site
                if any(c in ast.walk(g) for q2, g in s.funcs.items() if q2 != qual and q2.startswith(qual + ".")):
                    continue
                n += 1
                # an allow-list: the abstract scalar types of numpy (written as np.<name>); a concrete width (np.float64, np.double,
                # "float64", np.dtype(float)), a builtin or a computed type names one dtype of the family
                ok_t = isinstance(t, ast.Attribute) and isinstance(t.value, ast.Name) and t.value.id in ("np", "numpy") and t.attr in _ABSTRACT_NP_TYPES \
                    or isinstance(t, ast.Name) and t.id in ("str", "bytes", "bool", "object")      # builtins that stand for a whole kind
                ctx.ob(rule, rel, qual, ast.unparse(c)[:80], ok_t,
                       f"the test names {ast.unparse(t)[:40]}, not an abstract numpy type: arrays of the other widths of the family take the wrong branch",
                       c.lineno)
    ctx.floor(f"{rule}:{rel}", n, min_sites)
    return n


def caller_arguments_untouched(ctx, rel, rule, allowed=None, min_functions=3):
    """the public functions of a module change none of the objects their caller hands in (effects.param_mutations:
    mutating methods, stores, augmented assignments, by identity through local names and through the module's own
    helpers).  `allowed`: {(function, parameter): reason} for the documented in-place operations."""
    from .effects import param_mutations
    allowed = allowed or {}
    s = ctx.src(rel)
    muts = param_mutations(s.funcs)
    n = 0
    for q, f in s.funcs.items():
        name = q.split(".")[-1]
        if name.startswith("_") or "." in q:
            continue
        n += 1
        bad = {p: w for p, w in muts.get(q, {}).items() if (q, p) not in allowed}
        first = next(iter(bad.items()), None)
        ctx.ob(rule, rel, q, "parameters changed in place: " + (", ".join(sorted(muts.get(q, {}))) or "none"), not bad,
               (f"the caller's argument `{first[0]}` is changed in place ({first[1][0][1]} at line {first[1][0][0]}): a second call with "
                "the same object sees a different value" if first else ""), f.lineno)
    ctx.floor(f"{rule}:{rel}", n, min_functions)


def _truth_tested_names(fn, before=None):
    """names used as a truth value: `if x`, `while x`, `x and ..`, `not x`, `.. if x else ..`.  `before`: {name: line} - only tests
    in front of that line count (the first binding of the name by the function itself)"""
    out = {}

    def mark(e):
        if isinstance(e, ast.Name):
            if before is not None and e.id in before and e.lineno > before[e.id]:
                return
            out.setdefault(e.id, e)
        elif isinstance(e, ast.BoolOp):
            for v in e.values:
                mark(v)
        elif isinstance(e, ast.UnaryOp) and isinstance(e.op, ast.Not):
            mark(e.operand)
    refusing_ = set()
    for n in ast.walk(fn):
        if isinstance(n, ast.If) and n.body and all(isinstance(b, ast.Raise) for b in n.body) and not n.orelse:
            refusing_.update(id(x) for x in ast.walk(n.test))       # `if model == 0: raise ..` rejects the value, it does not mean "absent"
    for n in ast.walk(fn):
        if isinstance(n, ast.BoolOp):
            for v in n.values:
                v._parent_bool = n          # `x > 0 and elapsed > x`: a guard that switches the number off at 0
    for n in ast.walk(fn):
        if isinstance(n, (ast.If, ast.While, ast.IfExp, ast.Assert)):
            mark(n.test)
        elif isinstance(n, ast.comprehension):
            for c in n.ifs:
                mark(c)
        elif isinstance(n, ast.BoolOp):
            # in value position as well: `(x or 0) > 0`, `y = x and f(x)` decide by the truth of every operand but the last
            for v in n.values[:-1]:
                mark(v)
        elif isinstance(n, ast.UnaryOp) and isinstance(n.op, ast.Not):
            mark(n.operand)
        elif isinstance(n, ast.Call) and (call_name(n) or "") in ("bool", "operator.truth", "truth") and len(n.args) == 1:
            mark(n.args[0])
        elif isinstance(n, ast.Call) and isinstance(n.func, ast.Attribute) and n.func.attr in ("__bool__", "__len__") and not n.args:
            mark(n.func.value)
        elif isinstance(n, ast.Compare) and len(n.ops) == 1 and isinstance(n.ops[0], (ast.Eq, ast.NotEq)) and id(n) not in refusing_ and \
                any(isinstance(x, ast.Constant) and not isinstance(x.value, bool) and x.value == 0 and isinstance(x.value, (int, float)) for x in (n.left, n.comparators[0])):
            # `x != 0` / `x == 0` single the legal value 0 out exactly as the truth test does
            mark(n.left)
            mark(n.comparators[0])
        elif isinstance(n, ast.Compare) and len(n.ops) == 1 and isinstance(n.ops[0], (ast.Gt, ast.Lt, ast.GtE, ast.LtE)) and \
                any(isinstance(x, ast.Constant) and not isinstance(x.value, bool) and isinstance(x.value, (int, float)) and x.value == 0
                    for x in (n.left, n.comparators[0])) and isinstance(getattr(n, "_parent_bool", None), ast.BoolOp):
            mark(n.left)
            mark(n.comparators[0])
        elif isinstance(n, ast.Compare) and len(n.ops) == 1 and isinstance(n.ops[0], (ast.In, ast.NotIn)) \
                and isinstance(n.comparators[0], (ast.Tuple, ast.List, ast.Set)) \
                and any(isinstance(x, ast.Constant) and not isinstance(x.value, bool) and isinstance(x.value, (int, float)) and x.value == 0
                        for x in n.comparators[0].elts):
            mark(n.left)            # `x not in (None, 0)`
        elif isinstance(n, ast.Call) and (call_name(n) or "") in ("any", "all") and len(n.args) == 1 \
                and isinstance(n.args[0], (ast.GeneratorExp, ast.ListComp)) and len(n.args[0].generators) == 1 \
                and isinstance(n.args[0].generators[0].iter, (ast.Tuple, ast.List, ast.Set)) \
                and isinstance(n.args[0].elt, ast.Name) and isinstance(n.args[0].generators[0].target, ast.Name) \
                and n.args[0].elt.id == n.args[0].generators[0].target.id:
            for v in n.args[0].generators[0].iter.elts:
                mark(v)
        elif isinstance(n, ast.Call) and (call_name(n) or "") in ("any", "all") and len(n.args) == 1 and isinstance(n.args[0], (ast.Tuple, ast.List, ast.Set)):
            for v in n.args[0].elts:
                mark(v)
    return out


_TRUTH_NEUTRAL_CALLS = {"isinstance", "issubclass", "callable", "hasattr", "np.isnan", "np.isfinite", "np.isinf", "math.isnan", "math.isfinite",
                        "np.isscalar", "len"}


def _literal_value(e):
    """value of an expression made of literals and arithmetic only (`-0`, `1 - 1`, `0 * 5`), else a marker"""
    if all(isinstance(x, (ast.Constant, ast.BinOp, ast.UnaryOp, ast.operator, ast.unaryop, ast.Tuple, ast.Load)) for x in ast.walk(e)) \
            and not any(isinstance(x, ast.Constant) and isinstance(x.value, (str, bytes)) and len(x.value) > 20 for x in ast.walk(e)) \
            and not any(isinstance(x, ast.Pow) for x in ast.walk(e)):
        try:
            return eval(compile(ast.Expression(body=e), "<literal>", "eval"), {"__builtins__": {}}, {})
        except Exception:
            return _literal_value
    return _literal_value


def _decided_other_than_by_none(fn, names, before=None):
    """{name: node}: optional values (None = absent) whose presence a test decides by anything but a comparison with None.
    An allow-list: inside a test (if / while / conditional expression / assert / comprehension filter, operands of and / or /
    not anywhere) a mention of the name is fine as `p is None` / `p is not None`, as an operand of an ordering comparison or of
    `==` / `!=` / `in` whose other side is no falsy literal, as an index / key, or as the argument of a predicate that does not
    look at its magnitude (isinstance, np.isnan ..).  Every other expression in truth position that mentions the name - the bare
    name, `-p`, `p * 1`, `int(p)`, `abs(p) > 0`, `p != 1 - 1`, `p not in (None, False)`, `{None: 0, 0: 0}.get(p, 1)` - singles a
    legal falsy value out."""
    out = {}
    names = set(names)

    def mentions(e):
        for x in ast.walk(e):
            if isinstance(x, ast.Name) and x.id in names and isinstance(x.ctx, ast.Load):
                if before is not None and x.id in before and x.lineno > before[x.id]:
                    continue
                return x
        return None

    def falsy_literal(e):
        v = _literal_value(e)
        if v is _literal_value:
            return False
        if isinstance(v, tuple):
            return any((not x) and x is not None for x in v)
        return (not v) and v is not None

    def truth(e):
        """`e` stands where its truth value decides"""
        if isinstance(e, ast.BoolOp):
            for v in e.values:
                truth(v)
            return
        if isinstance(e, ast.UnaryOp) and isinstance(e.op, ast.Not):
            truth(e.operand)
            return
        if isinstance(e, ast.IfExp):
            truth(e.test)
            truth(e.body)
            truth(e.orelse)
            return
        if isinstance(e, ast.NamedExpr):
            truth(e.value)
            return
        m = mentions(e)
        if m is None:
            return
        if isinstance(e, ast.Compare):
            sides = [e.left] + list(e.comparators)
            for k, op in enumerate(e.ops):
                l, r = sides[k], sides[k + 1]
                for this, other in ((l, r), (r, l)):
                    if mentions(this) is None:
                        continue
                    if isinstance(other, ast.Constant) and other.value is None and isinstance(op, (ast.Is, ast.IsNot, ast.Eq, ast.NotEq)):
                        continue
                    if isinstance(op, (ast.In, ast.NotIn)) and this is l and isinstance(other, (ast.Tuple, ast.List, ast.Set)):
                        if any(falsy_literal(x) for x in other.elts):
                            out.setdefault(m.id, e)
                        continue
                    # (a comparison of an arithmetic RESULT with zero - `chunk_size % step != 0` - is about that result)
                    direct = isinstance(this, ast.Name) or isinstance(this, ast.UnaryOp) and isinstance(this.operand, ast.Name) or \
                        isinstance(this, ast.Call) and (call_name(this) or "") in ("abs", "int", "float", "bool", "len", "round") \
                        or not isinstance(this, (ast.BinOp, ast.Subscript, ast.Attribute))
                    if falsy_literal(other) and direct and id(e) not in refusing \
                            and not (isinstance(op, (ast.Lt, ast.LtE, ast.Gt, ast.GtE)) and isinstance(this, (ast.Name, ast.Subscript, ast.Attribute))):
                        # `p != 0`, `abs(p) > 0`, `p != 1 - 1`: the legal zero is singled out (an ordering test against zero that is the
                        # function's own range check is written against the documented bound, not in a test that also asks for None)
                        out.setdefault(m.id, e)
                        continue
                    if not isinstance(this, (ast.Name, ast.BinOp, ast.Subscript, ast.Attribute)) and not isinstance(op, (ast.In, ast.NotIn)):
                        out.setdefault(m.id, e)      # `int(p) == 1`, `(lambda ..)(p) is x`: the name goes through something else first
            return
        if isinstance(e, ast.Call) and (call_name(e) or "") in _TRUTH_NEUTRAL_CALLS:
            return
        if isinstance(e, ast.Subscript) and mentions(e.value) is None:
            return          # table[p] decides by what the table holds
        out.setdefault(m.id, e)

    # a test whose branch refuses (`if model == 0: raise ValueError(..)`) singles the value out to REJECT it, not to treat it as absent
    refusing = set()
    for n in ast.walk(fn):
        if isinstance(n, ast.If) and n.body and all(isinstance(b, ast.Raise) for b in n.body) and not n.orelse:
            refusing.update(id(x) for x in ast.walk(n.test))
    for n in ast.walk(fn):
        if isinstance(n, (ast.If, ast.While, ast.IfExp, ast.Assert)):
            truth(n.test)
        elif isinstance(n, ast.comprehension):
            for c in n.ifs:
                truth(c)
        elif isinstance(n, ast.BoolOp):
            for v in n.values[:-1]:
                truth(v)
        elif isinstance(n, ast.UnaryOp) and isinstance(n.op, ast.Not):
            truth(n.operand)
        elif isinstance(n, ast.Call) and (call_name(n) or "") in ("bool", "operator.truth", "truth", "any", "all") and n.args:
            for a in n.args:
                for x in (a.elts if isinstance(a, (ast.Tuple, ast.List, ast.Set)) else [a]):
                    truth(x)
        elif isinstance(n, ast.Call) and isinstance(n.func, ast.Attribute) and n.func.attr in ("__bool__", "__len__") and not n.args:
            truth(n.func.value)
    return out


def optional_numbers_tested_for_none(ctx, rel, rule, min_params=1, only=None):
    """A parameter whose default is None and which the function uses as a number (ordered comparison / arithmetic), as an index or
    as a key (`xs[p]`, `p in table`) has two different 'absent' candidates: None and the falsy legal value (0, the empty
    name).  The documented one is None; a truth test (`if timeout and ..`, `if not record_name:`) treats the legal falsy value
    as absent as well.  Truth tests that come after the function has bound the name itself are about the new value."""
    s = ctx.src(rel)
    n = 0
    # optional by inheritance: a function that hands its optional parameter on, unchanged, makes the callee's parameter optional
    # (`set_structure(.., record_name=None)` -> `_get_or_create_record(file, record_name)`); two rounds for chains of helpers
    inherited = {}
    by_name = {}
    for q_, f_ in s.funcs.items():
        by_name.setdefault(q_.split(".")[-1], []).append(q_)

    def own_optional(f_):
        a_ = f_.args
        pos_ = a_.posonlyargs + a_.args
        d_ = dict(zip([x.arg for x in pos_[len(pos_) - len(a_.defaults):]], a_.defaults))
        d_.update({x.arg: v for x, v in zip(a_.kwonlyargs, a_.kw_defaults) if v is not None})
        return {p_ for p_, v in d_.items() if isinstance(v, ast.Constant) and v.value is None}
    for _ in range(2):
        for q_, f_ in s.funcs.items():
            opt_ = own_optional(f_) | inherited.get(q_, set())
            stored_ = {x.id for x in ast.walk(f_) if isinstance(x, ast.Name) and isinstance(x.ctx, ast.Store)}
            for c in ast.walk(f_):
                if not isinstance(c, ast.Call):
                    continue
                cn = (call_name(c) or "").split(".")[-1]
                for callee in by_name.get(cn, []):
                    g = s.funcs[callee]
                    ps = [x.arg for x in g.args.posonlyargs + g.args.args]
                    if ps and ps[0] in ("self", "cls") and isinstance(c.func, ast.Attribute):
                        ps = ps[1:]
                    for k, a_ in enumerate(c.args):
                        if isinstance(a_, ast.Name) and a_.id in opt_ and a_.id not in stored_ and k < len(ps):
                            inherited.setdefault(callee, set()).add(ps[k])
                    for kw in c.keywords:
                        if isinstance(kw.value, ast.Name) and kw.value.id in opt_ and kw.value.id not in stored_ and kw.arg:
                            inherited.setdefault(callee, set()).add(kw.arg)
    for qual, f in s.funcs.items():
        if only is not None and qual not in only:
            continue
        a = f.args
        pos = a.posonlyargs + a.args
        defaults = dict(zip([x.arg for x in pos[len(pos) - len(a.defaults):]], a.defaults))
        defaults.update({x.arg: d for x, d in zip(a.kwonlyargs, a.kw_defaults) if d is not None})
        optional = {p for p, d in defaults.items() if isinstance(d, ast.Constant) and d.value is None} | inherited.get(qual, set())
        # private helpers are handed the optional value of their public caller without a default of their own: a parameter that
        # is compared with None somewhere in the function is optional as well
        for x in ast.walk(f):
            if isinstance(x, ast.Compare) and len(x.ops) == 1 and isinstance(x.ops[0], (ast.Is, ast.IsNot)) and isinstance(x.left, ast.Name) \
                    and isinstance(x.comparators[0], ast.Constant) and x.comparators[0].value is None \
                    and x.left.id in {y.arg for y in pos + a.kwonlyargs}:
                optional.add(x.left.id)
        if not optional:
            continue
        valued = set()
        for x in ast.walk(f):
            if isinstance(x, ast.Compare) and any(isinstance(o, (ast.Lt, ast.LtE, ast.Gt, ast.GtE)) for o in x.ops):
                valued |= {y.id for y in [x.left] + x.comparators if isinstance(y, ast.Name)}
            elif isinstance(x, ast.BinOp) and isinstance(x.op, (ast.Add, ast.Sub, ast.Mult, ast.Div, ast.FloorDiv, ast.Mod)):
                valued |= {y.id for y in (x.left, x.right) if isinstance(y, ast.Name)}
            elif isinstance(x, ast.Subscript):
                # xs[p], xs[:, p]: an index / a key
                valued |= {y.id for y in ([x.slice] if not isinstance(x.slice, ast.Tuple) else x.slice.elts) if isinstance(y, ast.Name)}
            elif isinstance(x, ast.Compare) and len(x.ops) == 1 and isinstance(x.ops[0], (ast.In, ast.NotIn)) and isinstance(x.left, ast.Name):
                valued.add(x.left.id)                       # p in table: a key
        first_store = {}
        for x in ast.walk(f):
            if isinstance(x, ast.Name) and isinstance(x.ctx, ast.Store) and x.id in optional:
                first_store[x.id] = min(first_store.get(x.id, 10 ** 9), x.lineno)
        truth = _truth_tested_names(f, before=first_store)
        for k_, v_ in _decided_other_than_by_none(f, optional & valued, before=first_store).items():
            truth.setdefault(k_, v_)
        for p in sorted(optional & valued):
            n += 1
            ctx.ob(rule, rel, qual, f"optional value `{p}` (None = absent)", p not in truth,
                   f"`{p}` is tested by its truth value: the legal falsy value (0, an empty name) is treated like None (absent)",
                   getattr(truth.get(p), "lineno", f.lineno))
    ctx.floor(f"{rule}:{rel}", n, min_params)
    return n


READ_ONLY_METHODS = {"as_array", "as_item", "serialize", "__eq__", "__len__", "__iter__", "__contains__", "keys", "values", "items",
                     "__str__", "__repr__", "copy", "get_structure", "get_sequence"}


def readers_leave_object(ctx, rel, rule, min_methods=2, names=READ_ONLY_METHODS):
    """methods that hand out a view of an object's content (as_array, as_item, serialize, ==, ...) do not change the arrays and
    containers the object holds: nothing is stored into, or changed in place through, `self.<attr>` or a local that may be
    the same object (`a = self._data.array.astype(dtype, copy=False); a[mask] = v` writes into the column itself)"""
    from .effects import param_mutations
    s = ctx.src(rel)
    muts = param_mutations(s.funcs)
    n = 0
    for q, f in s.funcs.items():
        if "." not in q or q.split(".")[-1] not in names:
            continue
        ps = [a.arg for a in f.args.posonlyargs + f.args.args]
        if not ps or ps[0] != "self":
            continue
        n += 1
        w = muts.get(q, {}).get("self", [])
        ctx.ob(rule, rel, q, "self is only read", not w,
               (f"the object's own data are changed while they are read ({w[0][1]} at line {w[0][0]}): what is read or written next differs"
                if w else ""), f.lineno)
    ctx.floor(f"{rule}:{rel}", n, min_methods)


def parameter_threaded(ctx, rel, rule, pname, min_calls=2):
    """a setting that the public entry point accepts reaches every helper that has a parameter of the same name: every call
    from a function with parameter `pname` to a function of the module with parameter `pname` passes the caller's value
    (omitting it silently falls back to the callee's default)"""
    s = ctx.src(rel)
    sig = {}
    for q, f in s.funcs.items():
        ps = [a.arg for a in f.args.posonlyargs + f.args.args]
        kws = [a.arg for a in f.args.kwonlyargs]
        if pname in ps or pname in kws:
            sig[q.split(".")[-1]] = (ps, kws)
    n = 0
    for q, f in s.funcs.items():
        ps = [a.arg for a in f.args.posonlyargs + f.args.args + f.args.kwonlyargs]
        if pname not in ps:
            continue
        for c in ast.walk(f):
            if not isinstance(c, ast.Call):
                continue
            cn = (call_name(c) or "").split(".")[-1]
            if cn not in sig:
                continue
            cps, ckws = sig[cn]
            if cps and cps[0] in ("self", "cls") and isinstance(c.func, ast.Attribute):
                cps = cps[1:]
            arg = None
            if pname in cps and cps.index(pname) < len(c.args):
                arg = c.args[cps.index(pname)]
            for k in c.keywords:
                if k.arg == pname:
                    arg = k.value
            n += 1
            # the NAME reaches the callee; it is the caller's value only if the function never binds the name again
            rebound = next((x for x in ast.walk(f) if isinstance(x, ast.Name) and x.id == pname and isinstance(x.ctx, (ast.Store, ast.Del))
                            or isinstance(x, (ast.FunctionDef, ast.AsyncFunctionDef, ast.ClassDef)) and x is not f and x.name == pname
                            or isinstance(x, ast.alias) and (x.asname or x.name).split(".")[0] == pname
                            or isinstance(x, ast.arg) and x.arg == pname and not any(x is a_ for a_ in f.args.posonlyargs + f.args.args + f.args.kwonlyargs)
                            or isinstance(x, (ast.MatchAs, ast.MatchStar)) and x.name == pname
                            or isinstance(x, ast.MatchMapping) and x.rest == pname
                            or isinstance(x, ast.ExceptHandler) and x.name == pname), None)
            ctx.ob(rule, rel, q, f"{cn}(.. {pname}={ast.unparse(arg) if arg is not None else '<default>'})",
                   isinstance(arg, ast.Name) and arg.id == pname and rebound is None,
                   f"`{pname}` given to {q.split('.')[-1]}() does not reach {cn}(): the callee works with " +
                   ("its default" if arg is None else ast.unparse(arg) + (f" (the name is bound again at line {getattr(rebound, 'lineno', '?')})" if rebound is not None else "")),
                   c.lineno)
    # a function with the parameter that is mentioned but not called on the spot (functools.partial(f, ..), `(f if c else g)(..)`,
    # stored in a table) is out of the reach of the rule above: its calls cannot be followed
    for q, f in s.funcs.items():
        direct = {id(c.func) for c in ast.walk(f) if isinstance(c, ast.Call)}
        for x in ast.walk(f):
            if isinstance(x, ast.Name) and isinstance(x.ctx, ast.Load) and x.id in sig and id(x) not in direct and x.id != q.split(".")[-1] \
                    and not any(isinstance(a_, ast.arg) and a_.arg == x.id for a_ in ast.walk(f.args)):
                n += 1
                ctx.ob(rule, rel, q, f"{x.id} is called where it is named", False,
                       f"`{x.id}` (it has the parameter `{pname}`) is passed on / wrapped instead of called: whether `{pname}` reaches it cannot be followed",
                       x.lineno)
    # calls from places that HAVE no such parameter - a module-level lambda, a method of a helper class, a function without it - decide
    # the setting themselves: whoever goes through them loses the caller's value (the public entry points of the reference that fix a
    # default for their callers are counted by the reference: no more of these than it had)
    covered = set()
    for q, f in s.funcs.items():
        ps = [a.arg for a in f.args.posonlyargs + f.args.args + f.args.kwonlyargs]
        if pname in ps:
            covered.update(id(c) for c in ast.walk(f) if isinstance(c, ast.Call))
    for lam in ast.walk(s.tree):
        if isinstance(lam, ast.Lambda) and any(a.arg == pname for a in ast.walk(lam.args) if isinstance(a, ast.arg)):
            covered.update(id(c) for c in ast.walk(lam) if isinstance(c, ast.Call))
    outside = [c for c in ast.walk(s.tree) if isinstance(c, ast.Call) and id(c) not in covered and (call_name(c) or "").split(".")[-1] in sig
               and (isinstance(c.func, ast.Name) or isinstance(c.func, ast.Attribute) and isinstance(c.func.value, ast.Name) and c.func.value.id in ("self", "cls"))]
    from . import localnames
    ref_n = ((localnames.table().get(rel, {}).get("__inventory__") or {}).get("unthreaded_calls") or {}).get(pname)
    if ref_n is not None:
        n += 1
        ctx.ob(rule, rel, "<module>", f"{len(outside)} call(s) of functions with `{pname}` from places without it", len(outside) <= ref_n,
               f"`{ast.unparse(outside[-1])[:60] if outside else ''}` is made where no `{pname}` is in scope (a lambda, a helper class, a function "
               f"without the parameter): the value the caller gave cannot reach it", outside[-1].lineno if outside else 1)
    ctx.floor(f"{rule}:{rel}", n, min_calls)
    return n


def unthreaded_call_counts(tree):
    """inventory side of parameter_threaded: for every parameter name that at least two functions of the module share, the number of
    calls of such functions from places where the name is no parameter in scope"""
    from . import pyxfront
    funcs = dict(pyxfront.iter_funcs(tree))
    by_param = {}
    for q, f in funcs.items():
        for a in f.args.posonlyargs + f.args.args + f.args.kwonlyargs:
            by_param.setdefault(a.arg, set()).add(q.split(".")[-1])
    out = {}
    for pname, names_ in by_param.items():
        if len(names_) < 2 or pname in ("self", "cls"):
            continue
        covered = set()
        for q, f in funcs.items():
            if pname in [a.arg for a in f.args.posonlyargs + f.args.args + f.args.kwonlyargs]:
                covered.update(id(c) for c in ast.walk(f) if isinstance(c, ast.Call))
        for lam in ast.walk(tree):
            if isinstance(lam, ast.Lambda) and any(a.arg == pname for a in ast.walk(lam.args) if isinstance(a, ast.arg)):
                covered.update(id(c) for c in ast.walk(lam) if isinstance(c, ast.Call))
        out[pname] = sum(1 for c in ast.walk(tree) if isinstance(c, ast.Call) and id(c) not in covered and (call_name(c) or "").split(".")[-1] in names_
                         and (isinstance(c.func, ast.Name) or isinstance(c.func, ast.Attribute) and isinstance(c.func.value, ast.Name)
                              and c.func.value.id in ("self", "cls")))
    return out


def _names(e):
    return {n.id for n in ast.walk(e) if isinstance(n, ast.Name)}


def lost_loop_updates(func):
    """stores that every iteration of a `for` loop makes into the SAME location without reading what the previous iteration
    put there and without using it inside the iteration: only the last iteration has an effect.
    Returns [(loop, assign)]"""
    from .exprnorm import _dead_ids
    out = []
    dead = _dead_ids(func)

    def own_statements(lp):
        """(statement, unconditional) for the statements of one iteration: the body and what is nested in if / try / with (not the
        bodies of inner loops - they have iterations of their own), dead code left out"""
        todo = [(b, True) for b in lp.body]
        while todo:
            st, unc = todo.pop(0)
            if id(st) in dead:
                continue
            yield st, unc
            if isinstance(st, (ast.For, ast.AsyncFor, ast.While, ast.FunctionDef, ast.AsyncFunctionDef, ast.ClassDef)):
                continue
            for fld in ("body", "orelse", "finalbody"):
                keep = unc and isinstance(st, (ast.With, ast.AsyncWith, ast.Try)) and fld in ("body", "finalbody")
                todo.extend((b, keep) for b in getattr(st, fld, None) or [])
            for h in getattr(st, "handlers", None) or []:
                todo.extend((b, False) for b in h.body)

    def stores_of(st):
        """[(target, value)] of a statement that binds by assignment (plain, chained, annotated, element-wise tuple)"""
        pairs = []
        if isinstance(st, ast.Assign):
            for t in st.targets:
                if isinstance(t, (ast.Tuple, ast.List)) and isinstance(st.value, (ast.Tuple, ast.List)) and len(t.elts) == len(st.value.elts):
                    pairs.extend(zip(t.elts, st.value.elts))
                else:
                    pairs.append((t, st.value))
        elif isinstance(st, ast.AnnAssign) and st.value is not None:
            pairs.append((st.target, st.value))
        return pairs

    def consuming_reads(lp, load, skip):
        """reads of the location inside the iteration that use its value (an assert only looks at it)"""
        asserts = {id(x) for b in ast.walk(lp) if isinstance(b, ast.Assert) for x in ast.walk(b)}
        return [x for b in lp.body for x in ast.walk(b) if isinstance(x, (ast.Subscript, ast.Attribute, ast.Name)) and isinstance(x.ctx, ast.Load)
                and ast.dump(x) == load and id(x) not in asserts and id(x) not in skip]

    for lp in ast.walk(func):
        if not isinstance(lp, ast.For) or id(lp) in dead:
            continue
        # a loop that may be left early by ITS OWN break keeps the first hit, not the last (breaks of inner loops are theirs)
        inner_loops = [x for b in lp.body for x in ast.walk(b) if isinstance(x, (ast.For, ast.AsyncFor, ast.While))]
        own_breaks = [x for b in lp.body for x in ast.walk(b) if isinstance(x, ast.Break) and not any(any(y is x for y in ast.walk(il)) for il in inner_loops)]
        if own_breaks:
            continue
        tvars = _names(lp.target)
        assigned = set(tvars)
        for x in ast.walk(lp):
            if isinstance(x, ast.Name) and isinstance(x.ctx, ast.Store):
                assigned.add(x.id)
        for st, unconditional in own_statements(lp):
            for tgt, value in stores_of(st):
                if isinstance(tgt, ast.Name):
                    # a flag that every iteration overwrites (`found = x.y is not None` instead of `if ..: found = True`): initialised with a
                    # bool before the loop, assigned - unconditionally, in whatever spelling - a value that depends on the loop variable
                    # and not on the flag, and not used inside the iteration
                    flag = tgt.id
                    if not unconditional or not (_names(value) & tvars) or flag in _names(value) or flag in tvars:
                        continue
                    init = [x for x in ast.walk(func) if isinstance(x, ast.Assign) and any(isinstance(t, ast.Name) and t.id == flag for t in x.targets)
                            and isinstance(x.value, ast.Constant) and isinstance(x.value.value, bool) and not any(x is y for y in ast.walk(lp))]
                    if not init:
                        continue
                    if consuming_reads(lp, ast.dump(ast.Name(id=flag, ctx=ast.Load())), set()):
                        continue
                    live_stores = [x for x in ast.walk(lp) if isinstance(x, ast.Name) and x.id == flag and isinstance(x.ctx, ast.Store) and id(x) not in dead]
                    if len(live_stores) == 1:
                        out.append((lp, st))
                    continue
                if not isinstance(tgt, (ast.Subscript, ast.Attribute)):
                    continue
                if _names(tgt) & assigned:
                    continue                       # another location in every iteration
                if not (_names(value) & tvars):
                    continue                       # loop-invariant value
                load = ast.dump(ast.parse(ast.unparse(tgt), mode="eval").body)
                if consuming_reads(lp, load, set()):
                    continue                       # accumulates, or is consumed inside the iteration
                # an object that the iteration goes on to fill (x.attr = ..; x.other = ..) is not an overwritten result
                base = tgt
                while isinstance(base, (ast.Subscript, ast.Attribute)):
                    base = base.value
                if isinstance(base, ast.Name):
                    own = {id(x) for x in ast.walk(st)}
                    if consuming_reads(lp, ast.dump(ast.Name(id=base.id, ctx=ast.Load())), own):
                        continue
                out.append((lp, st))
    return out


def loop_updates_kept(ctx, rel, rule, min_loops=1):
    """see lost_loop_updates: one obligation per function with for-loops"""
    s = ctx.src(rel)
    n = 0
    for q, f in s.funcs.items():
        if any(q.startswith(o + ".") for o in s.funcs if o != q and o.split(".")[-1] != o and False):
            continue
        loops = [lp for lp in ast.walk(f) if isinstance(lp, ast.For)]
        if not loops:
            continue
        n += 1
        bad = lost_loop_updates(f)
        ctx.ob(rule, rel, q, f"{len(loops)} for-loop(s): every store into a fixed location reads or uses what is there", not bad,
               (f"`{ast.unparse(bad[0][1])[:70]}` (line {bad[0][1].lineno}) is executed once per `{ast.unparse(bad[0][0].target)}` but always writes the same "
                "location from values that do not include the previous result: only the last iteration has an effect" if bad else ""), f.lineno)
    ctx.floor(f"{rule}:{rel}", n, min_loops)


def integer_tests_accept_numpy(ctx, rel, rule, min_tests=1):
    """`isinstance(x, int)` is False for NumPy integers - and positions / codes in this library usually are NumPy integers
    (elements of a code array, results of np.where / argmax).  Integer tests use numbers.Integral (or name np.integer)."""
    s = ctx.src(rel)
    n = 0
    # what the abstract names mean in this module: `Integral` / `Real` must come from `numbers`
    from_numbers = {(al.asname or al.name) for st in ast.walk(s.tree) if isinstance(st, ast.ImportFrom) and st.module == "numbers" for al in st.names}
    rebound = {t.id for st in s.tree.body if isinstance(st, (ast.Assign, ast.AnnAssign)) for t in ast.walk(st) if isinstance(t, ast.Name)
               and isinstance(t.ctx, ast.Store)}
    abstract = {"numbers.Integral", "numbers.Real", "numbers.Number"} | {x for x in ("Integral", "Real", "Number") if x in from_numbers and x not in rebound}
    intish = {"int", "np.integer", "np.signedinteger", "np.unsignedinteger", "np.int8", "np.int16", "np.int32", "np.int64", "np.uint8", "np.uint16",
              "np.uint32", "np.uint64", "np.intp", "np.int_", "Integral", "Real", "numbers.Integral", "numbers.Real"}
    for qual, f in s.funcs.items():
        for c in ast.walk(f):
            if any(c in ast.walk(g) for q2, g in s.funcs.items() if q2 != qual and q2.startswith(qual + ".")):
                continue
            # the exact class spelled out: `type(x) is int`, `type(x) == int`, `type(x) in (int, ..)`
            if isinstance(c, ast.Compare) and len(c.ops) == 1 and isinstance(c.left, ast.Call) and isinstance(c.left.func, ast.Name) \
                    and c.left.func.id == "type" and len(c.left.args) == 1:
                other = c.comparators[0]
                names_ = [ast.unparse(m) for m in (other.elts if isinstance(other, (ast.Tuple, ast.List, ast.Set)) else [other])]
                if any(x in intish for x in names_):
                    n += 1
                    ctx.ob(rule, rel, qual, ast.unparse(c)[:70], False,
                           "the test names one exact class: a NumPy integer (or a Python int, if a NumPy class is named) takes the other branch", c.lineno)
                continue
            if not (isinstance(c, ast.Call) and isinstance(c.func, ast.Name) and c.func.id == "isinstance" and len(c.args) == 2):
                continue
            t = c.args[1]
            members = list(t.elts) if isinstance(t, ast.Tuple) else [t]
            txt = [ast.unparse(m) for m in members]
            computed = not all(isinstance(m, (ast.Name, ast.Attribute)) for m in members)
            if not any(x in intish for x in txt) and not (computed and any(isinstance(x, ast.Name) and x.id in intish for x in ast.walk(t))):
                continue
            n += 1
            # accepted: an abstract class of `numbers`, or both the Python and the NumPy integer class
            wide = any(x in abstract for x in txt) or ("int" in txt and any(x in ("np.integer", "np.signedinteger") for x in txt))
            # ... and not taken back in the same condition (`isinstance(x, Integral) and not isinstance(x, np.generic)`)
            taken_back = False
            for b_ in ast.walk(f):
                if isinstance(b_, ast.BoolOp) and isinstance(b_.op, ast.And) and any(v is c for v in b_.values):
                    for v in b_.values:
                        if isinstance(v, ast.UnaryOp) and isinstance(v.op, ast.Not) and isinstance(v.operand, ast.Call) and call_name(v.operand) == "isinstance" \
                                and len(v.operand.args) == 2 and ast.dump(v.operand.args[0]) == ast.dump(c.args[0]):
                            taken_back = True
            ctx.ob(rule, rel, qual, ast.unparse(c)[:70], wide and not computed and not taken_back,
                   "a NumPy integer (np.int64 from np.where / argmax / an element of a code array) and a Python int must both pass an integer test: "
                   + ("the class tuple is computed" if computed else "part of it is excluded again in the same condition" if taken_back
                      else "the classes named accept only one of them"), c.lineno)
    ctx.floor(f"{rule}:{rel}", n, min_tests)
    return n


def super_init_forwards(ctx, rel, rule, min_classes=1):
    """a subclass constructor hands every parameter that its parent's constructor also has (same name) on to
    super().__init__: leaving one out silently replaces the caller's value by the parent's default"""
    s = ctx.src(rel)
    n = 0
    for cname, cnode in s.classes.items():
        if "." in cname or not cnode.bases:
            continue
        init = s.funcs.get(f"{cname}.__init__")
        if init is None:
            continue
        base = cnode.bases[0]
        bname = base.id if isinstance(base, ast.Name) else None
        pinit = s.funcs.get(f"{bname}.__init__") if bname else None
        if pinit is None:
            continue
        mine = [a.arg for a in init.args.posonlyargs + init.args.args + init.args.kwonlyargs][1:]
        theirs = [a.arg for a in pinit.args.posonlyargs + pinit.args.args][1:]
        theirs_kw = [a.arg for a in pinit.args.kwonlyargs]
        shared = [p for p in mine if p in theirs or p in theirs_kw]
        # every call of the parent's constructor that can run (a call behind `False and ..` cannot), not just the first one
        from .exprnorm import _dead_ids, _known_truth
        dead_ = _dead_ids(init)
        for bo in ast.walk(init):
            if isinstance(bo, ast.BoolOp):
                for k_, v_ in enumerate(bo.values[:-1]):
                    kt = _known_truth(v_) if not isinstance(v_, ast.Constant) else bool(v_.value)
                    if (isinstance(bo.op, ast.And) and kt is False) or (isinstance(bo.op, ast.Or) and kt is True):
                        dead_.update(id(x) for w_ in bo.values[k_ + 1:] for x in ast.walk(w_))
        sup = [c for c in ast.walk(init) if isinstance(c, ast.Call) and (call_name(c) or "") in ("super().__init__", f"{bname}.__init__")
               and id(c) not in dead_]
        if not sup:
            continue
        if not shared and len(mine) < len(theirs):
            continue
        n += 1
        missing = []
        for c in sup:
            args = list(c.args[1:]) if (call_name(c) or "").startswith(bname or "\0") else list(c.args)
            bound = dict(zip(theirs, args))
            bound.update({k.arg: k.value for k in c.keywords if k.arg})
            # the VALUE the caller gave is handed on: the parameter is forwarded by name and not rebound in front of the call
            rebound = {x.id for st in ast.walk(init) for x in ast.walk(st) if isinstance(x, ast.Name) and isinstance(x.ctx, (ast.Store, ast.Del))
                       and getattr(x, "lineno", 0) <= getattr(c, "lineno", 0)}
            missing += [p for p in shared if not (isinstance(bound.get(p), ast.Name) and bound[p].id == p) or p in rebound]
            # a constructor that takes as many parameters as its parent hands every one of them on (a renamed parameter that is not
            # passed silently becomes the parent's default)
            if len(mine) >= len(theirs) and len(bound) < len(theirs) and not any(isinstance(a, ast.Starred) for a in args) \
                    and not any(k.arg is None for k in c.keywords):
                missing += [p for p in theirs if p not in bound]
        c = sup[0]
        args = list(c.args[1:]) if (call_name(c) or "").startswith(bname or "\0") else list(c.args)
        bound = dict(zip(theirs, args))
        bound.update({k.arg: k.value for k in c.keywords if k.arg})
        ctx.ob(rule, rel, f"{cname}.__init__", f"super().__init__ receives {sorted(bound)}; shared parameters {shared}", not missing,
               f"parameter `{missing[0] if missing else ''}` of {cname}() is not handed on to {bname}.__init__ (gets "
               + ("its default there" if missing and missing[0] not in bound else "another value") + ")", c.lineno)
    ctx.floor(f"{rule}:{rel}", n, min_classes)
    return n


def out_params_written(ctx, rel, rule, min_funcs=1):
    """lowered Cython: a C function that reports a result through a pointer parameter (`int32* score`; some path stores
    `score[0] = ..`) stores it on EVERY path to a return - the caller's variable otherwise keeps whatever was in it"""
    from .cfg import CFG
    s = ctx.src(rel)
    n = 0
    for q, f in s.funcs.items():
        cf = s.low.funcs.get(q) if s.low is not None else None
        if cf is None:
            continue
        ptr_params = [p for p, t, _ in cf.params if t.replace(" ", "").endswith("*") and "[" not in t]
        for p in ptr_params:
            def stores(node):
                return node is not None and isinstance(node, (ast.Assign, ast.AugAssign)) and any(
                    isinstance(t, ast.Subscript) and isinstance(t.value, ast.Name) and t.value.id == p
                    for t in (node.targets if isinstance(node, ast.Assign) else [node.target]))
            if not any(stores(x) for x in ast.walk(f)):
                continue            # an input pointer
            n += 1
            g = CFG(f, lambda st: isinstance(st, ast.Raise))
            writers = {nd.id for nd in g.nodes if nd.kind == "stmt" and stores(nd.ast)}
            path = g.path(g.entry.id, g.exit.id, blocked=writers)
            # the pointer itself must stay the caller's: once the name is bound to another address the stores go there
            rebound = [x for x in ast.walk(f) if isinstance(x, ast.Name) and x.id == p and isinstance(x.ctx, (ast.Store, ast.Del))]
            ctx.ob(rule, rel, q, f"*{p} written on every path to a return", path is None and not rebound,
                   f"a return is reachable without `{p}[0] = ..`: the caller's variable keeps its previous content (e.g. the score of the other "
                   "direction is counted twice)", f.lineno)
    ctx.floor(f"{rule}:{rel}", n, min_funcs)
    return n


def alphabets_fit_matrix(ctx, rel, qual, rule, pairs=(("1", "seq1"), ("2", "seq2"))):
    """an aligner indexes the substitution matrix with the symbol codes of both sequences without bounds checks: BOTH alphabets
    must be known to fit before anything else happens - at the end of the function's set-up the facts
    `matrix.get_alphabetK().extends(seqK.get_alphabet())` hold for K = 1 and 2 (a guard that raises when either fails)"""
    from . import facts
    from .exprnorm import spec, canon
    import copy as _copy
    f = ctx.src(rel).func(qual)
    # the refusing guard (possibly under an opt-out flag such as check_matrix): what holds when it does not raise
    guards = [st for st in ast.walk(f) if isinstance(st, ast.If) and not st.orelse and st.body and isinstance(st.body[-1], ast.Raise)
              and any(isinstance(c, ast.Call) and isinstance(c.func, ast.Attribute) and c.func.attr == "extends" for c in ast.walk(st.test))]
    # the guard counts where it is evaluated unconditionally, in front of everything else: a statement of the function body itself
    # (or of a top-level `if <flag parameter>:` - the documented opt-out), not dead code, and with the names it mentions still
    # bound to the caller's arguments (no store to them in front of it)
    from .exprnorm import _dead_ids
    dead = _dead_ids(f)
    params = {a.arg for a in f.args.posonlyargs + f.args.args + f.args.kwonlyargs}
    placed = []
    for k_, st in enumerate(f.body):
        cands_ = [st] if st in guards else ([b for b in st.body if b in guards] if isinstance(st, ast.If) and isinstance(st.test, ast.Name)
                                              and st.test.id in params and not st.orelse else [])
        for g in cands_:
            if id(g) in dead:
                continue
            mentioned = {x.id for x in ast.walk(g.test) if isinstance(x, ast.Name)}
            earlier = {x.id for p_ in f.body[:k_] for x in ast.walk(p_) if isinstance(x, ast.Name) and isinstance(x.ctx, (ast.Store, ast.Del))}
            # ... and not rebound afterwards either, unless the reference function did the same (the banded aligner swaps the sequences
            # and transposes the matrix with them): more stores to a name of the guard than the reference had void what it established
            ref_counts = getattr(f, "_ref_store_counts", None)
            more = False
            if ref_counts is not None:
                from .exprnorm import store_counts
                now_ = store_counts(f)
                more = any(now_.get(nm_, 0) > ref_counts.get(nm_, 0) for nm_ in mentioned)
            if not (mentioned & earlier) and not more:
                placed.append(g)
    known = set()
    for g in placed[:1]:
        for cj in facts.conjuncts(facts.negate(_copy.deepcopy(g.test))):
            known.add(canon(cj))
    missing = [k for k, sq in pairs if spec(f"matrix.get_alphabet{k}().extends({sq}.get_alphabet())") not in known]
    ctx.ob(rule, rel, qual, "both sequence alphabets are checked against the matrix before the tables are filled", not missing,
           f"after the argument checks it is not established that alphabet {missing[0] if missing else ''} of the matrix extends the alphabet of its "
           "sequence (e.g. `not (a or b)` refuses only when BOTH fail): symbol codes then index the score matrix out of bounds", f.lineno)


def raising_functions(ctx, rels):
    """names of the functions of the given modules that can raise (a `raise` in their own body or, transitively, in a function of
    these modules they call)"""
    bodies = {}
    for rel in rels:
        for q, f in ctx.src(rel).funcs.items():
            bodies.setdefault(q.split(".")[-1], []).append(f)
    raising = {n for n, fs in bodies.items() if any(isinstance(x, ast.Raise) for f in fs for x in ast.walk(f))}
    changed = True
    while changed:
        changed = False
        for n, fs in bodies.items():
            if n in raising:
                continue
            for f in fs:
                for c in ast.walk(f):
                    if isinstance(c, ast.Call) and (call_name(c) or "").split(".")[-1] in raising:
                        raising.add(n)
                        changed = True
                        break
    return raising


def validation_before_mutation(ctx, rel, rule, raising, method_names=("set_structure", "set_header", "__setitem__"), min_methods=1):
    """a setter must not leave a half-written object behind when it refuses its input: every call that can refuse (a function
    known to raise) is evaluated before the first statement that changes the object's own state in place (`del self.x[..]`,
    `self.x += ..`, `self.x[..] = ..`, `self.x.clear()`).  (`self.x = f(..)` alone is atomic: the right side is evaluated first.)"""
    from .effects import MUTATING_METHODS
    s = ctx.src(rel)
    n = 0
    for q, f in s.funcs.items():
        if "." not in q or q.split(".")[-1] not in method_names:
            continue
        # the simple statements in the order they are written (the blocks of if / for / with / try opened up; the test / iterable /
        # manager of a compound statement stands in front of its blocks)
        def flat(block):
            out = []
            for st in block:
                if isinstance(st, (ast.FunctionDef, ast.AsyncFunctionDef, ast.ClassDef)):
                    continue
                inner = [(fld, getattr(st, fld)) for fld in ("body", "orelse", "finalbody") if isinstance(getattr(st, fld, None), list) and getattr(st, fld)]
                if not inner:
                    out.append(st)
                    continue
                for e_ in [getattr(st, a_, None) for a_ in ("test", "iter")] + [i_.context_expr for i_ in getattr(st, "items", [])]:
                    if e_ is not None:
                        out.append(ast.copy_location(ast.Expr(value=e_), st))
                for _, blk in inner:
                    out.extend(flat(blk))
                for h in getattr(st, "handlers", []) or []:
                    out.extend(flat(h.body))
            return out
        stmts_ = flat(f.body)
        # the names through which the object's own state is reached: self, its fields, and every local that may be one of them
        # (`me = self`, `lines = self.lines`, `for lines in [self.lines]`) - the alias model, not the spelling `self.`
        from . import alias as _alias
        from .exprnorm import _inplace_written, _mutated_names
        grp = _alias.groups(f)
        own = {"self"} | {k_ for k_ in list(grp) + list(getattr(grp, "holds", {})) if k_.startswith("self.")}
        own |= {x.value.id + "." + x.attr for x in ast.walk(f) if isinstance(x, ast.Attribute) and isinstance(x.value, ast.Name) and x.value.id == "self"}
        self_like = set(_alias.closure_of(own, grp))

        def base_of(t):
            while isinstance(t, (ast.Subscript, ast.Attribute)):
                t = t.value
            return t.id if isinstance(t, ast.Name) else None

        def mutates(st):
            """True: the statement changes the object's state in place; "aug": `x op= value` (the value is evaluated first);
            "rebind": `self.x = value` (atomic: the value is evaluated first, then the field is replaced); False"""
            kind = False
            for x in ast.walk(st):
                if isinstance(x, (ast.Assign, ast.AnnAssign)):
                    tg = x.targets if isinstance(x, ast.Assign) else [x.target]
                    for t in tg:
                        for y in ast.walk(t):
                            if isinstance(y, ast.Attribute) and isinstance(y.ctx, ast.Store) and isinstance(y.value, ast.Name) and y.value.id in self_like \
                                    and not (isinstance(x.value, ast.Constant) and x.value.value is None):
                                kind = kind or "rebind"      # (`self._cache = None` resets what is recomputed on demand: no state is lost)
            # stores and deletions through the name (wherever the target stands), augmented assignments, calls of the known
            # in-place methods on it, and out= arguments (a method of the object's own class that is merely CALLED is not taken
            # for a change: `self.subcomponent_class()`)
            touched = set()
            for x in ast.walk(st):
                if isinstance(x, (ast.Subscript, ast.Attribute)) and isinstance(x.ctx, (ast.Store, ast.Del)):
                    if not (isinstance(x, ast.Attribute) and isinstance(x.ctx, ast.Store) and isinstance(x.value, ast.Name) and x.value.id in self_like):
                        touched |= _alias.written_through(x.value, grp)      # (`self.x = v` itself is the atomic case)
                elif isinstance(x, ast.AugAssign):
                    touched |= _alias.written_through(x.target, grp) if not isinstance(x.target, ast.Name) else _alias.closure_of({x.target.id}, grp)
                elif isinstance(x, ast.Call) and isinstance(x.func, ast.Attribute) and x.func.attr in MUTATING_METHODS:
                    touched |= _alias.written_through(x.func.value, grp)
                if isinstance(x, ast.Call):
                    from .exprnorm import _out_arguments
                    for o_ in _out_arguments(x):
                        touched |= _alias.written_through(o_, grp)
            hit = touched & self_like
            # (a field that is rebound is reported by its pseudo-name: that alone is the atomic case above)
            rebound = {f"{y.value.id}.{y.attr}" for x in ast.walk(st) if isinstance(x, (ast.Assign, ast.AnnAssign))
                       for t in (x.targets if isinstance(x, ast.Assign) else [x.target]) for y in [t]
                       if isinstance(y, ast.Attribute) and isinstance(y.value, ast.Name)}
            hit -= rebound
            if hit:
                if isinstance(st, ast.AugAssign) and base_of(st.target) in self_like | {"self"}:
                    return "aug"
                return True
            return kind

        def may_refuse(node):
            return [c for c in ast.walk(node) if isinstance(c, ast.Call) and (
                (call_name(c) or "").split(".")[-1] in raising
                or not isinstance(c.func, (ast.Name, ast.Attribute)) and any(isinstance(y, ast.Name) and y.id in raising for y in ast.walk(c.func)))]
        first = next((k for k, st in enumerate(stmts_) if mutates(st)), None)
        calls_ = [c for st in stmts_ for c in may_refuse(st)]
        # the method's own refusals: `raise` statements outside exception handlers (a handler that re-raises is translating an error)
        def own_raises(node):
            out = []
            todo = [node]
            while todo:
                x = todo.pop()
                if isinstance(x, ast.Raise):
                    out.append(x)
                if isinstance(x, (ast.FunctionDef, ast.AsyncFunctionDef, ast.Lambda)) and x is not node:
                    continue
                for ch in ast.iter_child_nodes(x):
                    if not isinstance(ch, ast.ExceptHandler):
                        todo.append(ch)
            return out
        raises_ = [r for st in stmts_ for r in own_raises(st)]
        if first is None or not (calls_ or raises_):
            continue
        n += 1
        # calls in statements after the first mutation; an augmented assignment evaluates its own right side before it changes the target
        late = [c for st in stmts_[first + 1:] for c in may_refuse(st)]
        late += [r for st in stmts_[first + 1:] for r in own_raises(st)]
        # (a refusing call inside the statement that makes the first change is evaluated before that change: operands, index and
        # argument expressions come first)
        ctx.ob(rule, rel, q, f"{len(calls_)} refusing call(s) and {len(raises_)} own refusal(s), first in-place change at statement {first + 1}", not late,
               (f"`{ast.unparse(late[0])[:60]}` can refuse its input, but the object was already changed in place at line "
                f"{stmts_[first].lineno}: after the error the previous content is gone (a damaged file is written later)" if late else ""), f.lineno)
    ctx.floor(f"{rule}:{rel}", n, 0)
    return n


def constructors_leave_arguments(ctx, rel, rule, min_classes=1):
    """a constructor reads what it is given: it does not store into, or change in place, the containers and arrays of its caller
    (effects.param_mutations over the module: `columns[key] = ..` on the caller's dict, `values.sort()`, ...)"""
    from .effects import param_mutations
    s = ctx.src(rel)
    muts = param_mutations(s.funcs)
    n = 0
    for q, f in s.funcs.items():
        if q.split(".")[-1] not in ("__init__", "__cinit__") or q.count(".") != 1:
            continue
        n += 1
        bad = {p: w for p, w in muts.get(q, {}).items() if p not in ("self", "cls")}
        # a container argument that is kept as the object's own store and then written through the object's item interface
        # (`self._columns = columns` .. `self[key] = col`: the class's __setitem__ writes into what `_columns` is) is the caller's object
        from .effects import params_kept_by_identity
        kept = {p: w for p, w in params_kept_by_identity(f).items() if p not in ("self", "cls")}
        me = f.args.args[0].arg if f.args.args else "self"
        through = [x for x in ast.walk(f) if isinstance(x, ast.Subscript) and isinstance(x.ctx, (ast.Store, ast.Del)) and isinstance(x.value, ast.Name) and x.value.id == me
                   or isinstance(x, ast.Call) and isinstance(x.func, ast.Attribute) and isinstance(x.func.value, ast.Name) and x.func.value.id == me
                   and x.func.attr in ("update", "setdefault", "pop", "popitem", "clear", "__setitem__", "__delitem__")]
        if kept and through:
            for p_, w_ in kept.items():
                bad.setdefault(p_, [(through[0].lineno, f"kept as it is ({w_[0][1]}) and written through `{ast.unparse(through[0])[:40]}`")])
        first = next(iter(bad.items()), None)
        ctx.ob(rule, rel, q, "arguments changed in place: " + (", ".join(sorted(bad)) or "none"), not bad,
               (f"the constructor changes its caller's `{first[0]}` in place ({first[1][0][1]} at line {first[1][0][0]}): the caller's object and "
                "every other object built from it are affected" if first else ""), f.lineno)
    ctx.floor(f"{rule}:{rel}", n, min_classes)
    return n


def derived_state_refreshed(ctx, rel, cls, rule, content_attr="lines", exempt=()):
    """an object that keeps values computed from its content (`self._index = ..` built from `self.lines`, memoised results) must
    recompute or reset every one of them whenever the content is replaced: each method that assigns `self.<content_attr>` assigns,
    itself or through the `self.` helpers it calls, every private attribute that any other method of the class stores"""
    s = ctx.src(rel)
    meths = {q.split(".")[-1]: f for q, f in s.funcs.items() if q.startswith(cls + ".") and q.count(".") == 1}
    cnode = s.classes.get(cls)
    if cnode is None or not meths:
        raise AnalysisError(f"anchor vanished: class {cls} in {rel}")

    from .exprnorm import _dead_ids

    def stored(fn, refresh=False):
        """private attributes of the object that the method stores (any target form, tuple elements included).  With `refresh`:
        only stores that bring the attribute up to date - live code, a value (not a bare annotation) that does not read the attribute
        itself, in a method that does not read the attribute before it stores it (a memo that returns early when it is set)"""
        dead = _dead_ids(fn) if refresh else set()
        out = set()
        reads_first = set()
        if refresh:
            first_store = {}
            for st in ast.walk(fn):
                for x in ast.walk(st) if isinstance(st, (ast.Assign, ast.AugAssign, ast.AnnAssign)) else []:
                    if isinstance(x, ast.Attribute) and isinstance(x.ctx, ast.Store) and isinstance(x.value, ast.Name) and x.value.id in ("self", "file"):
                        first_store[x.attr] = min(first_store.get(x.attr, 10 ** 9), getattr(x, "lineno", 0))
            for x in ast.walk(fn):
                nm_ = None
                if isinstance(x, ast.Attribute) and isinstance(x.ctx, ast.Load) and isinstance(x.value, ast.Name) and x.value.id in ("self", "file"):
                    nm_ = x.attr
                elif isinstance(x, ast.Call) and call_name(x) == "getattr" and len(x.args) >= 2 and isinstance(x.args[1], ast.Constant) \
                        and isinstance(x.args[0], ast.Name) and x.args[0].id in ("self", "file"):
                    nm_ = x.args[1].value
                if nm_ in first_store and getattr(x, "lineno", 0) < first_store[nm_]:
                    reads_first.add(nm_)
        for st in ast.walk(fn):
            if not isinstance(st, (ast.Assign, ast.AugAssign, ast.AnnAssign)) or id(st) in dead:
                continue
            if refresh and (getattr(st, "value", None) is None):
                continue
            for t in (st.targets if isinstance(st, ast.Assign) else [st.target]):
                for x in ast.walk(t):
                    if isinstance(x, ast.Attribute) and isinstance(x.ctx, ast.Store) and isinstance(x.value, ast.Name) and x.value.id in ("self", "file") \
                            and x.attr.startswith("_"):
                        if refresh:
                            val_reads = any(isinstance(y, ast.Attribute) and y.attr == x.attr and isinstance(y.value, ast.Name) and y.value.id in ("self", "file")
                                            or isinstance(y, ast.Constant) and y.value == x.attr for y in ast.walk(st.value))
                            if val_reads or x.attr in reads_first:
                                continue
                        out.add(x.attr)
        return out
    all_attrs = set()
    for n_, f in meths.items():
        if n_ not in ("__init__",):
            all_attrs |= stored(f)
    all_attrs |= {st.targets[0].id for st in cnode.body if isinstance(st, ast.Assign) and isinstance(st.targets[0], ast.Name) and st.targets[0].id.startswith("_")
                  and isinstance(st.value, ast.Constant) and st.value.value is None}

    def closure(name, seen=None):
        seen = seen if seen is not None else set()
        if name in seen or name not in meths:
            return set()
        seen.add(name)
        out = stored(meths[name], refresh=True)
        for c in ast.walk(meths[name]):
            if isinstance(c, ast.Call) and isinstance(c.func, ast.Attribute) and isinstance(c.func.value, ast.Name) and c.func.value.id in ("self", "file"):
                out |= closure(c.func.attr, seen)
        return out
    n = 0
    for name, f in meths.items():
        replaces = any(isinstance(st, ast.Assign) and any(isinstance(t, ast.Attribute) and t.attr == content_attr and isinstance(t.value, ast.Name)
                                                          and t.value.id == "self" for t in st.targets) for st in ast.walk(f))
        if not replaces or name == "__init__":
            continue
        n += 1
        missing = sorted(all_attrs - closure(name) - set(exempt))
        ctx.ob(rule, rel, f"{cls}.{name}", f"replaces self.{content_attr}; derived attributes {sorted(all_attrs)}", not missing,
               f"`self.{missing[0] if missing else ''}` is computed from the content elsewhere in the class but neither recomputed nor reset here: after "
               f"{name}() it still describes the previous content", f.lineno)
    ctx.floor(f"{rule}:{rel}", n, 1)
    return n


def alphabets_compared_by_value(ctx, rel, rule, min_sites=0):
    """alphabets are value objects: two alphabets with the same symbols are equal but need not be the same object (unpickled or
    deep-copied sequences carry their own copy).  A decision that depends on WHICH alphabet a sequence has uses `==`; `is` is
    only acceptable against `self` (the shortcut in front of the value comparison)"""
    s = ctx.src(rel)
    n = 0

    def alph(e):
        return "alph" in ast.unparse(e).lower()
    for qual, f in s.funcs.items():
        for c in ast.walk(f):
            if any(c in ast.walk(g) for q2, g in s.funcs.items() if q2 != qual and q2.startswith(qual + ".")):
                continue
            if isinstance(c, ast.Call) and alph(c):
                # identity taken through a call: id(a) .. id(b), operator.is_(a, b), (lambda a, b: a is b)(x, y)
                fnm = call_name(c) or ""
                by_call = fnm == "id" or fnm.split(".")[-1] in ("is_", "is_not") or \
                    isinstance(c.func, ast.Lambda) and any(isinstance(o, (ast.Is, ast.IsNot)) for x in ast.walk(c.func) if isinstance(x, ast.Compare) for o in x.ops)
                if by_call and any(alph(a) for a in c.args):
                    n += 1
                    ctx.ob(rule, rel, qual, ast.unparse(c)[:80], False,
                           "the identity of an alphabet object decides: an equal alphabet that is another object (after pickling / deepcopy) takes "
                           "the other branch", c.lineno)
                continue
            if not (isinstance(c, ast.Compare) and any(isinstance(o, (ast.Is, ast.IsNot, ast.Eq, ast.NotEq)) for o in c.ops)):
                continue
            sides = [c.left] + list(c.comparators)
            pairs = [(sides[k], sides[k + 1], o) for k, o in enumerate(c.ops) if isinstance(o, (ast.Is, ast.IsNot, ast.Eq, ast.NotEq))]
            pairs = [(l, r, o) for l, r, o in pairs if (alph(l) or alph(r)) and not any(isinstance(x, ast.Constant) for x in (l, r))
                     and not any(isinstance(x, ast.Name) and x.id == "self" for x in (l, r))]
            if not pairs:
                continue
            n += 1
            ctx.ob(rule, rel, qual, ast.unparse(c)[:80], not any(isinstance(o, (ast.Is, ast.IsNot)) for _, _, o in pairs),
                   "two alphabets are compared by identity: an equal alphabet that is another object (after pickling / deepcopy) takes the other branch",
                   c.lineno)
    ctx.floor(f"{rule}:{rel}", n, min_sites)
    return n


_ONE_SHOT_CALLS = {"map", "filter", "zip", "iter", "reversed", "enumerate"}


def _one_shot(e):
    """an expression whose value can be iterated once only (a generator, a lazy builtin iterator, an itertools object)"""
    if isinstance(e, ast.GeneratorExp):
        return True
    if isinstance(e, ast.Call):
        cn = call_name(e) or ""
        return cn in _ONE_SHOT_CALLS or cn.startswith("itertools.") or cn in ("csv.reader",)
    return False


_MATERIALISING = {"list", "tuple", "set", "frozenset", "dict", "sorted", "str", "bytes", "bytearray", "sum", "any", "all", "max", "min", "len",
                  "np.array", "np.asarray", "np.fromiter", "np.concatenate", "np.stack", "numpy.array", "numpy.asarray", "Counter", "collections.Counter",
                  "collections.deque", "deque", "OrderedDict", "collections.OrderedDict"}


def _one_shot_inside(e, generator_functions=(), module_aliases=None):
    """does the value of `e` contain a one-shot iterator that nothing materialises: a generator expression, a lazy builtin (map, zip,
    filter, iter, reversed, enumerate), an itertools object (under any name the module imports it by), `x.__iter__()`, the call
    of a function that contains `yield` - anywhere in the expression (`[gen][0]`, `gen or None`, `next(iter([gen]))`,
    `(lambda s: (..for..))(x)`), unless a call that reads it to the end (list, tuple, sorted, "".join, np.array ..) stands around it"""
    module_aliases = module_aliases or {}

    def lazy(x):
        if isinstance(x, ast.GeneratorExp):
            return True
        if isinstance(x, ast.Call):
            cn = call_name(x) or ""
            head = cn.split(".")[0]
            if cn in _ONE_SHOT_CALLS or cn in ("csv.reader",) or cn.startswith("itertools.") or module_aliases.get(head) == "itertools":
                return True
            if isinstance(x.func, ast.Attribute) and x.func.attr in ("__iter__", "__reversed__", "items", "keys", "values") and x.func.attr.startswith("__"):
                return True
            if isinstance(x.func, ast.Name) and x.func.id in generator_functions:
                return True
            if isinstance(x.func, ast.Name) and module_aliases.get(x.func.id, "").startswith("itertools."):
                return True
        return False

    def walk(x, covered):
        # next(iter(E)) is an ITEM of E: the iterator made on the spot is used up to that item
        if isinstance(x, ast.Call) and isinstance(x.func, ast.Name) and x.func.id == "next" and x.args and isinstance(x.args[0], ast.Call) \
                and isinstance(x.args[0].func, ast.Name) and x.args[0].func.id == "iter" and len(x.args[0].args) == 1:
            return walk(x.args[0].args[0], covered)
        if lazy(x) and not covered:
            return True
        mat = isinstance(x, ast.Call) and ((call_name(x) or "") in _MATERIALISING or isinstance(x.func, ast.Attribute) and x.func.attr == "join")
        for ch in ast.iter_child_nodes(x):
            if walk(ch, covered or mat or isinstance(x, (ast.ListComp, ast.SetComp, ast.DictComp)) and ch in x.generators):
                return True
        return False
    return walk(e, False)


def _exclusive(fn, a, b):
    """do the nodes a and b sit in different arms of one if / else (so that at most one of them runs)"""
    for st in ast.walk(fn):
        if isinstance(st, ast.If):
            in_body = lambda x: any(y is x for s_ in st.body for y in ast.walk(s_))
            in_else = lambda x: any(y is x for s_ in st.orelse for y in ast.walk(s_))
            if (in_body(a) and in_else(b)) or (in_body(b) and in_else(a)):
                return True
        if isinstance(st, ast.IfExp):
            ib = lambda x: any(y is x for y in ast.walk(st.body))
            ie = lambda x: any(y is x for y in ast.walk(st.orelse))
            if (ib(a) and ie(b)) or (ib(b) and ie(a)):
                return True
    return False


class _Bound:
    def __init__(self, node, value):
        self.node = node
        self.value = value
        self.lineno = getattr(node, "lineno", getattr(value, "lineno", 0))


def iterator_locals_consumed_twice(fn, generator_functions=(), module_aliases=None):
    """[(name, binding, second use)] for locals bound to a one-shot iterator that may be read twice on one run: two reads that
    are not in different arms of an if, or a read inside a loop that the binding is outside of (`try: f(it) except: g(it)` -
    the handler finds the iterator exhausted)"""
    out = []
    binds = {}
    # every construct that binds a name to (an item of) a value: plain, chained and annotated assignments, walrus, `for x in [value]`,
    # `with manager(value) as x`
    gen_funcs = {n.name for n in ast.walk(fn) if isinstance(n, (ast.FunctionDef, ast.AsyncFunctionDef)) and n is not fn and not n.decorator_list
                 and any(isinstance(y, (ast.Yield, ast.YieldFrom)) for y in ast.walk(n))} | set(generator_functions or ())
    for st in ast.walk(fn):
        pairs = []
        if isinstance(st, ast.Assign):
            pairs = [(t, st.value) for t in st.targets]
        elif isinstance(st, (ast.AnnAssign, ast.NamedExpr)) and st.value is not None:
            pairs = [(st.target, st.value)]
        elif isinstance(st, (ast.For, ast.AsyncFor, ast.comprehension)):
            # the target is an ITEM of what is iterated: `for x in [gen]` binds x to the generator, `for i in enumerate(xs)` does not
            if isinstance(st.iter, (ast.List, ast.Tuple, ast.Set)) and isinstance(st.target, ast.Name):
                pairs = [(st.target, e_) for e_ in st.iter.elts]
        elif isinstance(st, (ast.With, ast.AsyncWith)):
            # `with m as x` binds what m.__enter__() hands out - known only for the pass-through manager contextlib.nullcontext(v)
            pairs = [(i.optional_vars, i.context_expr.args[0]) for i in st.items if i.optional_vars is not None
                     and isinstance(i.context_expr, ast.Call) and (call_name(i.context_expr) or "").split(".")[-1] == "nullcontext" and i.context_expr.args]
        for t, v in pairs:
            for x in ast.walk(t):
                if isinstance(x, ast.Name) and isinstance(x.ctx, ast.Store):
                    binds.setdefault(x.id, []).append(_Bound(st, v))
    # a name bound to a name that is one-shot is one-shot (`upper = (..); sequence = upper`)
    for _ in range(3):
        for nm, bs in list(binds.items()):
            for b in list(bs):
                if isinstance(b.value, ast.Name) and b.value.id in binds and b.value.id != nm:
                    for b2 in binds[b.value.id]:
                        if _one_shot_inside(b2.value, gen_funcs, module_aliases) and not any(b3.value is b2.value for b3 in bs):
                            bs.append(_Bound(b.node, b2.value))
    for nm, bs in binds.items():
        shots = [b for b in bs if _one_shot_inside(b.value, gen_funcs, module_aliases)]
        if not shots:
            continue
        # reads that do not run the iterator to its end: `it is None`, `next(it)` (one item, by design)
        passive = {id(x) for c_ in ast.walk(fn) if isinstance(c_, ast.Compare) and all(isinstance(o, (ast.Is, ast.IsNot)) for o in c_.ops)
                   for x in [c_.left] + list(c_.comparators)}
        passive |= {id(c_.args[0]) for c_ in ast.walk(fn) if isinstance(c_, ast.Call) and isinstance(c_.func, ast.Name) and c_.func.id == "next" and c_.args}
        uses = [x for x in ast.walk(fn) if isinstance(x, ast.Name) and x.id == nm and isinstance(x.ctx, ast.Load) and id(x) not in passive]
        bad = None
        for i, u in enumerate(uses):
            for v in uses[i + 1:]:
                if not _exclusive(fn, u, v):
                    bad = v
                    break
            if bad is not None:
                break
        if bad is None:
            for lp in ast.walk(fn):
                if isinstance(lp, (ast.For, ast.While)) and not any(any(y is b.node for y in ast.walk(lp)) for b in shots):
                    inner = [u for u in uses if any(y is u for s_ in lp.body for y in ast.walk(s_))]
                    if inner:
                        bad = inner[0]
                        break
        if bad is not None:
            out.append((nm, shots[0], bad))
    return out


def iterators_consumed_once(ctx, rel, rule):
    """a local bound to a generator / lazy iterator is read at most once per run of the function (a second reader - the fallback
    in an `except`, a second pass - sees it exhausted and silently works on nothing)"""
    # the rule must see its own example on every run (it has no instance in a healthy module)
    probe = ast.parse("def f(xs):\n    it = (x.upper() for x in xs)\n    try:\n        return enc(it)\n    except ValueError:\n        return enc2(it)\n").body[0]
    if not iterator_locals_consumed_twice(probe):
        raise AnalysisError(f"{rule}: the lint does not see its built-in example")
    s = ctx.src(rel)
    n = 0
    # functions of the module that are generators, and the names under which the module imports itertools (and its functions)
    # (a decorated generator function - @contextlib.contextmanager - does not hand out a generator)
    mod_gens = {q.split(".")[-1] for q, g in s.funcs.items() if not g.decorator_list and any(isinstance(y, (ast.Yield, ast.YieldFrom)) for y in ast.walk(g))}
    mod_alias = {}
    for st in ast.walk(s.tree):
        if isinstance(st, ast.Import):
            for al in st.names:
                mod_alias[(al.asname or al.name).split(".")[0]] = al.name
        elif isinstance(st, ast.ImportFrom) and st.module:
            for al in st.names:
                mod_alias[al.asname or al.name] = f"{st.module}.{al.name}"
    for q, f in s.funcs.items():
        if any(q != q2 and q.startswith(q2 + ".") for q2 in s.funcs):
            continue
        hits = iterator_locals_consumed_twice(f, mod_gens, mod_alias)
        lazy = sorted({t.targets[0].id for t in ast.walk(f) if isinstance(t, ast.Assign) and len(t.targets) == 1 and isinstance(t.targets[0], ast.Name)
                       and _one_shot_inside(t.value, mod_gens, mod_alias)} | {h[0] for h in hits})
        if not lazy and not hits:
            continue
        n += 1
        first = hits[0] if hits else None
        ctx.ob(rule, rel, q, "one-shot iterators read once: " + (", ".join(lazy) or "none bound"), not hits,
               (f"`{first[0]}` is a one-shot iterator (bound at line {first[1].lineno}) and may be read a second time at line {first[2].lineno}: "
                "the second reader finds it exhausted" if first else ""), f.lineno, nontrivial=bool(lazy))
    return n


def lookup_results_tested_for_none(ctx, rel, rule, min_sites=0):
    """`v = table.get(key)` answers None for a missing key.  Whether the key was found is `v is None` - the truth of v is a
    statement about the VALUE (index 0, an empty string, an empty list are found and falsy)"""
    s = ctx.src(rel)
    n = 0
    # module-level functions with an explicit `return None` next to a return of something that is not a constant: their answer is an
    # optional value whose falsy instances (an empty name, index 0) are found values
    optional_funcs = set()
    for q0, f0 in s.funcs.items():
        if "." in q0:
            continue
        rets0 = [r.value for r in ast.walk(f0) if isinstance(r, ast.Return)]
        if any(isinstance(v, ast.Constant) and v.value is None for v in rets0 if v is not None) \
                and any(v is not None and not isinstance(v, ast.Constant) for v in rets0):
            optional_funcs.add(q0)
    for q, f in s.funcs.items():
        if any(q != q2 and q.startswith(q2 + ".") for q2 in s.funcs):
            continue
        binds = {}
        for st in ast.walk(f):
            if isinstance(st, ast.Assign) and len(st.targets) == 1 and isinstance(st.targets[0], ast.Name):
                binds.setdefault(st.targets[0].id, []).append(st.value)
            elif isinstance(st, ast.Name) and isinstance(st.ctx, ast.Store):
                binds.setdefault(st.id, [])

        def plain_get(v):
            if isinstance(v, ast.Call) and isinstance(v.func, ast.Name) and v.func.id in optional_funcs:
                return True         # a function of the module that answers None for "there is none" and the thing itself otherwise
            return isinstance(v, ast.Call) and isinstance(v.func, ast.Attribute) and v.func.attr == "get" and not v.keywords \
                and (len(v.args) == 1 or len(v.args) == 2 and isinstance(v.args[1], ast.Constant) and v.args[1].value is None)
        stores = {}
        for x in ast.walk(f):
            if isinstance(x, ast.Name) and isinstance(x.ctx, ast.Store):
                stores[x.id] = stores.get(x.id, 0) + 1
        looked_up = {nm for nm, vs in binds.items() if vs and all(plain_get(v) for v in vs) and stores.get(nm) == len(vs)}
        # the look-up itself in truth position: `table.get(key) or default`, `if table.get(key):`, `not table.get(key)`
        par_ = {}
        for p_ in ast.walk(f):
            for ch_ in ast.iter_child_nodes(p_):
                par_[id(ch_)] = p_
        for c_ in ast.walk(f):
            if not plain_get(c_):
                continue
            up_ = par_.get(id(c_))
            in_truth = isinstance(up_, ast.BoolOp) and up_.values[-1] is not c_ or isinstance(up_, ast.UnaryOp) and isinstance(up_.op, ast.Not) \
                or isinstance(up_, (ast.If, ast.While, ast.IfExp)) and up_.test is c_
            if isinstance(up_, ast.BoolOp) and isinstance(up_.op, ast.Or) and up_.values[-1] is not c_:
                in_truth = True
            if in_truth:
                n += 1
                ctx.ob(rule, rel, q, f"`{ast.unparse(c_)}` in truth position", False,
                       f"`{ast.unparse(up_)[:80]}` decides by the truth of what the look-up found: a found value that is falsy (index 0, an empty string) "
                       "is taken for 'not found'", c_.lineno)
        if not looked_up:
            continue
        truth = _truth_tested_names(f)
        for nm in sorted(looked_up):
            n += 1
            ctx.ob(rule, rel, q, f"`{nm}` = <table>.get(key): found iff `{nm} is not None`", nm not in truth,
                   f"`{nm}` is the result of a look-up and is tested by its truth value: a found value that is falsy (index 0, an empty "
                   "string) is taken for 'not found'", getattr(truth.get(nm), "lineno", f.lineno))
    ctx.floor(f"{rule}:{rel}", n, min_sites)
    return n


# ---------------------------------------------------------------------------
# declared C types (lowered Cython): the `cdef` prefix leaves the tree, the types stay in Lowered.decls / funcs / ctypedefs


def ctype_facts(low):
    """what the Cython source declares: resolved type of every typed local / attribute per scope, result type, exception clause
    and parameter types of every function, the file's ctypedefs, and the typed call sites whose argument does not fit"""
    def res(t):
        t = (t or "").replace("const ", "").strip()
        base, dims = (t[:t.index("[")].strip(), t[t.index("["):]) if "[" in t else (t, "")
        return low.resolve(base) + dims.replace(" ", "")
    decls = {sc: {n: res(t) for n, t in d.items()} for sc, d in low.decls.items()}
    funcs = {q: {"ret": res(f.rettype), "except": f.except_clause or "", "params": [[pn, res(pt)] for pn, pt, _ in f.params]} for q, f in low.funcs.items()}
    import re as _re
    # compiler directives that are no decorators: `# cython: boundscheck=False` header comments, and other names for the cython module
    directives = sorted(" ".join(ln.split()) for ln in low.source.splitlines() if _re.match(r"^\s*#\s*(cython|distutils)\s*:", ln))
    directives += sorted("cimport-as " + " ".join(ln.split()) for ln in low.source.splitlines()
                         if _re.match(r"^\s*(cimport\s+cython\s+as\s+\w+|import\s+cython\s+as\s+\w+|from\s+cython\s+c?import\b)", ln))
    return {"decls": decls, "funcs": funcs, "ctypedefs": {a: low.resolve(a) for a in low.ctypedefs}, "narrowing_calls": sorted(_narrowing_calls(low, res)),
            "directives": directives}


def _narrowing_calls(low, res):
    from .normalize import _conversion_free, _ctype_of_expr, _CNUM
    from . import pyxfront
    out = set()
    by_name = {}
    for q, f in low.funcs.items():
        by_name.setdefault(f.name, []).append(f)
    for q, fn in pyxfront.iter_funcs(low.tree):
        ptypes = {pn: pt for pn, pt, _ in getattr(low.funcs.get(q), "params", [])}

        def tn(n_, q=q, ptypes=ptypes):
            return res(low.ctype(q, n_) or ptypes.get(n_, ""))
        for c in ast.walk(fn):
            if not isinstance(c, ast.Call):
                continue
            nm = c.func.id if isinstance(c.func, ast.Name) else c.func.attr if isinstance(c.func, ast.Attribute) and isinstance(c.func.value, ast.Name) \
                and c.func.value.id in ("self", "cls") else None
            for f in by_name.get(nm, []):
                ps = [p_ for p_ in f.params if p_[0] not in ("self", "cls")]
                for k, a in enumerate(c.args):
                    if k >= len(ps):
                        break
                    pt = res(ps[k][1])
                    at = _ctype_of_expr(a, tn)
                    if pt in _CNUM and at in _CNUM and not _conversion_free(pt, at):
                        out.add(f"{q} -> {f.name}({ps[k][0]}: {pt}) <- {at}")
    return out


def declared_types_keep_values(ctx, rel, rule="R0.declared-c-types"):
    """a C declaration converts what is stored into it.  Against the declarations of the reference (localnames.json, `ctypes`):
    a typed local / attribute / parameter / result may get a wider type of the same kind, never one that loses values
    (float32 -> int, uint32 -> uint8, int32 -> unsigned int); the file's ctypedefs keep their targets; the exception clause of
    a C function stays (without it a `raise` inside is printed and ignored); no call hands a typed value to a narrower typed
    parameter of a function of the file unless the reference did the same."""
    from . import localnames
    from .normalize import _conversion_free
    s = ctx.src(rel)
    if not s.is_pyx or s.low is None:
        return 0
    ref = (localnames.table().get(rel, {}).get("__inventory__") or {}).get("ctypes")
    if ref is None:
        return 0
    new = ctype_facts(s.low)
    n = 0

    def split(t):
        return (t[:t.index("[")], t[t.index("["):]) if "[" in t else (t, "")

    def fits(nt, ot):
        (nb, nd), (ob_, od) = split(nt), split(ot)
        return nd == od and (nb == ob_ or _conversion_free(nb, ob_))
    bad_td = sorted(a for a, t in ref["ctypedefs"].items() if new["ctypedefs"].get(a, t) != t)
    n += 1
    ctx.ob(rule, rel, "<module>", "ctypedefs keep their targets", not bad_td,
           f"`{bad_td[0] if bad_td else ''}` now means {new['ctypedefs'].get(bad_td[0]) if bad_td else ''} "
           f"(was {ref['ctypedefs'].get(bad_td[0]) if bad_td else ''}): every declaration that uses the name converts differently", 1)
    for q, rf in sorted(ref["funcs"].items()):
        nf = new["funcs"].get(q)
        if nf is None:
            continue
        n += 1
        probs = []
        if rf["ret"] and nf["ret"] != rf["ret"] and not fits(nf["ret"], rf["ret"]):
            probs.append(f"the result is declared {nf['ret'] or 'object'} (was {rf['ret']}): values are converted on return")
        if (nf["except"] or "") != (rf["except"] or ""):
            probs.append(f"the exception clause changed from `{rf['except'] or 'none'}` to `{nf['except'] or 'none'}`: an exception raised inside is "
                         "no longer propagated the same way")
        for k, (pn, pt) in enumerate(rf["params"]):
            if k < len(nf["params"]) and pt and nf["params"][k][1] != pt and not fits(nf["params"][k][1], pt):
                probs.append(f"parameter {k + 1} is declared {nf['params'][k][1] or 'object'} (was {pt}): arguments are converted on entry")
        ctx.ob(rule, rel, q, "result type, exception clause and parameter types", not probs, "; ".join(probs), getattr(s.low.funcs.get(q), "line", 1))
    for sc, rd in sorted(ref["decls"].items()):
        nd = new["decls"].get(sc)
        if nd is None:
            continue
        bad = [(nm, nd[nm], t) for nm, t in sorted(rd.items()) if nm in nd and nd[nm] != t and not fits(nd[nm], t)]
        n += 1
        ctx.ob(rule, rel, sc or "<module>", f"{len(rd)} typed names keep every value of their reference type", not bad,
               (f"`{bad[0][0]}` is declared {bad[0][1]} (was {bad[0][2]}): what is stored into it is truncated, narrowed or changes sign" if bad else ""), 1)
        # a NEW typed local of at most 16 bits that takes an element of a buffer whose element type is not that type (a fused code type, a
        # wider integer): the element is truncated on the way in
        fn_ = s.funcs.get(sc) if sc else None
        def _plain(t_):
            t_ = s.low.resolve(t_.replace("const ", "").strip())
            t_ = t_[3:] if t_.startswith("np.") else t_
            return t_[:-2] if t_.endswith("_t") else t_
        narrow = {nm: t for nm, t in nd.items() if nm not in rd and _plain(t) in
                  ("uint8", "int8", "uint16", "int16", "char", "unsigned char", "signed char", "short", "unsigned short")}
        ptypes_ = dict((pn_, pt_) for pn_, pt_ in (new["funcs"].get(sc, {}).get("params") or []) if pt_) if sc else {}
        if fn_ is not None and narrow:
            for st_ in ast.walk(fn_):
                if isinstance(st_, ast.Assign) and len(st_.targets) == 1 and isinstance(st_.targets[0], ast.Name) and st_.targets[0].id in narrow:
                    for sub_ in ast.walk(st_.value):
                        if isinstance(sub_, ast.Subscript) and isinstance(sub_.value, ast.Name):
                            src_t = nd.get(sub_.value.id, "") or ptypes_.get(sub_.value.id, "")
                            base_t = _plain(split(src_t)[0]) if src_t else ""
                            if src_t and base_t != _plain(narrow[st_.targets[0].id]):
                                n += 1
                                ctx.ob(rule, rel, sc, st_, False,
                                       f"the new local `{st_.targets[0].id}` is declared {narrow[st_.targets[0].id]} and takes an element of `{sub_.value.id}` "
                                       f"({src_t}): a value that does not fit is truncated (a symbol code 256 becomes 0)", st_.lineno)
    n += 1
    ctx.ob(rule, rel, "<module>", "file-level compiler directives and names of the cython module", new.get("directives", []) == ref.get("directives", []),
           f"the file-level directives changed from {ref.get('directives', [])} to {new.get('directives', [])}: bounds checks, wrap-around, division and "
           "overflow behaviour of every function follow them", 1)
    extra = sorted(set(new["narrowing_calls"]) - set(ref.get("narrowing_calls", [])))
    n += 1
    ctx.ob(rule, rel, "<module>", "no typed argument is handed to a narrower typed parameter", not extra,
           (f"{extra[0]}: the value is narrowed / changes sign at the call without a check" if extra else ""), 1)
    return n


# ---------------------------------------------------------------------------
# None told apart from the other falsy values: against the reference


def none_tested_params(tree):
    """{qualname: [parameters that the function compares with None]} - the inventory side of `none_distinction_kept`"""
    from . import pyxfront
    out = {}
    for q, f in pyxfront.iter_funcs(tree):
        ps = {a.arg for a in f.args.posonlyargs + f.args.args + f.args.kwonlyargs}
        hit = sorted({x.left.id for x in ast.walk(f) if isinstance(x, ast.Compare) and len(x.ops) == 1 and isinstance(x.ops[0], (ast.Is, ast.IsNot))
                      and isinstance(x.left, ast.Name) and x.left.id in ps and isinstance(x.comparators[0], ast.Constant) and x.comparators[0].value is None})
        if hit:
            out[q] = hit
    return out


def none_distinction_kept(ctx, rel, rule="R0.none-still-told-apart"):
    """a parameter that the reference function compared with None (None = 'not given', next to legal falsy values such as False, 0, an
    empty list) is still compared with None - or handed on, unchanged, to something that can do it.  `if flag:` in place of
    `if flag is None: .. elif not flag: ..` folds the explicit False into the default."""
    from . import localnames
    s = ctx.src(rel)
    ref = (localnames.table().get(rel, {}).get("__inventory__") or {}).get("none_tested")
    if ref is None:
        return 0
    now = none_tested_params(s.tree)
    n = 0
    for q, ps in sorted(ref.items()):
        f = dict.get(s.funcs, q)
        if f is None or q in s.outside_subset:
            continue
        params = {a.arg for a in f.args.posonlyargs + f.args.args + f.args.kwonlyargs}
        lost = []
        for p_ in ps:
            if p_ not in params or p_ in now.get(q, []):
                continue
            handed = any(isinstance(c, ast.Call) and any(isinstance(a, ast.Name) and a.id == p_ for a in list(c.args) + [k.value for k in c.keywords])
                         for c in ast.walk(f))
            used = any(isinstance(x, ast.Name) and x.id == p_ and isinstance(x.ctx, ast.Load) for x in ast.walk(f))
            if used and not handed:
                lost.append(p_)
        n += 1
        ctx.ob(rule, rel, q, f"{', '.join(ps)}: still compared with None", not lost,
               f"`{lost[0] if lost else ''}` was compared with None (None = not given) and is now only used by its truth or value: a legal falsy "
               "argument (False, 0, an empty container) is treated like a missing one", f.lineno)
    return n


def equality_covers_state(ctx, rel, rule, classes, exempt=None):
    """`a == b` for value objects: every attribute the constructor stores takes part in `__eq__`, as a requirement that the two
    objects agree on it (`self.f == o.f` in a returned conjunction, `if self.f != o.f: return False`, `np.array_equal(self.f, o.f)`,
    a property of the same name read instead of the attribute).  A field that equality does not look at makes two different objects
    equal.  `exempt`: {(class, field): reason}"""
    from .astutil import walk_local, param_names
    from .facts import conjuncts, disjuncts, negate
    import copy as _copy
    exempt = exempt or {}
    src = ctx.src(rel)
    n = 0
    for cls in classes:
        init = src.func(f"{cls}.__init__")
        eq = src.func(f"{cls}.__eq__")
        other = param_names(eq)[1]
        state = []
        for st in ast.walk(init):
            if isinstance(st, ast.Attribute) and isinstance(st.ctx, ast.Store) and isinstance(st.value, ast.Name) and st.value.id == "self" \
                    and st.attr not in state:
                state.append(st.attr)
        reqs = []
        for st in walk_local(eq):
            if isinstance(st, ast.Return) and st.value is not None and not isinstance(st.value, ast.Constant):
                reqs.extend(conjuncts(_copy.deepcopy(st.value)))
            elif isinstance(st, ast.If) and not st.orelse and len(st.body) == 1 and isinstance(st.body[0], ast.Return) \
                    and isinstance(st.body[0].value, ast.Constant) and st.body[0].value.value is False:
                reqs.extend(negate(d) for d in disjuncts(st.test))
        covered = set()
        for r in reqs:
            pair = None
            if isinstance(r, ast.Compare) and len(r.ops) == 1 and isinstance(r.ops[0], ast.Eq):
                pair = (r.left, r.comparators[0])
            elif isinstance(r, ast.Call) and (call_name(r) or "").split(".")[-1] in ("array_equal", "array_equiv") and len(r.args) == 2 and not r.keywords:
                pair = (r.args[0], r.args[1])
            if pair is None:
                continue
            pairs = [pair]
            a, b = pair
            # (f1, f2) == (g1, g2): item by item;  self.key() == other.key() with a method that returns a tuple of the object's fields
            def key_tuple(e_):
                """`x.key()` of a method of the class that returns a tuple of its object's fields -> that tuple, read on x"""
                if isinstance(e_, ast.Call) and not e_.args and not e_.keywords and isinstance(e_.func, ast.Attribute) and isinstance(e_.func.value, ast.Name) \
                        and e_.func.value.id in ("self", other) and f"{cls}.{e_.func.attr}" in src.funcs:
                    m_ = src.funcs[f"{cls}.{e_.func.attr}"]
                    rets_ = [r_ for r_ in walk_local(m_) if isinstance(r_, ast.Return)]
                    if len(rets_) == 1 and isinstance(rets_[0].value, ast.Tuple) and all(
                            isinstance(x_, ast.Attribute) and isinstance(x_.value, ast.Name) and x_.value.id == param_names(m_)[0] for x_ in rets_[0].value.elts):
                        return ast.Tuple(elts=[ast.Attribute(value=ast.Name(id=e_.func.value.id, ctx=ast.Load()), attr=x_.attr, ctx=ast.Load())
                                               for x_ in rets_[0].value.elts], ctx=ast.Load())
                return e_
            a, b = key_tuple(a), key_tuple(b)
            if isinstance(a, ast.Tuple) and isinstance(b, ast.Tuple) and len(a.elts) == len(b.elts):
                pairs = list(zip(a.elts, b.elts))
            elif False and isinstance(a, ast.Call) and isinstance(b, ast.Call) and not a.args and not b.args and not a.keywords and not b.keywords \
                    and isinstance(a.func, ast.Attribute) and isinstance(b.func, ast.Attribute) and a.func.attr == b.func.attr \
                    and isinstance(a.func.value, ast.Name) and isinstance(b.func.value, ast.Name) and {a.func.value.id, b.func.value.id} == {"self", other} \
                    and f"{cls}.{a.func.attr}" in src.funcs:
                m_ = src.funcs[f"{cls}.{a.func.attr}"]
                rets_ = [r_ for r_ in walk_local(m_) if isinstance(r_, ast.Return)]
                if len(rets_) == 1 and isinstance(rets_[0].value, ast.Tuple):
                    for e_ in rets_[0].value.elts:
                        if isinstance(e_, ast.Attribute) and isinstance(e_.value, ast.Name) and e_.value.id == param_names(m_)[0]:
                            covered.add(e_.attr.lstrip("_"))
                continue
            for a, b in pairs:
                if not (isinstance(a, ast.Attribute) and isinstance(b, ast.Attribute) and isinstance(a.value, ast.Name) and isinstance(b.value, ast.Name)):
                    continue
                if {a.value.id, b.value.id} != {"self", other} or a.attr != b.attr:
                    continue
                covered.add(a.attr.lstrip("_"))
        missing = [f for f in state if f.lstrip("_") not in covered and (cls, f) not in exempt]
        n += 1
        # an equality that is computed by a loop or through locals is not one of the forms read here: no verdict
        opaque = [x for x in walk_local(eq) if isinstance(x, (ast.For, ast.While, ast.Assign, ast.AugAssign, ast.NamedExpr, ast.Try, ast.With))]
        if missing and opaque:
            ctx.cannot_decide(False, f"{rel}: {cls}.__eq__ decides through a {type(opaque[0]).__name__} statement - which fields it compares cannot be read off")
            continue
        ctx.ob(rule, rel, f"{cls}.__eq__", f"state {state}; compared {sorted(covered)}", not missing,
               f"{cls}.__eq__ never requires the two objects to agree on {missing}: objects that differ there compare equal", eq.lineno)
    ctx.floor("value-classes-with-equality", n, len(classes))
    return n


def enum_members_distinct(ctx, rel, rule, min_classes=1):
    """the members of an enumeration the rules and the code compare against are pairwise different values: a member assigned from another
    member (`REVERSE = FORWARD`) is an alias of it, two equal literals are one member, and `auto()` next to explicit numbers continues from the
    previous value and may land on a later literal"""
    s = ctx.src(rel)
    n = 0
    for cnode in ast.walk(s.tree):
        if not isinstance(cnode, ast.ClassDef) or not any(("Enum" in ast.unparse(b) or "Flag" in ast.unparse(b)) for b in cnode.bases):
            continue
        members = [(st.targets[0].id, st.value, st) for st in cnode.body if isinstance(st, ast.Assign) and len(st.targets) == 1
                   and isinstance(st.targets[0], ast.Name) and not st.targets[0].id.startswith("_")]
        if not members:
            continue
        n += 1
        names = {m_[0] for m_ in members}
        alias = [m_[0] for m_ in members if any(isinstance(x, ast.Name) and x.id in names and x.id != m_[0] for x in ast.walk(m_[1]))
                 and not isinstance(m_[1], ast.BinOp)]        # (FLAG_A | FLAG_B: a combination is a member of its own)
        lits = [ast.literal_eval(m_[1]) for m_ in members if isinstance(m_[1], ast.Constant)]
        dup = sorted({repr(v) for v in lits if lits.count(v) > 1})
        autos = [m_[0] for m_ in members if isinstance(m_[1], ast.Call) and (call_name(m_[1]) or "").split(".")[-1] == "auto"]
        # (explicit numbers in FRONT of the first auto() are safe - `NONE = 0` of a Flag: auto() counts on from them; one BEHIND an auto() may
        # repeat what auto() has given)
        first_auto = next((k_ for k_, m_ in enumerate(members) if m_[0] in autos), len(members))
        mixed = any(isinstance(m_[1], ast.Constant) and isinstance(m_[1].value, int) for m_ in members[first_auto:])
        bad = ([f"{alias} alias other members"] if alias else []) + ([f"the value(s) {dup} are given twice"] if dup else []) + \
            ([f"auto() ({autos}) next to explicit numbers"] if mixed else [])
        ctx.ob(rule, rel, cnode.name, f"{len(members)} members, pairwise different", not bad,
               "; ".join(bad) + ": two names for one member - every test for the one is true for the other", cnode.lineno)
    ctx.floor(f"{rule}:{rel}", n, min_classes)
    return n
