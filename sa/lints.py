"""Small repository-wide rules that several properties share (each call creates obligations under the caller's rule id)."""

import ast

from .astutil import call_name

_CONCRETE_BUILTINS = {"float": "float64 only (float32 / float16 arrays are not matched)",
                      "int": "the platform integer only (int8 ... int32 / unsigned arrays are not matched)",
                      "complex": "complex128 only"}


def dtype_family_tests(ctx, rel, rule, min_sites=1):
    """`np.issubdtype(dtype, T)` decides which branch an array of a whole dtype FAMILY takes (all floats are compared NaN-tolerantly,
    all integers are packed, ...).  T must be the abstract numpy type (np.floating, np.integer, np.str_ ...): the Python builtins
    float / int name one concrete dtype, so float32 data would silently take the other branch."""
    s = ctx.src(rel)
    n = 0
    for qual, f in s.funcs.items():
        for c in ast.walk(f):
            if isinstance(c, ast.Call) and (call_name(c) or "").endswith("issubdtype") and len(c.args) == 2:
                t = c.args[1]
                # nested functions are visited with their parents as well: one obligation per call site
                if any(c in ast.walk(g) for q2, g in s.funcs.items() if q2 != qual and q2.startswith(qual + ".")):
                    continue
                n += 1
                bad = isinstance(t, ast.Name) and t.id in _CONCRETE_BUILTINS
                ctx.ob(rule, rel, qual, ast.unparse(c)[:80], not bad,
                       f"the test matches {_CONCRETE_BUILTINS.get(getattr(t, 'id', ''), '')}: arrays of the other widths of the family take the wrong branch",
                       c.lineno)
    ctx.floor(f"{rule}:{rel}", n, min_sites)
    return n


def caller_arguments_untouched(ctx, rel, rule, allowed=None, min_functions=3):
    """the public functions of a module change none of the objects their caller hands in (effects.param_mutations:
    mutating methods, stores, augmented assignments, by identity through local names and through the module's own
    helpers).  `allowed`: {(function, parameter): reason} for the documented in-place operations."""
    from .effects import param_mutations
    allowed = allowed or {}
    s = ctx.src(rel)
    muts = param_mutations(s.funcs)
    n = 0
    for q, f in s.funcs.items():
        name = q.split(".")[-1]
        if name.startswith("_") or "." in q:
            continue
        n += 1
        bad = {p: w for p, w in muts.get(q, {}).items() if (q, p) not in allowed}
        first = next(iter(bad.items()), None)
        ctx.ob(rule, rel, q, "parameters changed in place: " + (", ".join(sorted(muts.get(q, {}))) or "none"), not bad,
               (f"the caller's argument `{first[0]}` is changed in place ({first[1][0][1]} at line {first[1][0][0]}): a second call with "
                "the same object sees a different value" if first else ""), f.lineno)
    ctx.floor(f"{rule}:{rel}", n, min_functions)
