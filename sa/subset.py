"""The analysed subset of Python, and the guard that keeps the checked functions inside it.

The rules and the layers below them (alias model, summariser, facts, path walker, undo passes) read a function as straight
Python in which a name means what its spelling says: `range` is the builtin, `np` the module, a `def` at the top of the module
is the function that is in force, a call runs its callee, text handed to `exec` does not exist.  Constructs for which that
reading is wrong are counted here per top-level function (and per class body / module body), and the count is compared with the
same census of the reference tree (localnames.json, `__inventory__.census`).  A function that uses MORE of such a construct
than the reference did is outside the subset: every rule that asks for it gets an ANALYSIS-ERROR (exit 2, "cannot decide")
instead of a verdict computed from a wrong reading.  Nothing is flagged on the reference tree itself, whatever it contains:
the rules were written against that text.

kinds
  node:<k>        match / except* / async constructs / nonlocal / global / class inside a function / lambda with defaults
  call:<name>     exec, eval, compile, __import__, locals, vars, globals, setattr, delattr, type(a, b, c), iter(f, sentinel),
                  sys._getframe, inspect.*, operator.*, ctypes.*, gc.*, functools.partial / partialmethod / singledispatch
  dunder:<attr>   any attribute access `x.__attr__` except a few that only name things (__init__, __name__, ..)
  bind:<name>     a binding, inside a function, of a builtin, of a module-level name of the same module, or of a module alias
                  the engine knows (np, re, ..); at module / class level: a binding of a builtin
  rebound:<name>  a name bound more than once in the module / class scope
  conditional-def a def / class under if / try / with / for / while
  decorators      the decorator list of a function of the reference changed (plain Python sources only)
"""
import ast
import builtins

_BUILTINS = frozenset(n for n in dir(builtins) if not n.startswith("__")) | {"__import__", "__build_class__"}
_MODULE_ALIASES = frozenset(("np", "numpy", "re", "io", "os", "sys", "math", "nx", "itertools", "functools", "copy", "operator", "warnings",
                             "struct", "msgpack", "collections", "json", "cython", "libc"))
# (`string`, `numbers`, `enum` .. are left out: a local called `string` is ordinary, and what the tables say about those modules - their
# functions build new immutable values - is true of a string as well)
_DYNAMIC_NAMES = frozenset(("exec", "eval", "compile", "__import__", "locals", "vars", "globals", "setattr", "delattr", "breakpoint",
                            "memoryview", "super"))
_DYNAMIC_MODULES = frozenset(("inspect", "operator", "ctypes", "gc", "importlib", "types", "weakref", "threading", "asyncio", "pickle", "marshal", "dis"))
# functions of `operator` that change an argument in place or call something by name (the pure ones - or_, add, itemgetter - are
# ordinary library calls)
_OPERATOR_WRITERS = frozenset(("iadd", "isub", "imul", "itruediv", "ifloordiv", "imod", "ipow", "iand", "ior", "ixor", "ilshift", "irshift",
                               "imatmul", "iconcat", "setitem", "delitem", "methodcaller", "attrgetter", "call", "__setitem__", "__delitem__",
                               "__iadd__", "__isub__", "__imul__", "__ior__", "__iand__", "__ixor__", "__iconcat__"))
_DUNDER_OK = frozenset(("__init__", "__name__", "__qualname__", "__doc__", "__module__", "__version__", "__file__", "__all__", "__path__"))

_NODE_KINDS = {"Match": "match", "TryStar": "except*", "AsyncFunctionDef": "async", "AsyncFor": "async", "AsyncWith": "async",
               "Await": "async", "Nonlocal": "nonlocal", "Global": "global"}


def _dotted(e):
    parts = []
    while isinstance(e, ast.Attribute):
        parts.append(e.attr)
        e = e.value
    if isinstance(e, ast.Name):
        return ".".join([e.id] + parts[::-1])
    return None


def _bindings(node):
    """every binding occurrence below `node` (nested scopes included): (name, node)"""
    for x in ast.walk(node):
        if isinstance(x, ast.Name) and isinstance(x.ctx, (ast.Store, ast.Del)):
            yield x.id
        elif isinstance(x, ast.arg):
            yield x.arg
        elif isinstance(x, (ast.FunctionDef, ast.AsyncFunctionDef, ast.ClassDef)) and x is not node:
            yield x.name
        elif isinstance(x, ast.alias):
            if x.name != "*":
                yield (x.asname or x.name).split(".")[0]
        elif isinstance(x, ast.ExceptHandler) and x.name:
            yield x.name
        elif type(x).__name__ in ("MatchAs", "MatchStar") and x.name:
            yield x.name
        elif type(x).__name__ == "MatchMapping" and x.rest:
            yield x.rest


def _module_names(tree):
    out = set()
    todo = list(tree.body)
    while todo:
        x = todo.pop()
        if isinstance(x, (ast.FunctionDef, ast.AsyncFunctionDef, ast.ClassDef)):
            out.add(x.name)
            continue
        if isinstance(x, ast.Name) and isinstance(x.ctx, ast.Store):
            out.add(x.id)
        if isinstance(x, ast.alias) and x.name != "*":
            out.add((x.asname or x.name).split(".")[0])
        todo.extend(ast.iter_child_nodes(x))
    return out


def _count_into(c, kind):
    c[kind] = c.get(kind, 0) + 1


def _scan(node, c, in_function, protected):
    """constructs below `node` (a function, or one statement of a module / class body that is no def / class)"""
    # operator.methodcaller("replace", ..) with a literal name of a method that only reads is an ordinary call
    from .alias import PURE_METHODS
    harmless = {id(x.func) for x in ast.walk(node) if isinstance(x, ast.Call) and isinstance(x.func, ast.Attribute) and x.func.attr == "methodcaller"
                and x.args and isinstance(x.args[0], ast.Constant) and x.args[0].value in PURE_METHODS}
    if in_function:
        # an import inside the function that binds a name the function also binds otherwise (a parameter, an assignment, a loop target):
        # the name means the imported object from there on, whatever its other binding says
        imported = {(a.asname or a.name).split(".")[0] for x in ast.walk(node) if isinstance(x, (ast.Import, ast.ImportFrom)) for a in x.names}
        if imported:
            other = {x.id for x in ast.walk(node) if isinstance(x, ast.Name) and isinstance(x.ctx, (ast.Store, ast.Del))} | \
                {x.arg for x in ast.walk(node) if isinstance(x, ast.arg)}
            for nm in sorted(imported & other):
                _count_into(c, "bind-import:" + nm)
    for x in ast.walk(node):
        if id(x) in harmless:
            continue
        k = _NODE_KINDS.get(type(x).__name__)
        if k and not (x is node and isinstance(x, ast.AsyncFunctionDef) and False):
            _count_into(c, "node:" + k)
        if isinstance(x, ast.ClassDef) and in_function:
            _count_into(c, "node:local-class")
        if isinstance(x, ast.Lambda) and (x.args.defaults or any(d is not None for d in x.args.kw_defaults)):
            _count_into(c, "node:lambda-default")
        if isinstance(x, ast.Attribute) and x.attr.startswith("__") and x.attr.endswith("__") and x.attr not in _DUNDER_OK:
            _count_into(c, "dunder:" + x.attr)
        if isinstance(x, ast.Attribute) and x.attr in ("f_locals", "f_globals", "f_back", "gi_frame", "cr_frame"):
            _count_into(c, "dunder:" + x.attr)
        if isinstance(x, ast.Call):
            f = x.func
            if isinstance(f, ast.Name):
                if f.id in _DYNAMIC_NAMES and not (f.id == "super" and not x.args):
                    _count_into(c, "call:" + f.id)
                elif f.id == "type" and len(x.args) == 3:
                    _count_into(c, "call:type3")
                elif f.id == "iter" and len(x.args) == 2:
                    _count_into(c, "call:iter2")
        if isinstance(x, (ast.Attribute, ast.Name)):
            d = _dotted(x) if isinstance(x, ast.Attribute) else x.id
            if d:
                head = d.split(".")[0]
                if head in _DYNAMIC_MODULES and isinstance(x, ast.Attribute) and isinstance(x.value, ast.Name):
                    if head != "operator" or x.attr in _OPERATOR_WRITERS:
                        _count_into(c, "call:" + head + ".*")
                if d in ("sys._getframe", "sys.modules", "sys.settrace", "functools.partial", "functools.partialmethod", "functools.singledispatch",
                         "functools.wraps", "functools.update_wrapper"):
                    _count_into(c, "call:" + d)
        if isinstance(x, (ast.FunctionDef, ast.AsyncFunctionDef, ast.ClassDef)):
            for fld in ("body", "orelse", "finalbody", "handlers"):
                pass
    # defs / classes that sit under a compound statement: the text does not say whether they are in force
    def blocks(st, under):
        for fld in ("body", "orelse", "finalbody"):
            for ch in getattr(st, fld, None) or []:
                if isinstance(ch, (ast.FunctionDef, ast.AsyncFunctionDef, ast.ClassDef)):
                    if under:
                        _count_into(c, "conditional-def")
                    blocks(ch, False)
                else:
                    blocks(ch, True)
        for h in getattr(st, "handlers", None) or []:
            blocks(h, True)
        for cs in getattr(st, "cases", None) or []:
            blocks(cs, True)
    blocks(node, not isinstance(node, (ast.FunctionDef, ast.AsyncFunctionDef, ast.ClassDef, ast.Module)))
    for nm in _bindings(node):
        if nm in protected:
            _count_into(c, "bind:" + nm)


def _scope_rebinds(body, c):
    counts = {}
    todo = list(body)
    while todo:
        x = todo.pop()
        if isinstance(x, (ast.FunctionDef, ast.AsyncFunctionDef, ast.ClassDef)):
            counts[x.name] = counts.get(x.name, 0) + 1
            continue
        if isinstance(x, ast.Name) and isinstance(x.ctx, (ast.Store, ast.Del)):
            counts[x.id] = counts.get(x.id, 0) + 1
        if isinstance(x, ast.alias) and x.name != "*":
            nm_ = (x.asname or x.name).split(".")[0]
            counts[nm_] = counts.get(nm_, 0) + 1
        if isinstance(x, ast.ExceptHandler) and x.name:
            counts[x.name] = counts.get(x.name, 0) + 1
        todo.extend(ast.iter_child_nodes(x))
    for nm, k in counts.items():
        if k > 1:
            c["rebound:" + nm] = k - 1


def census(tree, decorators=True):
    """{key: {kind: count}}; key = "<module>", a class qualname (its body outside methods) or the qualname of an outermost function"""
    out = {}
    # module-level names a function must not shadow unseen: constants and private tables / helpers (the rules evaluate them and the
    # undo passes substitute them); a local that merely shares its spelling with a public function of the module (`coord`, `array`,
    # `dtype`) is ordinary code - the alias model treats a local that is called as a local callable
    mod_names = {n for n in _module_names(tree) if n.isupper() or n.startswith("_")}
    inside = _BUILTINS | _MODULE_ALIASES | mod_names

    def scope(body, key, prefix):
        c = out.setdefault(key, {})
        _scope_rebinds(body, c)

        def walk_block(stmts, under):
            for st in stmts:
                if isinstance(st, (ast.FunctionDef, ast.AsyncFunctionDef)):
                    fc = out.setdefault(prefix + st.name, {})
                    _scan(st, fc, True, inside)
                    if decorators:
                        fc["decorators"] = [ast.unparse(d) for d in st.decorator_list]
                    if under:
                        _count_into(c, "conditional-def")
                    if st.name in _BUILTINS:
                        _count_into(c, "bind:" + st.name)
                elif isinstance(st, ast.ClassDef):
                    if under:
                        _count_into(c, "conditional-def")
                    if st.name in _BUILTINS:
                        _count_into(c, "bind:" + st.name)
                    for e in st.bases + [k.value for k in st.keywords] + st.decorator_list:
                        _scan(e, c, False, _BUILTINS)
                    scope(st.body, prefix + st.name, prefix + st.name + ".")
                    # the attributes the methods store on their instance: a NEW one is state between calls (a memo, a cache, a flag) that
                    # no rule written against the reference class knows about - whether it is kept up to date cannot be decided
                    cc = out.setdefault(prefix + st.name, {})
                    for m in st.body:
                        if isinstance(m, (ast.FunctionDef, ast.AsyncFunctionDef)) and m.args.args:
                            me = m.args.args[0].arg
                            for x in ast.walk(m):
                                if isinstance(x, ast.Attribute) and isinstance(x.ctx, ast.Store) and isinstance(x.value, ast.Name) and x.value.id == me:
                                    cc["selfattr:" + x.attr] = 1
                else:
                    # one statement of the scope: its own expressions, and the defs / classes in its blocks
                    inner = []
                    for fld in ("body", "orelse", "finalbody"):
                        inner.extend(getattr(st, fld, None) or [])
                    for h in getattr(st, "handlers", None) or []:
                        inner.extend(h.body)
                    for cs in getattr(st, "cases", None) or []:
                        inner.extend(cs.body)
                    if inner:
                        shell = [ch for ch in ast.iter_child_nodes(st) if not isinstance(ch, ast.stmt) and not isinstance(ch, (ast.ExceptHandler,))
                                 and type(ch).__name__ != "match_case"]
                        for e in shell:
                            _scan(e, c, False, _BUILTINS)
                        k = _NODE_KINDS.get(type(st).__name__)
                        if k:
                            _count_into(c, "node:" + k)
                        walk_block(inner, True)
                    else:
                        _scan(st, c, False, _BUILTINS)
        walk_block(body, False)

    scope(tree.body, "<module>", "")
    return {k: v for k, v in out.items() if v}


def flags(new, ref):
    """{key: reason} for every key whose census exceeds the reference's"""
    out = {}

    def total(census, kind):
        return sum(c.get(kind, 0) for k_, c in census.items() if isinstance(c.get(kind, 0), int))
    for key, c in new.items():
        r = ref.get(key, {})
        for kind, n in c.items():
            if kind == "decorators":
                if key in ref and n != r.get("decorators", []):
                    out.setdefault(key, f"the decorators of {key} changed: {r.get('decorators', [])} -> {n}")
                continue
            # a function the reference did not have (code that was moved out of another one) brings the constructs of that code with
            # it: what counts is that the module as a whole uses no more of them than it did
            if key not in ref and kind.startswith(("bind:", "dunder:", "call:", "node:")) and total(new, kind) <= total(ref, kind):
                continue
            if n > r.get(kind, 0):
                out.setdefault(key, f"{kind} ({n} > {r.get(kind, 0)} in the reference)")
    return out
