"""
Width calculus for fixed-column records.

`Widths` evaluates, from the AST of a writer function, the (min, max) number
of characters of every string-valued expression it concatenates into a
record.  Unknown forms raise `Unknown` (the caller fails closed).  Bounds on
caller data come from a *guard table* extracted from the compatibility check
of the format.
"""

import ast
import math
import re

from .astutil import call_name, dotted

INF = float("inf")


class Unknown(Exception):
    pass


def parse_spec(spec):
    """format spec -> dict(align, width, prec, type)"""
    m = re.fullmatch(r"(?:(.)?([<>^=]))?([+\- ])?(\d+)?(?:\.(\d+))?([a-zA-Z%])?", spec)
    if not m:
        raise Unknown(f"format spec {spec!r}")
    fill, align, sign, width, prec, typ = m.groups()
    return {
        "align": align,
        "width": int(width) if width else 0,
        "prec": int(prec) if prec is not None else None,
        "type": typ,
        "sign": sign,
    }


def float32_spacing_below(x):
    """spacing of IEEE binary32 numbers just below x (x > 0)"""
    e = math.floor(math.log2(x))
    if 2.0 ** e == x:
        e -= 1
    return 2.0 ** (e - 23)


def float_field_width(K, D, dtype, rounded, counts_sign=True):
    """Maximum formatted width of `f"{v:.{D}f}"` over all v that pass the
    guard `len(str(int(v'))) <= K` (v' = round(v, D) if rounded else v),
    int() truncating toward zero and the sign counted as a character.
    Returns (max_width, witness_text or None)."""
    base = K + 1 + D  # 'ddd' + '.' + decimals ; '-dd' likewise
    if rounded:
        return base, None
    half = 0.5 * 10 ** (-D)
    # positive side: largest admitted value just below 10**K
    carry_pos = True
    if dtype == "float32":
        carry_pos = float32_spacing_below(10.0 ** K) <= half
    # negative side: admitted down to just above -(10**(K-1))
    carry_neg = True
    if dtype == "float32" and K >= 2:
        carry_neg = float32_spacing_below(10.0 ** (K - 1)) <= half
    if carry_pos or carry_neg:
        wit = []
        if carry_pos:
            wit.append(f"{10 ** K - half / 5:.{D + 1}f} is written as '{10 ** K:.{D}f}'")
        if carry_neg:
            wit.append(f"{-(10 ** (K - 1)) + half / 5:.{D + 1}f} is written as '{-(10 ** (K - 1)):.{D}f}'")
        return base + 1, "; ".join(wit)
    return base, None


def magnitude_field_width(B, D, dtype):
    """Maximum formatted width of `f"{v:.{D}f}"` over all v with |v| < B (the guard refuses |v| >= B): the widest value is
    the negative one of largest magnitude.  Returns (max_width, witness_text)."""
    half = 0.5 * 10 ** (-D)
    spacing = float32_spacing_below(float(B)) if dtype == "float32" else 0.0
    carry = spacing <= half          # the largest admitted magnitude rounds up to B when printed
    top = float(B) if carry else float(B) - max(spacing, half * 2)
    digits = len(str(int(top)))
    width = 1 + digits + 1 + D
    return width, f"{-top:.{D}f} passes the guard |v| < {B:g} and needs {width} characters"


def int_digits(lo, hi):
    """max len(str(v)) for integer v in [lo, hi]"""
    if lo == -INF or hi == INF:
        return INF
    w = 0
    for v in (lo, hi):
        w = max(w, len(str(int(v))))
    return w
