"""Lazy (de)serialising containers: the parsed element must be stored back
under its key on every path that returns it, and equality must go through
__getitem__ so that parsed and unparsed states compare equal."""

import ast

from .astutil import dotted, param_names, walk_local
from .cfg import CFG


def check_getitem_stores(ctx, rule, rel, cls, f):
    """f: __getitem__ of a container that calls X.deserialize(...)"""
    key = param_names(f)[1]
    g = CFG(f, lambda st: isinstance(st, ast.Raise))
    des_nodes = [n.id for n in g.nodes if n.ast is not None and n.kind == "stmt"
                 and any(isinstance(c, ast.Call) and isinstance(c.func, ast.Attribute)
                         and c.func.attr == "deserialize" for c in ast.walk(n.ast))]
    stores = {
        n.id for n in g.nodes
        if n.ast is not None and isinstance(n.ast, ast.Assign)
        and any(isinstance(t, ast.Subscript) and (dotted(t.value) or "").startswith("self._")
                and isinstance(t.slice, ast.Name) and t.slice.id == key for t in n.ast.targets)
    }
    w = None
    for dn in des_nodes:
        if dn in stores:
            continue
        for b in g.succ[dn]:
            if g.ekind[(dn, b)] == "exc" or b in stores:
                continue
            w = w or g.path(b, g.exit.id, blocked=stores)
    ctx.ob(rule, rel, f"{cls}.__getitem__", "parsed element stored under its key",
           w is None and bool(des_nodes),
           f"{cls}.__getitem__ parses the element lazily but returns it on a path that does not "
           "store it back: edits made through the returned object are lost and the element is "
           "parsed again", f.lineno)


def check_eq_through_getitem(ctx, rule, rel, cls, eq):
    other = param_names(eq)[1]
    raw = [n for n in walk_local(eq) if isinstance(n, ast.Compare)
           and any(isinstance(x, ast.Attribute) and x.attr.startswith("_") and not x.attr.startswith("__")
                   and isinstance(x.value, ast.Name) and x.value.id in ("self", other)
                   and x.attr not in ("_name",)
                   for x in ast.walk(n))]
    via = [n for n in walk_local(eq) if isinstance(n, ast.Compare)
           and any(isinstance(x, ast.Subscript) and isinstance(x.value, ast.Name) and x.value.id == "self"
                   for x in [n.left] + list(n.comparators))]
    ctx.ob(rule, rel, f"{cls}.__eq__", "elements compared via self[key]",
           bool(via) and not raw,
           f"{cls}.__eq__ compares the raw backing store: a container whose elements are still "
           "serialised compares unequal to the same container after a lookup", eq.lineno)
