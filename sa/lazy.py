"""Lazy (de)serialising containers: the parsed element must be stored back
under its key on every path that returns it, and equality must go through
__getitem__ so that parsed and unparsed states compare equal."""

import ast

from .astutil import dotted, param_names, walk_local
from .cfg import CFG


def check_getitem_stores(ctx, rule, rel, cls, f):
    """f: __getitem__ of a container that calls X.deserialize(...)"""
    key = param_names(f)[1]
    g = CFG(f, lambda st: isinstance(st, ast.Raise))
    des_nodes = [n.id for n in g.nodes if n.ast is not None and n.kind == "stmt"
                 and any(isinstance(c, ast.Call) and isinstance(c.func, ast.Attribute)
                         and c.func.attr == "deserialize" for c in ast.walk(n.ast))]
    stores = {
        n.id for n in g.nodes
        if n.ast is not None and isinstance(n.ast, ast.Assign)
        and any(isinstance(t, ast.Subscript) and (dotted(t.value) or "").startswith("self._")
                and isinstance(t.slice, ast.Name) and t.slice.id == key for t in n.ast.targets)
    }
    w = None
    for dn in des_nodes:
        if dn in stores:
            continue
        for b in g.succ[dn]:
            if g.ekind[(dn, b)] == "exc" or b in stores:
                continue
            w = w or g.path(b, g.exit.id, blocked=stores)
    ctx.ob(rule, rel, f"{cls}.__getitem__", "parsed element stored under its key",
           w is None and bool(des_nodes),
           f"{cls}.__getitem__ parses the element lazily but returns it on a path that does not "
           "store it back: edits made through the returned object are lost and the element is "
           "parsed again", f.lineno)


def check_eq_through_getitem(ctx, rule, rel, cls, eq):
    other = param_names(eq)[1]
    raw = [n for n in walk_local(eq) if isinstance(n, ast.Compare)
           and any(isinstance(x, ast.Attribute) and x.attr.startswith("_") and not x.attr.startswith("__")
                   and isinstance(x.value, ast.Name) and x.value.id in ("self", other)
                   and x.attr not in ("_name",)
                   for x in ast.walk(n))]
    via = [n for n in walk_local(eq) if isinstance(n, ast.Compare)
           and any(isinstance(x, ast.Subscript) and isinstance(x.value, ast.Name) and x.value.id == "self"
                   for x in [n.left] + list(n.comparators))]
    ctx.ob(rule, rel, f"{cls}.__eq__", "elements compared via self[key]",
           bool(via) and not raw,
           f"{cls}.__eq__ compares the raw backing store: a container whose elements are still "
           "serialised compares unequal to the same container after a lookup", eq.lineno)


def check_eq_key_sets(ctx, rule, rel, cls, eq):
    """a mapping-like container equals another only if BOTH have the same keys: a loop over self's keys alone never looks at a key
    that only the other one has (equality would not be symmetric).  Accepted: a refusing comparison of the two key sets, or equal
    lengths together with a membership test of every key in the other."""
    from .exprnorm import canon, spec
    from .facts import disjuncts
    other = param_names(eq)[1]
    refusals = []
    for st in walk_local(eq):
        if isinstance(st, ast.If) and any(isinstance(b, ast.Return) and isinstance(b.value, ast.Constant) and b.value.value is False for b in st.body):
            refusals.extend(canon(d) for d in disjuncts(st.test))
    both = any(r in refusals for r in (spec(f"set(self.keys()) != set({other}.keys())"), spec(f"self.keys() != {other}.keys()"),
                                       spec(f"set(self) != set({other})"), spec(f"sorted(self.keys()) != sorted({other}.keys())")))
    lengths = spec(f"len(self) != len({other})") in refusals
    member = any(isinstance(r, tuple) and r[:1] == ("not",) and isinstance(r[1], tuple) and r[1][:1] == ("cmp",) for r in refusals) or \
        any(isinstance(c, ast.Compare) and len(c.ops) == 1 and isinstance(c.ops[0], ast.NotIn) and isinstance(c.comparators[0], ast.Name)
            and c.comparators[0].id == other for c in walk_local(eq))
    ctx.ob(rule, rel, f"{cls}.__eq__", "both key sets compared", both or (lengths and member),
           f"{cls}.__eq__ walks over its own keys only: a key that exists only in `{other}` is never seen, so small == large while large != small",
           eq.lineno)


def check_lazy_attributes(ctx, rule, rel, cls, methods):
    """getters that parse a cached attribute on demand (`self._x = X.deserialize(self._x)`) must store the parsed object
    back into the attribute they return: otherwise every access hands out a new throw-away object and edits are lost"""
    n = 0
    for name, f in methods:
        # the cached attribute may reach the parser directly or through a local that was bound to it (`h = self._header`)
        from_attr = {}
        for st in ast.walk(f):
            if isinstance(st, ast.Assign) and isinstance(st.value, ast.Attribute) and isinstance(st.value.value, ast.Name) and st.value.value.id == "self":
                for t in st.targets:
                    if isinstance(t, ast.Name):
                        from_attr[t.id] = st.value.attr

        def attr_of(a):
            if isinstance(a, ast.Attribute) and isinstance(a.value, ast.Name) and a.value.id == "self":
                return a.attr
            if isinstance(a, ast.Name):
                return from_attr.get(a.id)
            return None
        # (the parser may also be handed, as a value, to a helper that applies it: `helper(self._x, X.deserialize, ..)`)
        des = [c for c in ast.walk(f) if isinstance(c, ast.Call) and any(attr_of(a) for a in c.args)
               and (isinstance(c.func, ast.Attribute) and c.func.attr == "deserialize"
                    or any(isinstance(a, ast.Attribute) and a.attr == "deserialize" for a in c.args))]
        if not des:
            continue
        for c in des:
            attr = next(attr_of(a) for a in c.args if attr_of(a))
            n += 1
            stored = any(isinstance(st, ast.Assign) and st.value is c and any(
                isinstance(t, ast.Attribute) and isinstance(t.value, ast.Name) and t.value.id == "self" and t.attr == attr for t in st.targets)
                for st in ast.walk(f))
            rets = [r for r in ast.walk(f) if isinstance(r, ast.Return) and r.value is not None]
            returns_attr = all(isinstance(r.value, ast.Attribute) and isinstance(r.value.value, ast.Name) and r.value.value.id == "self"
                               and r.value.attr == attr for r in rets) and bool(rets)
            ctx.ob(rule, rel, f"{cls}.{name}", f"self.{attr} = {ast.unparse(c.func)}(self.{attr}); return self.{attr}", stored and returns_attr,
                   f"{cls}.{name} parses self.{attr} on demand but does not keep the parsed object (stored back: {stored}, returned from the attribute: "
                   f"{returns_attr}): changes made through the returned object are lost", f.lineno)
    return n


def check_missing_key_error(ctx, rule, rel, cls, getitem):
    """a mapping answers an unknown key with KeyError (that is what `get`, `pop(key, default)`, `setdefault` and `in` of
    MutableMapping are built on): the look-up of the key in the backing store of __getitem__ must not stand inside a `try` whose
    handler turns every exception - the KeyError included - into another error"""
    key = [a.arg for a in getitem.args.args][1] if len(getitem.args.args) > 1 else None
    looks = [n for n in ast.walk(getitem) if isinstance(n, ast.Subscript) and isinstance(n.ctx, ast.Load) and isinstance(n.value, ast.Attribute)
             and isinstance(n.value.value, ast.Name) and n.value.value.id == "self" and isinstance(n.slice, ast.Name) and n.slice.id == key]
    if not looks:
        return 0
    first = min(looks, key=lambda n: (n.lineno, n.col_offset))
    swallowed = None
    for t in ast.walk(getitem):
        if isinstance(t, ast.Try) and any(x is first for b in t.body for x in ast.walk(b)):
            for h in t.handlers:
                names = {x.id for x in ast.walk(h.type) if isinstance(x, ast.Name)} if h.type is not None else {"BaseException"}
                if names & {"Exception", "BaseException", "KeyError", "LookupError"}:
                    reraises_key = any(isinstance(r, ast.Raise) and (r.exc is None or "KeyError" in ast.unparse(r.exc)) for r in ast.walk(h))
                    if not reraises_key:
                        swallowed = h
    ctx.ob(rule, rel, f"{cls}.__getitem__", f"self.{first.value.attr}[{key}] outside any handler that replaces KeyError", swallowed is None,
           f"the look-up of the key stands inside a try whose handler (line {getattr(swallowed, 'lineno', '?')}) replaces every exception: a missing "
           "key is reported as another error, and get() / pop(key, default) / setdefault() raise instead of using their default", first.lineno)
    return 1
