"""
C05 - BinaryCIF encodings are invertible; values the target cannot hold are
rejected or kept, never silently altered.

R1  registry: the kind->class and class->kind tables are mutual inverses and
    cover exactly the concrete Encoding subclasses, each with encode and decode;
    TypeCode <-> dtype tables total and inverse; parameter names convert
    snake<->camel without loss.
R2  cast discipline: inside any encode(), a conversion to a fixed-width integer
    goes through _safe_cast or has an argument bounded by construction.
R3  interprocedural: compress() checks range and finiteness before it hands
    floats to the unchecked fixed point encoding; the integer down-cast checks
    both bounds.
R4  _safe_cast checks both bounds and refuses float -> int.
"""

import ast

from ..astutil import call_name, calls, const_eval, dotted, names_in, param_names, stmts, walk_local, NotConst, Sym
from ..cfg import CFG
from .. import bcifwire
from ..exprnorm import contains_expr, same_expr
from ..core import AnalysisError, Mutant
from ..exprnorm import has_code

EXPLANATION = (
    "Registry and type-code tables of encoding.pyx (lowered) evaluated from the AST; every "
    "narrowing conversion inside an encode() classified as checked / bounded by construction / "
    "unchecked; dominance of the range and finiteness test over the fixed point encoding in "
    "compress.py."
)
ASSUMPTIONS = [
    "np.argsort / np.searchsorted results are bounded by the array length (bounded by construction)",
]
MIN_OBLIGATIONS = 40

ENC = "structure/io/pdbx/encoding.pyx"
COMPRESS = "structure/io/pdbx/compress.py"
BCIF = "structure/io/pdbx/bcif.py"

BOUNDED_SOURCES = {"argsort", "searchsorted", "arange"}
SPEC_PARAMS = {
    "ByteArrayEncoding": ["type"], "FixedPointEncoding": ["factor", "srcType"],
    "IntervalQuantizationEncoding": ["min", "max", "numSteps", "srcType"],
    "RunLengthEncoding": ["srcSize", "srcType"], "DeltaEncoding": ["srcType", "origin"],
    "IntegerPackingEncoding": ["byteCount", "srcSize", "isUnsigned"],
}


def snake_to_camel(name):
    parts = name.split("_")
    return parts[0] + "".join(p.capitalize() for p in parts[1:])


def container_values_rules(ctx, R="R5"):
    """what goes into the containers is what comes out: (1) BinaryCIFData keeps the array it is given - conversions to another dtype
    happen in `as_array` on request (and in the encodings, behind their range checks), never at construction, where a plain `astype`
    wraps a 64-bit value around before anything can refuse it; (2) an element assigned in serialised form (a dict) is parsed at once into an
    object of the container's own - the caller's dict is never kept (it is written into when the file is serialised)"""
    from .. import machine
    from ..exprnorm import canon as _canon
    COMP = "structure/io/pdbx/component.py"
    allowed = {"BinaryCIFColumn.as_array"}
    n = 0
    for rel in (BCIF, COMP):
        src = ctx.src(rel)
        for q, f in src.funcs.items():
            if any(q != q2 and q.startswith(q2 + ".") and q2 in src.funcs for q2 in src.funcs):
                continue
            conv = [c for c in ast.walk(f) if isinstance(c, ast.Call) and isinstance(c.func, ast.Attribute) and c.func.attr == "astype"]
            if not conv:
                continue
            n += 1
            # (a private helper that only the allowed readers call converts on their behalf)
            short_ = q.split(".")[-1]
            callers_ = [q2 for q2, f2 in src.funcs.items() if q2 != q and any(isinstance(x, ast.Call) and (call_name(x) or "").split(".")[-1] == short_ for x in ast.walk(f2))]
            if q not in allowed and short_.startswith("_") and not short_.startswith("__") and callers_ and all(q2 in allowed for q2 in callers_):
                continue
            ctx.ob(f"{R}.values-converted-on-request-only", rel, q, conv[0], q in allowed,
                   f"{q} converts data with a plain astype(): values outside the target type wrap around silently (2**32 + 5 becomes 5) instead of being "
                   "refused by the encodings' range checks", conv[0].lineno)
    ctx.floor("astype-sites", n, 1)
    f = ctx.src(COMP).func("_HierarchicalContainer.__setitem__")
    elem = param_names(f)[2]
    k_inst = repr(_canon(ast.parse(f"isinstance({elem}, self.subcomponent_class())", mode="eval").body))
    bad = []
    for w in machine.ways(f.body, {elem}):
        if w.exit is not None:
            continue
        parsed = any(u.startswith(f"{elem} = ") and "deserialize" in u and f"({elem}" in u for u in w.updates) or "<block>" in w.updates
        # (the class may have been looked up into a local first: any positive instance test of the element other than for the plain
        # serialised forms counts as "is an object of the container's kind")
        is_obj = k_inst in w.conds or any(c_.startswith(f"('call', 'isinstance', '{elem}', ") and not any(t_ in c_ for t_ in ("'dict'", "'str'", "'bytes'", "'list'"))
                                          for c_ in w.conds)
        if not is_obj and not parsed:
            bad.append(sorted(w.conds))
    ctx.ob(f"{R}.assigned-element-owned", COMP, "_HierarchicalContainer.__setitem__", f"{elem}: an instance of subcomponent_class(), or deserialised on the way in",
           not bad,
           "an element that is not an object of the container's class is stored as it was given: the caller's dict is kept, and serialising the file "
           "writes the key into it - the same dict put under two keys is written twice under the second", f.lineno)


def run(ctx):
    container_values_rules(ctx, "R5")
    from .C06 import serialized_key_rule
    serialized_key_rule(ctx, "R5.element-written-under-its-key")
    # reading a column (as_array with a masked_value, as_item, serialize, ==) must not write into the column
    from ..lints import readers_leave_object
    readers_leave_object(ctx, BCIF, "R5.reading-leaves-column", 6)
    bcifwire.check(ctx, "R5")
    s = ctx.src(ENC)
    # ---------------- R1 registry ---------------------------------------------
    classes = {}
    for q, c in s.classes.items():
        bases = [dotted(b) for b in c.bases]
        if "Encoding" in bases:
            classes[q] = c
    ctx.floor("encoding-classes", len(classes), 7)
    reg = const_eval(s.module_assign("_encoding_classes"), sym_names=True)
    kinds = const_eval(s.module_assign("_encoding_classes_kinds"))
    reg_names = {k: v.text for k, v in reg.items()}
    ctx.ob("R1.registry-covers-classes", ENC, "<module>._encoding_classes", str(sorted(reg_names.values())),
           sorted(reg_names.values()) == sorted(classes), f"registry {sorted(reg_names.values())} vs. classes {sorted(classes)}", 1)
    for kind, cls in sorted(reg_names.items()):
        ctx.ob("R1.registry-inverse", ENC, "<module>._encoding_classes_kinds", f"{kind} -> {cls} -> {kinds.get(cls)}",
               kinds.get(cls) == kind, f"{cls} is registered as '{kind}' but serialises its kind as {kinds.get(cls)!r}", 1)
    ctx.ob("R1.registry-inverse", ENC, "<module>._encoding_classes_kinds", f"{len(kinds)} entries", len(kinds) == len(reg),
           "the two registries have different sizes", 1)
    for q, c in sorted(classes.items()):
        meths = {n.name for n in c.body if isinstance(n, ast.FunctionDef)}
        ctx.ob("R1.encode-decode-defined", ENC, q, "encode, decode", {"encode", "decode"} <= meths,
               f"{q} lacks encode or decode", c.lineno, nontrivial=False)
        if q in SPEC_PARAMS:
            fields = [st.target.id for st in c.body if isinstance(st, ast.AnnAssign) and isinstance(st.target, ast.Name)]
            ctx.ob("R1.parameter-names", ENC, q, f"{fields} -> {[snake_to_camel(f) for f in fields]}",
                   [snake_to_camel(f) for f in fields] == SPEC_PARAMS[q],
                   f"serialised parameter names {[snake_to_camel(f) for f in fields]} differ from the BinaryCIF "
                   f"specification {SPEC_PARAMS[q]}", c.lineno)
    # conversion helpers keep their shape
    cam = s.func("_camel_to_snake_case")
    snk = s.func("_snake_to_camel_case")
    pat = s.module_assign("CAMEL_CASE_PATTERN")
    ctx.ob("R1.name-conversion", ENC, "_camel_to_snake_case", ast.unparse(pat),
           "(?<!^)(?=[A-Z])" in ast.unparse(pat) and "sub('_', attribute_name).lower()" in ast.unparse(cam)
           and "capitalize()" in ast.unparse(snk) and "attribute_name[0].lower() + attribute_name[1:]" in ast.unparse(snk),
           "camelCase <-> snake_case conversion idiom changed", cam.lineno, nontrivial=False)
    tc = s.cls("TypeCode")
    members = [st.targets[0].id for st in tc.body if isinstance(st, ast.Assign) and isinstance(st.targets[0], ast.Name)]
    t2d = const_eval(s.module_assign("_TYPE_CODE_TO_DTYPE"))
    ctx.ob("R1.typecode-total", ENC, "<module>._TYPE_CODE_TO_DTYPE", str(sorted(k.text for k in t2d)),
           sorted(k.text.split(".")[1] for k in t2d) == sorted(members), "every TypeCode needs a dtype", 1)
    want = {"INT8": "|i1", "INT16": "<i2", "INT32": "<i4", "UINT8": "|u1", "UINT16": "<u2", "UINT32": "<u4",
            "FLOAT32": "<f4", "FLOAT64": "<f8"}
    ctx.ob("R1.typecode-dtypes", ENC, "<module>._TYPE_CODE_TO_DTYPE", str(sorted((k.text, v) for k, v in t2d.items())),
           {k.text.split(".")[1]: v for k, v in t2d.items()} == want and len(set(t2d.values())) == len(t2d),
           "type codes must map to the little-endian dtypes of the BinaryCIF specification, one to one", 1)
    codes = {st.targets[0].id: const_eval(st.value) for st in tc.body
             if isinstance(st, ast.Assign) and isinstance(st.targets[0], ast.Name)}
    ctx.ob("R1.typecode-values", ENC, "TypeCode", str(sorted(codes.items())),
           codes == {"INT8": 1, "INT16": 2, "INT32": 3, "UINT8": 4, "UINT16": 5, "UINT32": 6, "FLOAT32": 32, "FLOAT64": 33},
           "numeric type codes differ from the BinaryCIF specification", tc.lineno)
    ctx.ob("R1.typecode-inverse", ENC, "<module>._DTYPE_TO_TYPE_CODE", "{val: key for key, val in _TYPE_CODE_TO_DTYPE.items()}",
           ast.unparse(s.module_assign("_DTYPE_TO_TYPE_CODE")) == "{val: key for key, val in _TYPE_CODE_TO_DTYPE.items()}",
           "the reverse table must be derived from the forward table", 1, nontrivial=False)
    # encode / decode chains run in opposite order
    es, ds = s.func("encode_stepwise"), s.func("decode_stepwise")
    ctx.ob("R1.chain-order", ENC, "decode_stepwise", "for enc in reversed(encoding)",
           any(isinstance(st, ast.For) and isinstance(st.iter, ast.Call) and call_name(st.iter) == "reversed" for st in stmts(ds))
           and any(isinstance(st, ast.For) and not isinstance(st.iter, ast.Call) for st in stmts(es)),
           "a chain of encodings must be undone in reverse order", ds.lineno)

    # ---------------- R2 cast discipline ---------------------------------------
    n_cast = 0
    for q, c in sorted(classes.items()):
        for m in c.body:
            if not (isinstance(m, ast.FunctionDef) and m.name == "encode"):
                continue
            for n in walk_local(m):
                if isinstance(n, ast.Call) and isinstance(n.func, ast.Attribute) and n.func.attr == "astype" and n.args:
                    tgt = dotted(n.args[0]) or ""
                    if not (tgt.startswith("np.int") or tgt.startswith("np.uint")):
                        continue
                    n_cast += 1
                    src = n.func.value
                    bounded = any(isinstance(x, ast.Call) and (call_name(x) or "").split(".")[-1] in BOUNDED_SOURCES for x in ast.walk(src))
                    if not bounded and isinstance(src, ast.Name):
                        for st in stmts(m):
                            if isinstance(st, ast.Assign) and any(isinstance(t, ast.Name) and t.id == src.id for t in st.targets):
                                bounded = bounded or any(isinstance(x, ast.Call) and (call_name(x) or "").split(".")[-1] in BOUNDED_SOURCES
                                                         for x in ast.walk(st.value))
                    ctx.ob("R2.unchecked-narrowing-in-encode", ENC, f"{q}.encode", n, bounded,
                           f"`{ast.unparse(n)}` converts caller data to {tgt} without _safe_cast and without a bound by "
                           "construction: values outside the 32-bit range (or NaN/inf) are silently altered instead "
                           "of being rejected", n.lineno,
                           detail={"bounded_by_construction": bounded})
                if isinstance(n, ast.Call) and call_name(n) == "_safe_cast":
                    n_cast += 1
            # encodings with a declared source/target type: the caller's array reaches the output only through _safe_cast
            if q in ("ByteArrayEncoding", "RunLengthEncoding"):
                dparam = param_names(m)[1]
                value_reads = []
                for n in walk_local(m):
                    if isinstance(n, ast.Name) and n.id == dparam and isinstance(n.ctx, ast.Load):
                        value_reads.append(n)
                safe_args = {id(a) for c_ in walk_local(m) if isinstance(c_, ast.Call) and call_name(c_) == "_safe_cast" for a in c_.args[:1]}
                meta = {id(n.value) for n in walk_local(m) if isinstance(n, ast.Attribute) and n.attr in ("dtype", "shape", "ndim", "size")}
                raw = [n for n in value_reads if id(n) not in safe_args and id(n) not in meta]
                ctx.ob("R2.safe-cast-used", ENC, f"{q}.encode", f"`{dparam}` reaches the output through _safe_cast only",
                       bool(safe_args) and not raw,
                       f"{q}.encode converts to its declared type: the caller's array must pass _safe_cast (range-checked) and must not be "
                       f"used unconverted ({len(raw)} raw use(s), {len(safe_args)} _safe_cast call(s))", m.lineno)
    ctx.floor("casts-in-encode", n_cast, 6)

    # ---------------- R4 _safe_cast ----------------------------------------------
    sc = s.func("_safe_cast")
    g = CFG(sc, lambda st: isinstance(st, ast.Raise))
    dom = g.dominators()
    t = ast.unparse(sc)
    lower = any(isinstance(c, ast.Compare) and isinstance(c.ops[0], ast.Lt) and ast.unparse(c.comparators[0]).endswith(".min") for c in ast.walk(sc))
    upper = any(isinstance(c, ast.Compare) and isinstance(c.ops[0], ast.Gt) and ast.unparse(c.comparators[0]).endswith(".max") for c in ast.walk(sc))
    ctx.ob("R4.safe-cast-bounds", ENC, "_safe_cast", "array < info.min or array > info.max -> raise", lower and upper,
           "_safe_cast must reject values below the minimum and above the maximum of the target type", sc.lineno)
    ctx.ob("R4.safe-cast-float", ENC, "_safe_cast", "float -> integer refused",
           "if not np.issubdtype(array.dtype, np.integer):" in t and "Cannot cast floating point to integer" in t,
           "_safe_cast must refuse a float to integer conversion", sc.lineno)
    casts = [n for n in g.nodes if n.ast is not None and isinstance(n.ast, ast.Return) and "astype" in ast.unparse(n.ast)]
    checks = [n for n in g.nodes if n.kind == "test" and "dtype_info" in ast.unparse(n.ast.test) and any(isinstance(b, ast.Raise) for b in n.ast.body)]
    outer = [n for n in g.nodes if n.kind == "test" and has_code(n.ast.test, "np.issubdtype(dtype, np.integer)")]
    ctx.ob("R4.safe-cast-order", ENC, "_safe_cast", "range check before astype on the integer path",
           bool(casts) and bool(checks) and bool(outer)
           and g.path(outer[0].id, casts[0].id, blocked={c.id for c in checks} | {b for b in g.succ[outer[0].id] if g.ekind[(outer[0].id, b)] == "f"}) is None,
           "the conversion is reachable on the integer path without passing the range check", sc.lineno)

    compress_rules(ctx, "R3")

def compress_rules(ctx, R="R3", with_downcast=True):
    """automatic compression (compress.py): range/finiteness guard of the fixed point encoding, the factor, lossless fallback,
    integer down-cast bounds, tolerance of the decimal places - shared with C04 ('also after compression')"""
    # ---------------- R3 compress ---------------------------------------------------
    from ..lints import dtype_family_tests
    # which encoding chain a column gets is decided by its dtype family (string / floating / integer): all widths of it
    dtype_family_tests(ctx, COMPRESS, f"{R}.dtype-family-test", 3)
    dtype_family_tests(ctx, ENC, f"{R}.dtype-family-test", 5)
    from ..lints import parameter_threaded
    # the tolerance given to compress() is the one every level (file, block, category, column, data) works with
    parameter_threaded(ctx, COMPRESS, f"{R}.tolerance-forwarded", "float_tolerance", 5)
    cz = ctx.src(COMPRESS)
    cd = cz.func("_compress_data")
    g2 = CFG(cd, lambda st: isinstance(st, ast.Raise))
    dom2 = g2.dominators()
    fixed = [n for n in g2.nodes if n.ast is not None and n.kind == "stmt" and isinstance(n.ast, ast.Assign)
             and any(isinstance(c, ast.Call) and isinstance(c.func, ast.Attribute) and c.func.attr == "encode"
                     and "integer_encoding" in ast.unparse(c.func.value) for c in ast.walk(n.ast.value))]
    ctx.need(fixed, "fixed point encode call in _compress_data")
    guards = [n for n in g2.nodes if n.kind == "test"
              and "isfinite" in ast.unparse(n.ast.test) and "iinfo(np.int32)" in ast.unparse(n.ast.test)]
    ok = False
    from ..facts import conjuncts as _conjuncts

    def _refuses(gd):
        """is the test written as the REFUSAL (not finite or too large -> true) or as the admission (finite and small enough -> true)?"""
        return not any(isinstance(c_, ast.Call) and "isfinite" in ast.unparse(c_) for c_ in _conjuncts(gd.ast.test))
    for gd in guards:
        # the encoding stands on the side of the test where the values are finite and in range, and only there
        unsafe_kind = "t" if _refuses(gd) else "f"
        unsafe_succ = [b for b in g2.succ[gd.id] if g2.ekind[(gd.id, b)] == unsafe_kind]
        reach_unsafe = g2.reachable(unsafe_succ)
        ok = ok or (gd.id in dom2.get(fixed[0].id, set()) and fixed[0].id not in reach_unsafe)
    ctx.ob(R + ".fixed-point-guarded", COMPRESS, "_compress_data", "finite and |x| * factor < int32 max before FixedPointEncoding.encode",
           ok,
           "compress() hands float data to FixedPointEncoding.encode (an unchecked cast to int32) without testing "
           "finiteness and range first: [1e-3, 1e9, 5.0] decodes to [1e-3, -2.1e6, 5.0]", fixed[0].line)
    if guards:
        gtxt = ast.unparse(guards[0].ast.test)
        ctx.ob(R + ".fixed-point-guard-scaled", COMPRESS, "_compress_data", gtxt[:90],
               "* factor" in gtxt and "np.abs(array)" in gtxt,
               "the range test must be applied to the scaled magnitude |x| * factor", guards[0].line)
        fin = [c_ for c_ in ast.walk(guards[0].ast.test) if isinstance(c_, ast.Call) and call_name(c_) == "np.isfinite" and c_.args]
        tested = ast.unparse(fin[0].args[0]) if fin else "?"
        # what is returned on the refusing side: the array itself as bytes (in the body of a refusing test, or - when the test is written
        # as the admission - in what follows it)
        if _refuses(guards[0]):
            fallback_ = [b for b in guards[0].ast.body if isinstance(b, ast.Return)]
        else:
            fallback_ = [st for st in ast.walk(cd) if isinstance(st, ast.Return) and st.lineno > guards[0].ast.body[-1].end_lineno
                         and not any(st is x for b in guards[0].ast.body for x in ast.walk(b))][:1]
        ctx.ob(R + ".fallback-lossless", COMPRESS, "_compress_data", "fallback ByteArrayEncoding()",
               any(same_expr(b.value, f"bcif.BinaryCIFData({tested}, [ByteArrayEncoding()])") for b in fallback_),
               "values that do not fit must be kept losslessly", guards[0].line)
    # the factor passed to the encoding is the one tested
    fp = [c for c in calls(cd) if call_name(c) == "FixedPointEncoding"]
    ctx.ob(R + ".same-factor", COMPRESS, "_compress_data", ast.unparse(fp[0]) if fp else "-",
           bool(fp) and isinstance(fp[0].args[0], ast.Name) and (not guards or fp[0].args[0].id in names_in(guards[0].ast.test)),
           "the factor that is range-tested must be the factor that is used", cd.lineno)
    # what compress() hands back is the ARRAY under an encoding chosen here: the encoding the input came with plays no part (it may be
    # a lossy one - a coarse fixed-point step, a quantisation - and would defeat the tolerance), neither as the result nor as the size to beat
    aparam = param_names(cd)[0]
    rets = [st for st in ast.walk(cd) if isinstance(st, ast.Return) and st.value is not None]
    own = [st for st in rets if isinstance(st.value, ast.Name) and st.value.id == aparam]
    rebuilt = [st for st in rets if isinstance(st.value, ast.Call) and (call_name(st.value) or "").split(".")[-1] == "BinaryCIFData" and st.value.args
               and isinstance(st.value.args[0], ast.Name) and st.value.args[0].id != aparam]
    ctx.ob(R + ".result-built-from-array", COMPRESS, "_compress_data", f"{len(rets)} result(s), {len(rebuilt)} built as BinaryCIFData(array, ..)",
           not own and len(rebuilt) == len(rets),
           "a result that is the input object (or is not built from the array) keeps whatever encoding the input had: with a lossy input "
           "encoding the error of compress(data, float_tolerance) is that of the old encoding, not the tolerance", (own or rets)[0].lineno)
    sizes = [c for c in calls(cd) if call_name(c) == "_data_size_in_file"]
    ctx.ob(R + ".result-built-from-array", COMPRESS, "_compress_data", "the size to beat is that of the plain array",
           bool(sizes) and all(len(c.args) == 1 and not (isinstance(c.args[0], ast.Name) and c.args[0].id == aparam) for c in sizes),
           "the candidate is compared with the size of the input under the encoding it came with: a small lossy input wins and is kept",
           sizes[0].lineno if sizes else cd.lineno)
    if with_downcast:
        from .C04 import downcast_bounds
        downcast_bounds(ctx, R + ".downcast-bounds")
    # decimal places honour the tolerance
    gd_ = cz.func("_get_decimal_places")
    ctx.ob(R + ".tolerance", COMPRESS, "_get_decimal_places", "error < tol * |x| for all finite non-zero values",
           contains_expr(gd_, "np.all(error < tol * np.abs(array))") and contains_expr(gd_, "np.isfinite(array) & (array != 0)"),
           "the number of decimals must be chosen so that the relative error stays below the tolerance", gd_.lineno,
           nontrivial=False)

    # the search for the number of decimals counts upwards without a limit: it must also end when no number of decimals can reach the
    # tolerance (a subnormal value needs more decimals than 10**d has in the array's type: the rounded values turn NaN and the error
    # test is false for ever).  An exit of the loop has to test that - finiteness of what was computed, or the counter itself
    n_unbounded = 0
    for lp in ast.walk(gd_):
        if isinstance(lp, ast.For) and isinstance(lp.iter, ast.Call) and (call_name(lp.iter) or "").split(".")[-1] == "count" \
                or isinstance(lp, ast.While) and isinstance(lp.test, ast.Constant) and lp.test.value in (True, 1):
            n_unbounded += 1
            counter = {x.id for x in ast.walk(lp.target) if isinstance(x, ast.Name)} if isinstance(lp, ast.For) else set()
            bounded = False
            for st in ast.walk(lp):
                if isinstance(st, ast.If) and any(isinstance(b, (ast.Return, ast.Break, ast.Raise)) for b in st.body):
                    direct = any(isinstance(c_, ast.Compare) and any(isinstance(x, ast.Name) and x.id in counter for x in [c_.left] + c_.comparators)
                                 for c_ in ast.walk(st.test))
                    finite = any(isinstance(c_, ast.Call) and (call_name(c_) or "").split(".")[-1] in ("isfinite", "isnan", "isinf") for c_ in ast.walk(st.test))
                    bounded = bounded or direct or finite
            ctx.ob(R + ".decimal-search-ends", COMPRESS, "_get_decimal_places", lp.iter if isinstance(lp, ast.For) else "while True",
                   bounded,
                   "the loop counts decimals upwards until the rounding error is below the tolerance and has no other exit: for a value so small that "
                   "10**decimals overflows the array's type first (a subnormal float) the rounded values become NaN, the test never holds and "
                   "compress() never returns", lp.lineno)
    ctx.need(n_unbounded <= 1, "one search loop in _get_decimal_places")


MUTANTS = [
    Mutant("decimal-search-without-bound", COMPRESS, "        if not np.isfinite(rounded).all():\n", "        if False:\n", "R3.decimal-search-ends"),
    Mutant("packer-single-float", BCIF, "            serialized_content, use_bin_type=True, default=_encode_numpy\n", "            serialized_content, use_bin_type=True, use_single_float=True, default=_encode_numpy\n",
           "R5.msgpack-lossless"),
    Mutant("category-tolerance-default", COMPRESS, "        compressed_column = _compress_column(bcif_column, float_tolerance)\n", "        compressed_column = compress(bcif_column)\n",
           "R3.tolerance-forwarded", "_compress_category"),
    Mutant("as-array-masks-in-place", BCIF, "                array = self._data.array.astype(dtype, copy=True)\n", "                array = self._data.array.astype(dtype, copy=False)\n",
           "R5.reading-leaves-column", "BinaryCIFColumn.as_array"),
    Mutant("compress-float64-only", COMPRESS, "    elif np.issubdtype(array.dtype, np.floating):\n", "    elif np.issubdtype(array.dtype, float):\n", "R3.dtype-family-test"),
    Mutant("compress-int64-only", COMPRESS, "    elif np.issubdtype(array.dtype, np.integer):\n", "    elif np.issubdtype(array.dtype, int):\n", "R3.dtype-family-test"),
    Mutant("compress-fallback-narrowed-array", COMPRESS,
           "            # non-finite or too large values can only be kept as float\n            return bcif.BinaryCIFData(array, [ByteArrayEncoding()])",
           "            # non-finite or too large values can only be kept as float\n            return bcif.BinaryCIFData(array.astype(np.float32), [ByteArrayEncoding()])",
           "R3.fallback-lossless"),
    Mutant("bytearray-asarray", ENC, "return _safe_cast(data, self.type.to_dtype()).tobytes()", "return np.asarray(data, dtype=self.type.to_dtype()).tobytes()", "R2.safe-cast-used"),
    Mutant("runlength-raw", ENC, "return self._encode(_safe_cast(data, self.src_type.to_dtype()))", "return self._encode(data)", "R2.safe-cast-used"),
    Mutant("bcif-prefix-lstrip", "structure/io/pdbx/bcif.py", "name.removeprefix(\"_\"): category", "name.lstrip(\"_\"): category", "R5.prefix"),
    Mutant("bcif-mask-key", "structure/io/pdbx/bcif.py", "BinaryCIFData.deserialize(content[\"mask\"])\n", "BinaryCIFData.deserialize(content[\"data\"])\n", "R5.attribute"),
    Mutant("bcif-data-mask-swapped", "structure/io/pdbx/bcif.py", "            \"data\": self._data.serialize(),\n            \"mask\": self._mask.serialize() if self._mask is not None else None,", "            \"mask\": self._data.serialize(),\n            \"data\": self._mask.serialize() if self._mask is not None else None,", "R5.attribute"),
    Mutant("bcif-element-key", "structure/io/pdbx/bcif.py", "BinaryCIFFile._deserialize_elements(content[\"dataBlocks\"], \"header\")", "BinaryCIFFile._deserialize_elements(content[\"dataBlocks\"], \"name\")", "R5.elements"),
    Mutant("bcif-raw-strings", "structure/io/pdbx/bcif.py", "msgpack.unpackb(f.read(), use_list=True, raw=False)", "msgpack.unpackb(f.read(), use_list=True, raw=True)", "R5.msgpack-types"),
    Mutant("registry-delta-removed", ENC, '    "Delta": DeltaEncoding,\n', "", "R1.registry-covers-classes"),
    Mutant("registry-kind-swapped", ENC, '    "RunLengthEncoding": "RunLength",\n    "DeltaEncoding": "Delta",', '    "RunLengthEncoding": "Delta",\n    "DeltaEncoding": "RunLength",',
           "R1.registry-inverse"),
    Mutant("bytearray-astype", ENC, "        return _safe_cast(data, self.type.to_dtype()).tobytes()", "        return data.astype(np.int32).tobytes()",
           "R2.unchecked-narrowing-in-encode"),
    Mutant("safecast-upper-dropped", ENC, "        if np.any(array < dtype_info.min) or np.any(array > dtype_info.max):", "        if np.any(array < dtype_info.min):",
           "R4.safe-cast-bounds"),
    Mutant("regress-compress-guard", COMPRESS,
           "        if (\n            factor is None\n            or not np.isfinite(array).all()\n            or (np.abs(array) * factor >= np.iinfo(np.int32).max).any()\n        ):\n            # The fixed point representation is a 32 bit integer:\n            # non-finite or too large values can only be kept as float\n            return bcif.BinaryCIFData(array, [ByteArrayEncoding()])\n",
           "", "R3.fixed-point-guarded"),
    Mutant("compress-guard-unscaled", COMPRESS, "(np.abs(array) * factor >= np.iinfo(np.int32).max).any()", "(np.abs(array) >= np.iinfo(np.int32).max).any()",
           "R3.fixed-point-guard-scaled"),
    Mutant("typecode-dtype", ENC, '    TypeCode.UINT16: "<u2",', '    TypeCode.UINT16: "<i2",', "R1.typecode-dtypes"),
    Mutant("decode-not-reversed", ENC, "    for enc in reversed(encoding):\n        data = enc.decode(data)", "    for enc in encoding:\n        data = enc.decode(data)",
           "R1.chain-order"),
    Mutant("downcast-lower", COMPRESS, "        if np.all(array >= np.iinfo(dtype).min) and np.all(\n            array <= np.iinfo(dtype).max\n        ):",
           "        if np.all(\n            array <= np.iinfo(dtype).max\n        ):", "R3.downcast-bounds"),
    # ---- one seeded fault per remaining rule ----
    Mutant("delta-decode-dropped", ENC,
           "    def decode(self, data):\n        output = np.cumsum(data, dtype=self.src_type.to_dtype())\n        output += self.origin\n        return output\n",
           "", "R1.encode-decode-defined", qualname="DeltaEncoding"),
    Mutant("camel-to-snake-no-lower", ENC, '    return CAMEL_CASE_PATTERN.sub("_", attribute_name).lower()', '    return CAMEL_CASE_PATTERN.sub("_", attribute_name)',
           "R1.name-conversion"),
    Mutant("snake-to-camel-first-kept", ENC, "    return attribute_name[0].lower() + attribute_name[1:]", "    return attribute_name",
           "R1.name-conversion"),
    Mutant("param-num-steps-renamed", ENC, "    num_steps: ...\n", "    n_steps: ...\n", "R1.parameter-names", qualname="IntervalQuantizationEncoding"),
    Mutant("reverse-table-not-reversed", ENC, "_DTYPE_TO_TYPE_CODE = {val: key for key, val in _TYPE_CODE_TO_DTYPE.items()}",
           "_DTYPE_TO_TYPE_CODE = {key: val for key, val in _TYPE_CODE_TO_DTYPE.items()}", "R1.typecode-inverse"),
    Mutant("typecode-uint32-no-dtype", ENC, '    TypeCode.UINT32: "<u4",\n', "", "R1.typecode-total"),
    Mutant("typecode-float64-value", ENC, "    FLOAT64 = 33\n", "    FLOAT64 = 34\n", "R1.typecode-values"),
    Mutant("compress-fallback-float32", COMPRESS,
           "            # non-finite or too large values can only be kept as float\n            return bcif.BinaryCIFData(array, [ByteArrayEncoding()])",
           "            # non-finite or too large values can only be kept as float\n            return bcif.BinaryCIFData(array, [ByteArrayEncoding(np.float32)])",
           "R3.fallback-lossless"),
    Mutant("compress-other-factor", COMPRESS, "        to_integer_encoding = FixedPointEncoding(factor)", "        to_integer_encoding = FixedPointEncoding(10 * factor)",
           "R3.same-factor"),
    Mutant("decimals-absolute-error", COMPRESS, "        if np.all(error < tol * np.abs(array)):", "        if np.all(error < tol):", "R3.tolerance"),
    Mutant("safecast-float-allowed", ENC,
           '        if not np.issubdtype(array.dtype, np.integer):\n            raise ValueError("Cannot cast floating point to integer")\n', "",
           "R4.safe-cast-float"),
    Mutant("safecast-same-width-shortcut", ENC,
           "        dtype_info = np.iinfo(dtype)\n        if np.any(array < dtype_info.min)",
           "        if array.dtype.itemsize <= dtype.itemsize:\n            return array.astype(dtype)\n        dtype_info = np.iinfo(dtype)\n        if np.any(array < dtype_info.min)",
           "R4.safe-cast-order"),
    Mutant("bcif-data-encoding-not-kept", BCIF, 'return BinaryCIFData(decode_stepwise(content["data"], encoding), encoding)',
           'return BinaryCIFData(decode_stepwise(content["data"], encoding))', "R5.codec"),
    Mutant("bcif-encodings-written-reversed", BCIF, "serialized_encoding = [enc.serialize() for enc in self._encoding]",
           "serialized_encoding = [enc.serialize() for enc in reversed(self._encoding)]", "R5.codec-order"),
    Mutant("bcif-file-key-encoder", BCIF, 'serialized_content["encoder"] = "biotite"', 'serialized_content["encoding"] = "biotite"', "R5.file-keys"),
    Mutant("bcif-rowcount-key", BCIF, '            content["rowCount"],\n', '            content["row_count"],\n', "R5.keys", qualname="BinaryCIFCategory"),
    Mutant("bcif-mask-required", BCIF,
           '            BinaryCIFData.deserialize(content["mask"])\n            if content["mask"] is not None\n            else None,\n',
           '            BinaryCIFData.deserialize(content["mask"]),\n', "R5.mask-optional"),
    Mutant("bcif-read-skips-deserialize", BCIF,
           "            return BinaryCIFFile.deserialize(\n                msgpack.unpackb(file.read(), use_list=True, raw=False)",
           "            return BinaryCIFFile(\n                msgpack.unpackb(file.read(), use_list=True, raw=False)", "R5.read-deserialises"),
]
