"""
C08 - optimal pairwise alignment (narrow): trace-cell selection and traceback
dispatch - necessary for "returned score = recomputed score", "results are
the co-optimal set", "at most max_number".  The optimality of the recurrences,
the initialisation values and the sentinel arithmetic are NOT decided.

R1  ordering enumeration of get_trace_linear (13 weak orderings) and
    get_trace_affine (13 x 3 x 3): flag set = arg-max set, stored value = max.
R2  dispatch of follow_trace over every trace flag, state masks, branch budget.
R3  stencil: the cells the fill functions read for each selector argument are
    the predecessor cells the traceback steps to; argument order matches the
    selector's parameters; the tables read/written belong to the right state;
    the local variant clears exactly the flags of a table whose score is <= 0;
    boundary flags agree with the stencil; start states are the enum values.
R4  max_number: validated, passed as budget, result truncated.
"""

import ast

from .. import tracetab
from ..astutil import call_name, calls, dotted, names_in, param_names, stmts, walk_local
from ..core import AnalysisError, Mutant
from ..exprnorm import canon, contains_expr, same_expr, spec
from ..exprnorm import has_code

EXPLANATION = (
    "Exhaustive evaluation of the trace selectors from their ASTs over all weak orderings of their "
    "comparison-only arguments; flag dispatch and state masks of follow_trace; predecessor-cell "
    "(stencil) agreement between the fill functions of pairwise.pyx and the traceback."
)
ASSUMPTIONS = ["the selectors use their score arguments only in comparisons (checked as an obligation)"]
MIN_OBLIGATIONS = 150

TT = tracetab.TT
PW = "sequence/align/pairwise.pyx"
LINEAR_GROUPS = [("max_score", ["match_score", "gap_left_score", "gap_top_score"])]
AFFINE_GROUPS = [
    ("max_match_score", ["match_to_match_score", "gap_left_to_match_score", "gap_top_to_match_score"]),
    ("max_gap_left_score", ["match_to_gap_left_score", "gap_left_to_gap_left_score"]),
    ("max_gap_top_score", ["match_to_gap_top_score", "gap_top_to_gap_top_score"]),
]


def sub_vars(f, sc):
    """locals that hold the substitution score"""
    return {st.targets[0].id for st in ast.walk(f) if isinstance(st, ast.Assign) and isinstance(st.targets[0], ast.Name)
            and contains_expr(st.value, sc)}


def cell_reads(expr):
    """[(table, di, dj)] for reads T[i+a, j+b] in an expression"""
    out = []
    for n in ast.walk(expr):
        if isinstance(n, ast.Subscript) and isinstance(n.value, ast.Name) and isinstance(n.slice, ast.Tuple) and len(n.slice.elts) == 2:
            offs = []
            for e, v in zip(n.slice.elts, ("i", "j")):
                if isinstance(e, ast.Name) and e.id == v:
                    offs.append(0)
                elif isinstance(e, ast.BinOp) and isinstance(e.left, ast.Name) and e.left.id == v and isinstance(e.right, ast.Constant):
                    offs.append(e.right.value * (1 if isinstance(e.op, ast.Add) else -1))
                else:
                    offs = None
                    break
            if offs is not None:
                out.append((n.value.id, offs[0], offs[1]))
    return out


def fill_check(ctx, rule, rel, qual, selector, groups, sten, state_tables=None):
    """stencil / argument-order agreement of one fill function"""
    src = ctx.src(rel)
    f = src.func(qual)
    sel = [c for c in calls(f) if call_name(c) == selector]
    ctx.need(len(sel) >= 1, f"{qual} calls {selector}")
    sparams = param_names(ctx.src(TT).func(selector))
    defs = {}
    for st in stmts(f):
        if isinstance(st, ast.Assign) and isinstance(st.targets[0], ast.Name):
            defs.setdefault(st.targets[0].id, []).append(st.value)
    n = 0
    for call in sel:
        score_params = [p for _, ps in groups for p in ps]
        for pos, p in enumerate(sparams):
            if p not in score_params:
                continue
            arg = call.args[pos]
            name = arg.id if isinstance(arg, ast.Name) else None
            ctx.need(name in defs, f"definition of argument {pos} of {selector} in {qual}")
            reads = set()
            for d in defs[name]:
                rs = cell_reads(d)
                # follow one alias step (similarity_score etc. carry no table read)
                reads |= set(rs)
            move = p[:-len("_score")]
            src_state, _, dst_state = move.partition("_to_") if "_to_" in move else (None, None, move)
            want_off = sten[dst_state]
            offs = {(a, b) for _, a, b in reads}
            n += 1
            ok = offs == {want_off}
            why = f"argument `{name}` passed as {p} reads cell offsets {sorted(offs)}, the traceback steps by {want_off} for {dst_state}"
            if ok and state_tables is not None and src_state is not None:
                tabs = {t for t, _, _ in reads}
                ok = tabs == {state_tables[src_state]}
                why = f"argument `{name}` passed as {p} reads table(s) {sorted(tabs)}, it must come from {state_tables[src_state]}"
            ctx.ob(rule + ".stencil", rel, qual, f"{p} <- {name}: reads {sorted(reads)}", ok,
                   why + ": the trace flag then points to a cell whose score was not the one compared", call.lineno)
    return n


def run(ctx):
    en = tracetab.enums(ctx)
    n1 = tracetab.selector_check(ctx, "R1", "get_trace_linear", LINEAR_GROUPS)
    n2 = tracetab.selector_check(ctx, "R1", "get_trace_affine", AFFINE_GROUPS)
    # a selector that is not comparison-only is reported as a violation of R1.comparison-only (no orderings are evaluated then)
    if n1 or not any(f_.rule == "R1.comparison-only" and f_.qualname == "get_trace_linear" for f_ in ctx.findings):
        ctx.floor("orderings-linear", n1, 13)
    if n2 or not any(f_.rule == "R1.comparison-only" and f_.qualname == "get_trace_affine" for f_ in ctx.findings):
        ctx.floor("orderings-affine", n2, 117)
    tracetab.dispatch_check(ctx, "R2")
    sten = tracetab.stencil(ctx)[False]
    ctx.ob("R3.stencil-values", TT, "follow_trace", str(sorted(sten.items())),
           sten == {"match": (-1, -1), "gap_left": (0, -1), "gap_top": (-1, 0)},
           "non-banded predecessors: match (i-1,j-1), gap in sequence 1 (i,j-1), gap in sequence 2 (i-1,j)", 1)
    s = ctx.src(PW)
    fill_check(ctx, "R3", PW, "_fill_align_table", "get_trace_linear", LINEAR_GROUPS, sten)
    # affine: which table belongs to which state - from the stores of the maxima
    fa = s.func("_fill_align_table_affine")
    sel = [c for c in calls(fa) if call_name(c) == "get_trace_affine"][0]
    sparams = param_names(ctx.src(TT).func("get_trace_affine"))
    ptr_vars = {}
    for pos, p in enumerate(sparams):
        if p.startswith("max_"):
            a = sel.args[pos]
            v = a.operand if isinstance(a, ast.UnaryOp) else a
            ptr_vars[p[len("max_"):-len("_score")]] = v.id
    state_tables = {}
    for state, var in ptr_vars.items():
        tabs = {st.targets[0].value.id for st in stmts(fa) if isinstance(st, ast.Assign) and isinstance(st.targets[0], ast.Subscript)
                and isinstance(st.value, ast.Name) and st.value.id == var and isinstance(st.targets[0].value, ast.Name)}
        ctx.need(len(tabs) == 1, f"table that stores the maximum of state {state}")
        state_tables[state] = next(iter(tabs))
    ctx.ob("R3.state-tables", PW, "_fill_align_table_affine", str(sorted(state_tables.items())),
           len(set(state_tables.values())) == 3, "each state needs its own score table", fa.lineno)
    fill_check(ctx, "R3", PW, "_fill_align_table_affine", "get_trace_affine", AFFINE_GROUPS, sten, state_tables)
    # local: clear exactly the flags of the table whose score is <= 0
    for st in ast.walk(fa):
        if isinstance(st, ast.If) and isinstance(st.test, ast.Compare) and isinstance(st.test.left, ast.Name) \
                and st.test.left.id in ptr_vars.values() and isinstance(st.test.ops[0], ast.LtE):
            state = [k for k, v in ptr_vars.items() if v == st.test.left.id][0]
            cleared = set()
            for b in st.body:
                if isinstance(b, ast.AugAssign) and isinstance(b.op, ast.BitAnd):
                    cleared = tracetab.flag_names(b.value)
            want = {m for m in en["TraceDirectionAffine"] if m.endswith("_TO_" + state.upper())}
            stores = [b for b in st.orelse if isinstance(b, ast.Assign) and ast.unparse(b.targets[0]).startswith(state_tables[state])]
            ctx.ob("R3.local-clears-own-flags", PW, "_fill_align_table_affine", f"{st.test.left.id} <= 0 clears {sorted(cleared)}",
                   cleared == want and bool(stores),
                   f"a non-positive score in the {state} table must clear exactly {sorted(want)} (local alignments end "
                   "there) and otherwise store the score", st.lineno)
    fl = s.func("_fill_align_table")
    # the block that stores the cell: a guard `if local and score <= 0: continue` precedes both stores (score and trace)
    from ..facts import conjuncts as _conj
    floor_ok = False
    for lp in ast.walk(fl):
        if not isinstance(lp, ast.For):
            continue
        body = lp.body
        st_i = [k for k, b in enumerate(body) if isinstance(b, ast.Assign) and isinstance(b.targets[0], ast.Subscript)
                and isinstance(b.targets[0].value, ast.Name) and b.targets[0].value.id in ("score_table", "trace_table")]
        if len(st_i) < 2:
            continue
        for k, b in enumerate(body[:min(st_i)]):
            if isinstance(b, ast.If) and not b.orelse and len(b.body) == 1 and isinstance(b.body[0], ast.Continue):
                cj = {repr(canon(c)) for c in _conj(b.test)}
                if cj in ({repr(spec("local == True")), repr(spec("score <= 0"))}, {repr(spec("local")), repr(spec("score <= 0"))}):
                    floor_ok = True
    ctx.ob("R3.local-floor-linear", PW, "_fill_align_table", "local and score <= 0 -> cell stays 0 without trace", floor_ok,
           "in local mode a non-positive cell must keep score 0 and no trace flag: `if local and score <= 0: continue` before the cell is stored",
           fl.lineno)
    # loops cover the table from 1
    for q in ("_fill_align_table", "_fill_align_table_affine"):
        f = s.func(q)
        loops_ = [st for st in ast.walk(f) if isinstance(st, ast.For)]
        rng = [ast.unparse(st.iter) for st in loops_]

        def full_range(it, axis):
            return isinstance(it, ast.Call) and call_name(it) == "range" and len(it.args) == 2 and not it.keywords \
                and isinstance(it.args[0], ast.Constant) and it.args[0].value == 1 \
                and isinstance(it.args[1], ast.Subscript) and isinstance(it.args[1].value, ast.Attribute) and it.args[1].value.attr == "shape" \
                and isinstance(it.args[1].value.value, ast.Name) and it.args[1].value.value.id.endswith("table") \
                and isinstance(it.args[1].slice, ast.Constant) and it.args[1].slice.value == axis

        ctx.ob("R3.fill-range", PW, q, str(rng), len(loops_) == 2 and full_range(loops_[0].iter, 0) and full_range(loops_[1].iter, 1)
               and isinstance(loops_[0].target, ast.Name) and loops_[0].target.id == "i" and isinstance(loops_[1].target, ast.Name)
               and loops_[1].target.id == "j" and any(x is loops_[1] for x in ast.walk(loops_[0])),
               "the table is filled for i in 1..shape[0]-1 and, inside, j in 1..shape[1]-1: exactly range(1, table.shape[axis])", f.lineno)
        sc = "matrix[code1[i - 1], code2[j - 1]]"
        # every value computed from the diagonal predecessor (i-1, j-1) adds the substitution score of symbols i-1 / j-1
        diag_users = [st for st in ast.walk(f) if isinstance(st, ast.Assign) and any((a, b) == (-1, -1) for _, a, b in cell_reads(st.value))]
        sub_ok = bool(diag_users) and all(contains_expr(st.value, sc) or any(
            isinstance(n_, ast.Name) and n_.id in sub_vars(f, sc) for n_ in ast.walk(st.value)) for st in diag_users)
        ctx.ob("R3.substitution-lookup", PW, q, sc, sub_ok,
               "cell (i,j) compares symbol i-1 of sequence 1 with symbol j-1 of sequence 2: every candidate taken from the diagonal "
               "predecessor must add matrix[code1[i-1], code2[j-1]]", f.lineno)
    # ---- align_optimal: boundary flags, start states, max_number -----------------
    ao = s.func("align_optimal")
    # the penalties that are refused are the POSITIVE ones (0 - gaps for free - is a legal penalty), for both forms
    pen_tests = [st.test for st in ast.walk(ao) if isinstance(st, ast.If) and any(isinstance(y, ast.Raise) for y in st.body)
                 and any(isinstance(x, ast.Name) and x.id == "gap_penalty" for x in ast.walk(st.test))
                 and any(isinstance(x, ast.Compare) and not isinstance(x.ops[0], (ast.Eq, ast.NotEq, ast.Is, ast.IsNot)) for x in ast.walk(st.test))]
    ctx.ob("R1.gap-penalty-range", PW, "align_optimal", "gap_penalty > 0 / gap_penalty[0] > 0 or gap_penalty[1] > 0 -> ValueError",
           len(pen_tests) == 2 and any(same_expr(t_, "gap_penalty > 0") for t_ in pen_tests)
           and any(same_expr(t_, "gap_penalty[0] > 0 or gap_penalty[1] > 0") for t_ in pen_tests),
           "a gap penalty of 0 is accepted by the documented range check (only positive penalties are refused)", ao.lineno)
    # the code arrays go into the table filling as they are (each in its own dtype: the filling is specialised per pair of code types)
    ctx.ob("R1.codes-unconverted", PW, "align_optimal", "code1 = seq1.code; code2 = seq2.code",
           has_code(ao, "code1 = seq1.code") and has_code(ao, "code2 = seq2.code"),
           "converting one code array to the dtype of the other truncates the codes of a large alphabet (a uint16 code of 300 becomes 44 as "
           "uint8)", ao.lineno)
    t = ast.unparse(ao)
    bounds = {}
    for st in stmts(ao):
        if isinstance(st, ast.Assign) and isinstance(st.targets[0], ast.Subscript) and dotted(st.targets[0].value) == "trace_table":
            fl_ = tracetab.flag_names(st.value)
            if fl_:
                bounds[ast.unparse(st.targets[0].slice).strip('()')] = next(iter(fl_))
    want_b = {"1:, 0": "GAP_TOP", "0, 1:": "GAP_LEFT", "0, 1": "MATCH_TO_GAP_LEFT", "0, 2:": "GAP_LEFT_TO_GAP_LEFT",
              "1, 0": "MATCH_TO_GAP_TOP", "2:, 0": "GAP_TOP_TO_GAP_TOP"}
    ctx.ob("R3.boundary-flags", PW, "align_optimal", str(sorted(bounds.items())), bounds == want_b,
           "row 0 can only be left by gap_left moves (i, j-1) and column 0 by gap_top moves (i-1, j); the first "
           "step opens the gap from the match table", ao.lineno)
    starts = {}
    for st in ast.walk(ao):
        if isinstance(st, ast.If) and isinstance(st.test, ast.Compare) and "== max_score" in ast.unparse(st.test):
            tab = st.test.left.value.id if isinstance(st.test.left, ast.Subscript) else None
            codes = [c.args[1].value for b in st.body for c in ast.walk(b) if isinstance(c, ast.Call) and call_name(c) == "np.append"
                     and "state_list" in ast.unparse(c.args[0]) and isinstance(c.args[1], ast.Constant)]
            if tab and codes:
                starts[tab] = codes[0]
    want_s = {state_tables[k]: en["TraceState"][k.upper() + "_STATE"] for k in state_tables}
    ctx.ob("R3.start-states", PW, "align_optimal", str(sorted(starts.items())), starts == want_s,
           f"the traceback must start in the state of the table that holds the maximum: {want_s}", ao.lineno)
    ctx.ob("R3.start-states", PW, "align_optimal", "local affine start: MATCH_STATE", has_code(ao, "np.full(len(i_list), 1)")
           and en["TraceState"]["MATCH_STATE"] == 1, "local alignments end with a match", ao.lineno, nontrivial=False)
    # ---- set-up of align_optimal -------------------------------------------------------------
    from ..lints import alphabets_fit_matrix
    from ..exprnorm import local_value
    alphabets_fit_matrix(ctx, PW, "align_optimal", "R3.alphabets-checked")
    # linear vs affine: decided by the TYPE of gap_penalty alone (an (open, ext) tuple with equal values is still affine: the affine
    # model forbids a gap in one sequence directly after a gap in the other, the linear one does not)
    ap = local_value(ao, "affine_penalty")
    ctx.ob("R3.penalty-dispatch", PW, "align_optimal", "affine_penalty = (type(gap_penalty) is tuple)",
           ap is not None and (same_expr(ap, "False if type(gap_penalty) == int else True") or same_expr(ap, "True if type(gap_penalty) == tuple else False")
                               or same_expr(ap, "False if type(gap_penalty) == int else (True if type(gap_penalty) == tuple else affine_penalty)")),
           "an integer penalty selects the linear algorithm, a tuple the affine one - nothing else; the code computes "
           + (ast.unparse(ap)[:120] if ap is not None else "nothing"), ao.lineno)
    nv = local_value(ao, "neg_inf")
    ctx.ob("R3.sentinel-headroom", PW, "align_optimal", "neg_inf = INT32_MIN - gap_open - gap_ext - min(0, min score)",
           nv is not None and same_expr(nv, "(np.iinfo(np.int32).min - gap_penalty[0] - gap_penalty[1] - np.min(matrix.score_matrix())) if np.min(matrix.score_matrix()) < 0 "
                                        "else (np.iinfo(np.int32).min - gap_penalty[0] - gap_penalty[1])"),
           "the 'minus infinity' of forbidden transitions must stay above INT32_MIN when a gap penalty or a negative score is added, and must not "
           "be raised by a positive minimum score (INT32_MIN - open - ext - positive wraps around to a huge positive score); the code computes "
           + (ast.unparse(nv)[:160] if nv is not None else "nothing"), ao.lineno)
    # every traceback start works on a buffer of its own
    ftc = [c for c in calls(ao) if call_name(c) == "follow_trace"]
    fresh = False
    for lp in ast.walk(ao):
        if isinstance(lp, ast.For) and any(c in ast.walk(lp) for c in ftc):
            k_call = min(k for k, st in enumerate(lp.body) if any(c in ast.walk(st) for c in ftc))
            fresh = any(isinstance(st, ast.Assign) and same_expr(st.targets[0], "trace")
                        and same_expr(st.value, "np.full((i_start + 1 + j_start + 1, 2), -1, dtype=np.int64)") for st in lp.body[:k_call])
    ctx.ob("R4.trace-buffer-per-start", PW, "align_optimal", "trace = np.full((i_start + 1 + j_start + 1, 2), -1) inside the loop over the starts", fresh,
           "follow_trace fills the buffer from the start cell backwards and the unused rows must be -1: each start needs a fresh buffer of "
           "its own maximal length (a shared one leaks rows of an earlier, longer path)", ao.lineno)
    # the reported score: every binding of max_score is the maximum of the table(s) the traceback starts from, and it is what
    # every returned Alignment carries
    def _canon_max(e):
        c_ = canon(e)
        if isinstance(e, ast.Call) and call_name(e) == "max" and not e.keywords:
            return ("max",) + tuple(sorted((repr(canon(a)) for a in e.args)))
        return c_
    ms_vals = {repr(_canon_max(st.value)) for st in ast.walk(ao) if isinstance(st, ast.Assign) and len(st.targets) == 1
               and isinstance(st.targets[0], ast.Name) and st.targets[0].id == "max_score"}
    want_ms = {repr(_canon_max(ast.parse(x, mode="eval").body)) for x in (
        "np.max(m_table)", "np.max(score_table)", "score_table[i_start, j_start]",
        "max(m_table[i_start, j_start], g1_table[i_start, j_start], g2_table[i_start, j_start])")}
    rets = [st for st in stmts(ao) if isinstance(st, ast.Return)]
    ret_ok = len(rets) == 1 and isinstance(rets[0].value, ast.ListComp) and len(rets[0].value.generators) == 1 \
        and isinstance(rets[0].value.generators[0].target, ast.Name) and same_expr(rets[0].value.generators[0].iter, "trace_list") \
        and same_expr(rets[0].value.elt, f"Alignment([seq1, seq2], {rets[0].value.generators[0].target.id}, max_score)")
    ctx.ob("R3.reported-score", PW, "align_optimal", "Alignment([seq1, seq2], trace, max_score) for trace in trace_list", ret_ok and ms_vals == want_ms,
           "the reported score is the maximum of the start cell(s) - local: np.max of the (match) table, global: the last cell, "
           f"affine: the largest of the three tables there; the code binds max_score to {len(ms_vals)} different expressions", ao.lineno)
    # R4
    val_guard = [st for st in ao.body if isinstance(st, ast.If) and same_expr(st.test, "max_number < 1") and st.body and isinstance(st.body[-1], ast.Raise)]
    ctx.ob("R4.max-number-validated", PW, "align_optimal", "max_number < 1 -> raise", len(val_guard) == 1,
           "a limit below one alignment must be refused", ao.lineno)
    ft = [c for c in calls(ao) if call_name(c) == "follow_trace"]
    ctx.ob("R4.max-number-budget", PW, "align_optimal", "follow_trace(..., max_trace_count=max_number)",
           bool(ft) and all(any(k.arg == "max_trace_count" and same_expr(k.value, "max_number") for k in c.keywords) for c in ft),
           "the traceback budget must be max_number", ao.lineno)
    # the truncation sits between the traceback loop and the return, at the top level of the function
    k_ft = max([k for k, st in enumerate(ao.body) if any(isinstance(c, ast.Call) and call_name(c) == "follow_trace" for c in ast.walk(st))] or [-1])
    k_ret = max([k for k, st in enumerate(ao.body) if isinstance(st, ast.Return)] or [-1])
    trunc = [k for k, st in enumerate(ao.body) if isinstance(st, ast.Assign) and len(st.targets) == 1 and same_expr(st.targets[0], "trace_list")
             and same_expr(st.value, "trace_list[:max_number]")]
    ctx.ob("R4.max-number-truncated", PW, "align_optimal", "trace_list = trace_list[:max_number]",
           k_ft >= 0 and any(k_ft < k < k_ret for k in trunc),
           "several start cells each get the full budget: the final list must be truncated to max_number before the alignments are built", ao.lineno)


MUTANTS = [
    Mutant("alphabet-check-both-must-fail", PW, "        or not matrix.get_alphabet2().extends(seq2.get_alphabet()):\n            raise ValueError(\"The sequences' alphabets do not fit the matrix\")\n    # Check if gap penalty is linear or affine\n    if type(gap_penalty) == int:\n        if gap_penalty > 0:",
           "        and not matrix.get_alphabet2().extends(seq2.get_alphabet()):\n            raise ValueError(\"The sequences' alphabets do not fit the matrix\")\n    # Check if gap penalty is linear or affine\n    if type(gap_penalty) == int:\n        if gap_penalty > 0:", "R3.alphabets-checked"),
    Mutant("sentinel-raised-by-positive-minimum", PW, "        neg_inf = np.iinfo(np.int32).min - gap_open - gap_ext\n        min_score = np.min(matrix.score_matrix())\n        if min_score < 0:\n            neg_inf -= min_score\n",
           "        min_score = np.min(matrix.score_matrix())\n        neg_inf = np.iinfo(np.int32).min - gap_open - gap_ext - min_score\n", "R3.sentinel-headroom"),
    Mutant("equal-penalties-linear", PW, "                raise ValueError(\"Gap penalty must be negative\")\n        affine_penalty = True\n",
           "                raise ValueError(\"Gap penalty must be negative\")\n        affine_penalty = gap_penalty[0] != gap_penalty[1]\n", "R3.penalty-dispatch"),
    Mutant("trace-buffer-shared", PW, "        trace = np.full(( i_start+1 + j_start+1, 2 ), -1, dtype=np.int64)\n", "", "R4.trace-buffer-per-start"),
    Mutant("fill-linear-last-row-skipped", PW, "    for i in range(1, score_table.shape[0]):\n", "    for i in range(1, score_table.shape[0]-1):\n", "R3.fill-range", qualname="_fill_align_table"),
    Mutant("linear-tie-lost", TT, "            trace = (\n                TraceDirectionLinear.MATCH |\n                TraceDirectionLinear.GAP_LEFT |\n                TraceDirectionLinear.GAP_TOP\n            )",
           "            trace = (\n                TraceDirectionLinear.MATCH |\n                TraceDirectionLinear.GAP_LEFT\n            )", "R1.argmax-flags"),
    Mutant("linear-gt-ge", TT, "    if match_score > gap_left_score:\n        if match_score > gap_top_score:\n            trace = TraceDirectionLinear.MATCH",
           "    if match_score >= gap_left_score:\n        if match_score > gap_top_score:\n            trace = TraceDirectionLinear.MATCH", "R1.argmax-flags"),
    Mutant("affine-wrong-max", TT, "        trace |= TraceDirectionAffine.GAP_LEFT_TO_GAP_LEFT\n        max_gap_left_score[0] = gap_left_to_gap_left_score",
           "        trace |= TraceDirectionAffine.GAP_LEFT_TO_GAP_LEFT\n        max_gap_left_score[0] = match_to_gap_left_score", "R1.argmax-flags"),
    Mutant("dispatch-next-state", TT, "                next_indices.append((i_match, j_match))\n                next_states.append(TraceState.GAP_LEFT_STATE)",
           "                next_indices.append((i_match, j_match))\n                next_states.append(TraceState.MATCH_STATE)", "R2.affine-dispatch"),
    Mutant("dispatch-cell", TT, "            if trace_value & TraceDirectionLinear.GAP_TOP:\n                next_indices.append((i_gap_top, j_gap_top))",
           "            if trace_value & TraceDirectionLinear.GAP_TOP:\n                next_indices.append((i_gap_left, j_gap_left))", "R2.linear-dispatch"),
    Mutant("fill-from-top-cell", PW, "                from_top = score_table[i-1, j] + gap_penalty", "                from_top = score_table[i, j-1] + gap_penalty", "R3.stencil"),
    Mutant("fill-affine-table", PW, "            g1m_score = g1_table[i-1,j-1] + similarity_score", "            g1m_score = g2_table[i-1,j-1] + similarity_score", "R3.stencil"),
    Mutant("local-clears-wrong", PW, "                    trace &= ~(\n                        TraceDirectionAffine.MATCH_TO_GAP_LEFT |\n                        TraceDirectionAffine.GAP_LEFT_TO_GAP_LEFT\n                    )",
           "                    trace &= ~(\n                        TraceDirectionAffine.MATCH_TO_GAP_LEFT\n                    )", "R3.local-clears-own-flags"),
    Mutant("no-truncation", PW, "    trace_list = trace_list[:max_number]\n", "", "R4.max-number-truncated"),
    Mutant("budget-unguarded", TT, "                if curr_trace_count[0] < max_trace_count:\n                    curr_trace_count[0] += 1\n                    new_i, new_j = next_indices[k]\n                    new_state = next_states[k]",
           "                if True:\n                    curr_trace_count[0] += 1\n                    new_i, new_j = next_indices[k]\n                    new_state = next_states[k]", "R2.branch-budget"),
    # ---- one seeded fault per rule that had none --------------------------------------
    # R1.comparison-only: C08 additionally puts a floor on the number of enumerated orderings, so the
    # recorded finding is pre-empted by the floor's AnalysisError (the same edits are caught as findings in C09)
    Mutant("linear-score-arithmetic", TT, "            trace = TraceDirectionLinear.MATCH\n            max_score[0] = match_score\n",
           "            trace = TraceDirectionLinear.MATCH\n            max_score[0] = match_score + 1\n", "R1.comparison-only"),
    Mutant("affine-difference-test", TT, "    if match_to_gap_left_score > gap_left_to_gap_left_score:\n",
           "    if match_to_gap_left_score - gap_left_to_gap_left_score > 0:\n", "R1.comparison-only"),
    Mutant("linear-branch-shares-trace", TT, "                        np.copy(trace), trace_list, 0,\n", "                        trace, trace_list, 0,\n", "R2.branch-copies-trace"),
    Mutant("affine-branch-shares-trace", TT, "                        np.copy(trace), trace_list, new_state,\n", "                        trace, trace_list, new_state,\n",
           "R2.branch-copies-trace"),
    Mutant("linear-flag-not-a-bit", tracetab.PXD, "    GAP_TOP  = 4    # bit 3", "    GAP_TOP  = 3    # bit 3", "R2.flag-values"),
    Mutant("affine-flag-duplicate", tracetab.PXD, "    MATCH_TO_GAP_TOP     = 32   # bit 6", "    MATCH_TO_GAP_TOP     = 16   # bit 6", "R2.flag-values"),
    Mutant("affine-flag-beyond-uint8", tracetab.PXD, "    GAP_TOP_TO_GAP_TOP   = 64   # bit 7", "    GAP_TOP_TO_GAP_TOP   = 256  # bit 7", "R2.flag-values"),
    Mutant("loop-mask-drops-flag", TT, "                state == TraceState.GAP_LEFT_STATE and trace_table[i,j] & (\n                    TraceDirectionAffine.MATCH_TO_GAP_LEFT |\n                    TraceDirectionAffine.GAP_LEFT_TO_GAP_LEFT\n                ) != 0",
           "                state == TraceState.GAP_LEFT_STATE and trace_table[i,j] & (\n                    TraceDirectionAffine.MATCH_TO_GAP_LEFT\n                ) != 0", "R2.state-mask"),
    Mutant("value-mask-wrong-flag", TT, "                trace_value = trace_table[i,j] & (\n                    TraceDirectionAffine.MATCH_TO_GAP_TOP |\n                    TraceDirectionAffine.GAP_TOP_TO_GAP_TOP\n                )",
           "                trace_value = trace_table[i,j] & (\n                    TraceDirectionAffine.MATCH_TO_GAP_TOP |\n                    TraceDirectionAffine.GAP_TOP_TO_MATCH\n                )", "R2.state-mask"),
    Mutant("boundary-linear-swapped", PW, "            trace_table[1:,0] = TraceDirectionLinear.GAP_TOP\n            trace_table[0,1:] = TraceDirectionLinear.GAP_LEFT\n",
           "            trace_table[1:,0] = TraceDirectionLinear.GAP_LEFT\n            trace_table[0,1:] = TraceDirectionLinear.GAP_TOP\n", "R3.boundary-flags"),
    Mutant("boundary-affine-first-step", PW, "            trace_table[0,  1] = TraceDirectionAffine.MATCH_TO_GAP_LEFT\n",
           "            trace_table[0,  1] = TraceDirectionAffine.GAP_LEFT_TO_GAP_LEFT\n", "R3.boundary-flags"),
    Mutant("fill-linear-wrong-axis", PW, "        for j in range(1, score_table.shape[1]):\n", "        for j in range(1, score_table.shape[0]):\n", "R3.fill-range",
           qualname="_fill_align_table"),
    Mutant("fill-affine-from-zero", PW, "    for i in range(1, trace_table.shape[0]):\n", "    for i in range(trace_table.shape[0]):\n", "R3.fill-range",
           qualname="_fill_align_table_affine"),
    Mutant("local-floor-strict", PW, "            if local == True and score <= 0:\n                continue\n", "            if local == True and score < 0:\n                continue\n",
           "R3.local-floor-linear"),
    Mutant("local-floor-always", PW, "            if local == True and score <= 0:\n                continue\n", "            if score <= 0:\n                continue\n",
           "R3.local-floor-linear"),
    Mutant("affine-score-ignores-g2", PW, "            max_score = max(m_table[i_start,j_start],\n                            g1_table[i_start,j_start],\n                            g2_table[i_start,j_start])",
           "            max_score = max(m_table[i_start,j_start],\n                            g1_table[i_start,j_start])", "R3.reported-score"),
    Mutant("linear-score-wrong-cell", PW, "            max_score = score_table[i_start,j_start]\n", "            max_score = score_table[i_start-1,j_start-1]\n", "R3.reported-score"),
    Mutant("start-state-g1-as-g2", PW, "            if g1_table[i_start,j_start] == max_score:\n                i_list = np.append(i_list, i_start)\n                j_list = np.append(j_list, j_start)\n                state_list = np.append(state_list, 2)",
           "            if g1_table[i_start,j_start] == max_score:\n                i_list = np.append(i_list, i_start)\n                j_list = np.append(j_list, j_start)\n                state_list = np.append(state_list, 3)", "R3.start-states"),
    Mutant("local-start-no-state", PW, "            state_list = np.append(state_list, np.full(len(i_list), 1))", "            state_list = np.append(state_list, np.full(len(i_list), 0))",
           "R3.start-states"),
    # both stores of the gap_top maximum go to the gap_left table (one store alone leaves the state's table ambiguous = anchor loss)
    Mutant("g2-maximum-into-g1-table", PW, "g2_table[i,j] = g2_score\n", "g1_table[i,j] = g2_score\n", "R3.state-tables", count=2),
    # the linear and the affine part of follow_trace must agree, hence both sites
    Mutant("stencil-match-same-column", TT, "                j_match, j_gap_left, j_gap_top = j-1, j-1, j\n", "                j_match, j_gap_left, j_gap_top = j, j-1, j\n", "R3.stencil-values",
           count=2),
    Mutant("lookup-linear-unshifted", PW, "            from_diag = score_table[i-1, j-1] + matrix[code1[i-1], code2[j-1]]\n",
           "            from_diag = score_table[i-1, j-1] + matrix[code1[i-1], code2[j]]\n", "R3.substitution-lookup", qualname="_fill_align_table"),
    Mutant("lookup-affine-transposed", PW, "            similarity_score = matrix[code1[i-1], code2[j-1]]\n", "            similarity_score = matrix[code2[j-1], code1[i-1]]\n",
           "R3.substitution-lookup", qualname="_fill_align_table_affine"),
    Mutant("budget-off-by-one", PW, "            max_trace_count=max_number,\n", "            max_trace_count=max_number+1,\n", "R4.max-number-budget"),
    Mutant("max-number-zero-accepted", PW, "    if max_number < 1:\n", "    if max_number < 0:\n", "R4.max-number-validated"),
]
