"""
C11 - alignments through conversions (narrow).

R1  CIGAR symbol table total and injective on CigarOp, values as in the SAM
    specification, inverse by comprehension.
R2  per-operation pointer advance of read_alignment_from_cigar equals the SAM
    "consumes reference / consumes query" table; every operation the writer
    can emit is handled by the reader; the others reach the raising else; the
    output index advances for every operation.
R3  writer masks: insertion = gap in the reference column, deletion = gap in
    the segment column, both -> error; clip operation chosen from hard_clip;
    clip lengths from the first/last aligned segment position.
R4  the gap character written by _gapped_str is the one trace_from_strings /
    get_alignment read as gap; gap positions are -1 in every producer.
R5  align_multiple permutes sequences and trace columns by the same index.
Trace validity, identity/score helpers and MSA content are NOT decided.
"""

import ast

from ..astutil import call_name, calls, const_eval, dotted, names_in, param_names, stmts, walk_local
from ..exprnorm import contains_expr, same_expr
from ..core import AnalysisError, Mutant
from ..exprnorm import has_code

EXPLANATION = (
    "CIGAR table evaluation against the SAM oracle, def-use of the reference/segment pointers per "
    "operation branch, writer mask definitions, gap-character agreement between alignment.py and "
    "fasta/convert.py, coupled permutation in multiple.pyx (lowered)."
)
ASSUMPTIONS = ["SAM v1 CIGAR operation codes and their consumes-reference / consumes-query table"]
MIN_OBLIGATIONS = 40

CIG = "sequence/align/cigar.py"
ALN = "sequence/align/alignment.py"
FCONV = "sequence/io/fasta/convert.py"
MULT = "sequence/align/multiple.pyx"

SAM_CODES = {"M": 0, "I": 1, "D": 2, "N": 3, "S": 4, "H": 5, "P": 6, "=": 7, "X": 8, "B": 9}
SAM_NAMES = {"M": "MATCH", "I": "INSERTION", "D": "DELETION", "N": "INTRON", "S": "SOFT_CLIP", "H": "HARD_CLIP",
             "P": "PADDING", "=": "EQUAL", "X": "DIFFERENT", "B": "BACK"}
# op -> (consumes reference, consumes query)
CONSUMES = {"MATCH": (True, True), "EQUAL": (True, True), "DIFFERENT": (True, True), "INSERTION": (False, True),
            "DELETION": (True, False), "INTRON": (True, False), "SOFT_CLIP": (False, True), "HARD_CLIP": (False, False)}
WRITER_EMITS = {"MATCH", "INSERTION", "DELETION", "INTRON", "EQUAL", "DIFFERENT", "SOFT_CLIP", "HARD_CLIP"}


def ops_in(e):
    return {d.split(".")[1] for d in (dotted(x) for x in ast.walk(e) if isinstance(x, ast.Attribute)) if d and d.startswith("CigarOp.")}


_AGGREGATE_REFERENCE = '''
def _aggregate_consecutive(operations):
    op_start_indices = np.where(operations[:-1] != operations[1:])[0]
    op_start_indices += 1
    op_start_indices = np.concatenate(([0], op_start_indices))
    ops = operations[op_start_indices]
    length = np.diff(np.append(op_start_indices, len(operations)))
    return np.stack((ops, length), axis=-1)
'''


def run(ctx):
    from ..lints import enum_members_distinct
    enum_members_distinct(ctx, "sequence/align/cigar.py", "R5.enum-members-distinct")
    from .C12 import nucleotide_text_rule
    nucleotide_text_rule(ctx, "R4.nucleotide-text-normalised")
    # FASTA conversion stores every row through FastaFile.__setitem__ and reads the recorded line ranges back
    from .C12 import fasta_append_rules
    fasta_append_rules(ctx, "R4")
    # an alignment written to a FastaFile is read back through the file's index: every change of the lines keeps it up to date
    from .C12 import lines_index_coupling
    lines_index_coupling(ctx, ("FastaFile",), "R4", 3)
    # copies made by align_multiple() / the conversions keep the alphabet (decided by value, not by identity)
    from ..lints import alphabets_compared_by_value
    alphabets_compared_by_value(ctx, "sequence/seqtypes.py", "R6.alphabet-compared-by-value", 1)
    s = ctx.src(CIG)
    cls = s.cls("CigarOp")
    members = {st.targets[0].id: st.value.value for st in cls.body
               if isinstance(st, ast.Assign) and isinstance(st.targets[0], ast.Name) and isinstance(st.value, ast.Constant)}
    table = const_eval(s.module_assign("_str_to_op"))
    # ---------------- R1 ------------------------------------------------------
    for sym, code in SAM_CODES.items():
        name = SAM_NAMES[sym]
        got = table.get(sym)
        ctx.ob("R1.symbol-table", CIG, "<module>._str_to_op", f"{sym!r} -> {got} (= {members.get(name)})",
               got is not None and got.text == f"CigarOp.{name}" and members.get(name) == code,
               f"SAM: '{sym}' is operation {code} ({name})", 1)
    ctx.ob("R1.symbol-table-total", CIG, "<module>._str_to_op", f"{len(table)} symbols / {len(members)} operations",
           {v.text.split(".")[1] for v in table.values()} == set(members) and len(set(v.text for v in table.values())) == len(table),
           "every CigarOp needs exactly one symbol", 1)
    ctx.ob("R1.inverse-table", CIG, "<module>._op_to_str", ast.unparse(s.module_assign("_op_to_str")),
           ast.unparse(s.module_assign("_op_to_str")) == "{v: k for k, v in _str_to_op.items()}",
           "the reverse table must be derived from the forward table", 1, nontrivial=False)
    # ---------------- R2 reader ---------------------------------------------------
    rd = s.func("read_alignment_from_cigar")
    loop = [st for st in stmts(rd) if isinstance(st, ast.For) and "operations" in ast.unparse(st.iter)]
    ctx.need(loop, "operation loop of read_alignment_from_cigar")
    # What the loop body does for each operation is obtained by partial evaluation: the body is composed symbolically with `op`
    # fixed to the operation and the module's literal tables in scope, so that `op in (..)`, `op == ..`, `TABLE[op]` are decided.
    # The result does not depend on how the dispatch is written (if/elif ladder, lookup table, flags).
    from ..exprnorm import summarize_block as _sb
    # (a table is taken for its literal only if it is a constant: bound once in the module, and - for a dict / list / set - read
    # only in ways that cannot change it or hand it on; normalize's own test for mutable literals)
    from ..normalize import _scope_binding_counts, _parents, _read_only_use, _has_mutable, _nested_mutable
    _counts = _scope_binding_counts(s.tree.body)
    _par = _parents(s.tree)
    _globals_decl = {nm_ for x in ast.walk(s.tree) if isinstance(x, ast.Global) for nm_ in x.names}

    def _constant_table(name, value):
        if _counts.get(name) != 1 or name in _globals_decl:
            return False
        if not _has_mutable(value):
            return True
        uses = [x for x in ast.walk(s.tree) if isinstance(x, ast.Name) and x.id == name and isinstance(x.ctx, ast.Load)]
        return not _nested_mutable(value) and all(_read_only_use(x, _par) for x in uses)
    tables = {st.targets[0].id: st.value for st in s.tree.body if isinstance(st, ast.Assign) and len(st.targets) == 1
              and isinstance(st.targets[0], ast.Name) and isinstance(st.value, (ast.Dict, ast.Tuple, ast.List, ast.Set))
              and _constant_table(st.targets[0].id, st.value)}
    op_var = [n_.id for n_ in ast.walk(loop[0].target) if isinstance(n_, ast.Name)][0]
    handled = {}
    has_else_raise = False

    def strip_inplace(e):
        while isinstance(e, ast.Call) and call_name(e) == "__inplace__" and e.args:
            e = e.args[0]
        return e
    for mname in members:
        env0 = dict(tables)
        env0[op_var] = ast.parse(f"CigarOp.{mname}", mode="eval").body
        sm_ = _sb(loop[0].body, env0=env0)
        if sm_.unsupported:
            raise AnalysisError(f"anchor vanished: loop body of read_alignment_from_cigar cannot be composed ({sm_.unsupported})")
        if sm_.always_raises:
            has_else_raise = True
            continue
        adv = {}
        for pv in ("ref_pos", "seg_pos"):
            v = strip_inplace(sm_.env.get(pv)) if pv in sm_.env else None
            adv[pv] = True if v is not None and same_expr(v, f"{pv} + length") else False if v is None or same_expr(v, pv) else "?"
        cols = {}
        t_ = sm_.env.get("trace")
        while isinstance(t_, ast.Call) and call_name(t_) == "__set__":
            base, idx, val = t_.args
            sl = idx.slice if isinstance(idx, ast.Subscript) else None
            if isinstance(sl, ast.Tuple) and len(sl.elts) == 2 and isinstance(sl.elts[1], ast.Constant):
                col, row = sl.elts[1].value, sl.elts[0]
                rows_ok = isinstance(row, ast.Slice) and same_expr(row.lower, "i") and same_expr(row.upper, "i + length") and row.step is None
                kind = "gap" if same_expr(val, "-1") else "ref" if same_expr(val, "np.arange(ref_pos, ref_pos + length)") \
                    else "seg" if same_expr(val, "np.arange(seg_pos, seg_pos + length)") else "?" + ast.unparse(val)[:40]
                cols.setdefault(col, kind if rows_ok else "?rows " + ast.unparse(row))
            else:
                cols["?"] = ast.unparse(idx)[:40]
            t_ = base
        cm = sm_.env.get("clip_mask")
        clip = cm is not None and same_expr(cm, "__set__(clip_mask, __idx__[i:i + length], False)")
        handled[mname] = (adv["ref_pos"], adv["seg_pos"], cols, clip)
    for op in sorted(WRITER_EMITS):
        ctx.ob("R2.op-handled", CIG, "read_alignment_from_cigar", f"{op}", op in handled,
               f"the writer can emit {op} but the reader has no branch for it", rd.lineno)
        if op not in handled:
            continue
        adv_ref, adv_seg, cols, clip = handled[op]
        want = CONSUMES[op]
        ctx.ob("R2.consumes", CIG, "read_alignment_from_cigar", f"{op}: ref {'+' if adv_ref else '0'}, seg {'+' if adv_seg else '0'}",
               (adv_ref, adv_seg) == want,
               f"SAM: {op} consumes reference={want[0]}, query={want[1]}; the reader advances ref_pos={adv_ref}, seg_pos={adv_seg}: "
               "all following positions are shifted", rd.lineno)
        if op in ("SOFT_CLIP", "HARD_CLIP"):
            ctx.ob("R2.trace-columns", CIG, "read_alignment_from_cigar", f"{op}: rows masked out", clip and not cols,
                   "clipped bases must not appear in the trace", rd.lineno)
        else:
            wc = {0: "ref" if want[0] else "gap", 1: "seg" if want[1] else "gap"}
            ctx.ob("R2.trace-columns", CIG, "read_alignment_from_cigar", f"{op}: columns {cols}", cols == wc,
                   f"{op} must write {wc} into the (reference, segment) columns", rd.lineno)
    for op in sorted(set(members) - WRITER_EMITS):
        ctx.ob("R2.unsupported-rejected", CIG, "read_alignment_from_cigar", f"{op} -> ValueError", op not in handled and has_else_raise,
               f"{op} is not supported and must be rejected, not silently skipped", rd.lineno, nontrivial=False)
    i_writes = [b for b in ast.walk(loop[0]) if isinstance(b, (ast.AugAssign, ast.Assign)) and any(
        isinstance(t, ast.Name) and t.id == "i" for t in ([b.target] if isinstance(b, ast.AugAssign) else b.targets))]
    ctx.ob("R2.output-index-advances", CIG, "read_alignment_from_cigar", "i += length after every operation",
           len(i_writes) == 1 and i_writes[0] in loop[0].body and isinstance(i_writes[0], ast.AugAssign)
           and isinstance(i_writes[0].op, ast.Add) and same_expr(i_writes[0].value, "length"),
           "the row index must advance by the operation length for every operation (clips included, they are masked)", rd.lineno)
    rt = ast.unparse(rd)
    pre = {st.targets[0].id: st.value for st in rd.body if isinstance(st, ast.Assign) and isinstance(st.targets[0], ast.Name)}
    ctx.ob("R2.start-position", CIG, "read_alignment_from_cigar", "ref_pos = position; seg_pos = 0; i = 0",
           same_expr(pre.get("ref_pos"), "position") and same_expr(pre.get("seg_pos"), "0") and same_expr(pre.get("i"), "0")
           and has_code(rd, "trace = trace[clip_mask]"),
           "the reference pointer starts at the given position, the segment pointer at 0", rd.lineno)
    # ---------------- R3 writer ------------------------------------------------------
    wr = s.func("write_alignment_to_cigar")
    wt = ast.unparse(wr)
    ctx.ob("R3.masks", CIG, "write_alignment_to_cigar", "insertion: ref == -1, deletion: seg == -1",
           has_code(wr, "insertion_mask = ref_trace == -1") and has_code(wr, "deletion_mask = seg_trace == -1")
           and has_code(wr, "operations[insertion_mask] = CigarOp.INSERTION") and has_code(wr, "operations[deletion_mask] = CigarOp.DELETION")
           and has_code(wr, "ref_trace = alignment.trace[:, reference_index]") and has_code(wr, "seg_trace = alignment.trace[:, segment_index]"),
           "an insertion is a gap in the reference, a deletion a gap in the segment", wr.lineno)
    from ..exprnorm import local_value as _lv
    rc_, sc_ = _lv(wr, "ref_codes"), _lv(wr, "seg_codes")
    from ..exprnorm import subst as _subst
    # local_value composes the rows from the function's inputs: `alignment` is the one the trace columns are taken from (terminal
    # gaps removed unless include_terminal_gaps)
    ali = "(_remove_terminal_segment_gaps(alignment, segment_index) if not include_terminal_gaps else alignment)"
    ctx.ob("R3.match-rows-by-index", CIG, "write_alignment_to_cigar", "ref_codes / seg_codes = get_codes(alignment)[reference_index / segment_index]",
           rc_ is not None and sc_ is not None and same_expr(rc_, f"get_codes({ali})[reference_index, :]") and same_expr(sc_, f"get_codes({ali})[segment_index, :]"),
           "'=' and 'X' are decided by comparing the rows given by reference_index and segment_index (not the first two rows); the code uses "
           + (ast.unparse(rc_)[:60] if rc_ is not None else "?") + " / " + (ast.unparse(sc_)[:60] if sc_ is not None else "?"), wr.lineno)
    ctx.ob("R3.masks", CIG, "write_alignment_to_cigar", "insertion & deletion -> ValueError",
           has_code(wr, "np.any(insertion_mask & deletion_mask)"), "a column of gaps only cannot be expressed", wr.lineno, nontrivial=False)
    # the clip operations belong to the operation list itself: they are joined on unconditionally, in front of the decision between
    # the string and the tuple form (both outputs describe the same alignment)
    top = [k for k, st in enumerate(wr.body) if isinstance(st, ast.Assign) and has_code(st, "op_tuples = np.concatenate((start_clip, op_tuples, end_clip))")]
    form = [k for k, st in enumerate(wr.body) if isinstance(st, ast.If) and any(isinstance(x, ast.Name) and x.id == "as_string" for x in ast.walk(st.test))]
    ctx.ob("R3.clips-in-both-forms", CIG, "write_alignment_to_cigar", "op_tuples = concatenate((start_clip, op_tuples, end_clip)) before `if as_string`",
           len(top) == 1 and bool(form) and top[0] < form[0],
           "the clipped bases must be part of the operations whether they are returned as a CIGAR string or as (operation, length) tuples",
           wr.lineno)
    ctx.ob("R3.clip-choice", CIG, "write_alignment_to_cigar", "clip_op = HARD_CLIP if hard_clip else SOFT_CLIP",
           has_code(wr, "clip_op = CigarOp.HARD_CLIP if hard_clip else CigarOp.SOFT_CLIP"), "the clip operation follows the hard_clip option", wr.lineno)
    ctx.ob("R3.match-refinement", CIG, "write_alignment_to_cigar", "EQUAL/DIFFERENT only on MATCH columns",
           (has_code(wr, "operations[equal_mask & match_mask] = CigarOp.EQUAL") and has_code(wr, "operations[~equal_mask & match_mask] = CigarOp.DIFFERENT")
            # (the same two stores as one: only the M columns are assigned, each from its own comparison)
            or (sum(1 for st_ in ast.walk(wr) if isinstance(st_, ast.Assign) and len(st_.targets) == 1 and same_expr(st_.targets[0], "operations[match_mask]")
                    and same_expr(st_.value, "np.where(equal_mask[match_mask], CigarOp.EQUAL, CigarOp.DIFFERENT)")) == 1
                and not any(isinstance(st_, (ast.Assign, ast.AugAssign)) and "CigarOp.DIFFERENT" in ast.unparse(st_) and not same_expr(
                    (st_.targets[0] if isinstance(st_, ast.Assign) else st_.target), "operations[match_mask]") for st_ in ast.walk(wr))))
           and has_code(wr, "match_mask = operations == CigarOp.MATCH"), "'='/'X' refine M columns only", wr.lineno)
    ctx.ob("R3.intron", CIG, "write_alignment_to_cigar", "introns only inside deletions, by reference position",
           has_code(wr, "intron_mask[(ref_trace >= start) & (ref_trace < stop)] = True") and has_code(wr, "np.any(intron_mask & ~deletion_mask)"),
           "introns are half-open reference intervals and must lie within deletions", wr.lineno)
    fc = s.func("_find_clipped_bases")
    ft = ast.unparse(fc)
    ctx.ob("R3.clip-lengths", CIG, "_find_clipped_bases", "start = seg_trace[0]; end = len(segment) - seg_trace[-1] - 1",
           has_code(fc, "start_clip_length = seg_trace[0]") and has_code(fc, "end_clip_length = len(alignment.sequences[segment_index]) - seg_trace[-1] - 1")
           and has_code(fc, "_remove_terminal_segment_gaps(alignment, segment_index)"),
           "clipped bases are the segment positions before the first and after the last aligned one", fc.lineno)
    ag = s.func("_aggregate_consecutive")
    at = ast.unparse(ag)
    # the whole function against the computation it has to be (equiv.same_function: result as an expression in `operations`, in-place
    # effects included) - the order of its statements matters: the `+ 1` belongs in front of the leading 0
    from ..equiv import same_function
    ok_ag, shown_ag = same_function(ag, _AGGREGATE_REFERENCE)
    ctx.ob("R3.run-lengths", CIG, "_aggregate_consecutive", "runs start where operations[:-1] != operations[1:]",
           ok_ag and has_code(ag, "np.where(operations[:-1] != operations[1:])[0]") and has_code(ag, "op_start_indices += 1")
           and has_code(ag, "np.diff(np.append(op_start_indices, len(operations)))"),
           "run lengths must sum to the number of columns (the function computes " + shown_ag + ")", ag.lineno)
    # writer: each item is <count> immediately followed by <symbol> (concatenation or f-string, any loop form)
    f = s.func("_cigar_from_op_tuples")
    okw = False
    conw = "count + symbol"
    for n_ in ast.walk(f):
        parts = None
        if isinstance(n_, ast.BinOp) and isinstance(n_.op, ast.Add):
            parts = [n_.left, n_.right]
        elif isinstance(n_, ast.JoinedStr):
            parts = [v.value if isinstance(v, ast.FormattedValue) else v for v in n_.values]
        if parts and len(parts) == 2:
            a_, b_ = parts
            is_count = (isinstance(a_, ast.Call) and call_name(a_) == "str" and same_expr(a_.args[0], "count")) or same_expr(a_, "count")
            is_sym = same_expr(b_, "CigarOp(op).to_cigar_symbol()")
            if is_count and is_sym:
                okw = True
                conw = ast.unparse(n_)
    ctx.ob("R3.string-form", CIG, "_cigar_from_op_tuples", conw, okw, "a CIGAR string is a sequence of <count><symbol>", f.lineno, nontrivial=False)
    f = s.func("_op_tuples_from_cigar")
    ctx.ob("R3.string-form", CIG, "_op_tuples_from_cigar", "CigarOp.from_cigar_symbol(char)",
           contains_expr(f, "CigarOp.from_cigar_symbol(char)") and contains_expr(f, "char.isdigit()"),
           "a CIGAR string is a sequence of <count><symbol>", f.lineno, nontrivial=False)
    # ---------------- R4 gap character --------------------------------------------------
    al = ctx.src(ALN)
    gs = al.func("Alignment._gapped_str")
    ts = al.func("Alignment.trace_from_strings")
    gchar_w = [c.value for c in ast.walk(gs) if isinstance(c, ast.Constant) and isinstance(c.value, str) and len(c.value) == 1]
    gchar_r = [c.value for c in ast.walk(ts) if isinstance(c, ast.Constant) and isinstance(c.value, str) and len(c.value) == 1]
    fcv = ctx.src(FCONV)
    ga = fcv.func("get_alignment")
    gat = ast.unparse(ga)
    # get_alignment: additional gap characters are mapped onto the gap character; it is removed before the sequences are built
    # (old, new) of every text replacement: `s.replace(old, new)` or the same call built with operator.methodcaller("replace", old, new)
    repl = [tuple(c.args) for c in ast.walk(ga) if isinstance(c, ast.Call) and isinstance(c.func, ast.Attribute) and c.func.attr == "replace" and len(c.args) == 2]
    repl += [tuple(c.args[1:]) for c in ast.walk(ga) if isinstance(c, ast.Call) and (call_name(c) or "").split(".")[-1] == "methodcaller"
             and len(c.args) == 3 and isinstance(c.args[0], ast.Constant) and c.args[0].value == "replace"]
    maps_to_gap = any(isinstance(a0, ast.Name) and isinstance(a1, ast.Constant) and a1.value == "-" for a0, a1 in repl)
    strips_gap = any(isinstance(a0, ast.Constant) and a0.value == "-" and isinstance(a1, ast.Constant) and a1.value == "" for a0, a1 in repl)
    ctx.ob("R4.gap-character", ALN, "Alignment._gapped_str", f"written {gchar_w} / parsed {gchar_r}",
           gchar_w == gchar_r == ["-"] and maps_to_gap and strips_gap,
           "the gap character written into gapped strings must be the one the parsers treat as gap", gs.lineno)
    # trace_from_strings: gap -> -1 (stored explicitly or left from the -1 initialisation), symbol -> running index of its sequence
    init_minus1 = any(isinstance(c, ast.Call) and call_name(c) == "np.full" and len(c.args) >= 2 and same_expr(c.args[1], "-1") for c in ast.walk(ts))
    gap_store = any(isinstance(st, ast.Assign) and isinstance(st.targets[0], ast.Subscript) and ast.unparse(st.targets[0].value) == "trace"
                    and same_expr(st.value, "-1") for st in ast.walk(ts))
    counted = False
    for st in ast.walk(ts):
        if isinstance(st, ast.Assign) and isinstance(st.targets[0], ast.Subscript) and ast.unparse(st.targets[0].value) == "trace" \
                and isinstance(st.value, ast.Subscript) and isinstance(st.value.value, ast.Name) and isinstance(st.targets[0].slice, ast.Tuple):
            cnt, seqvar = st.value.value.id, ast.unparse(st.targets[0].slice.elts[1])
            if ast.unparse(st.value.slice) != seqvar:
                continue
            counted = any(isinstance(a, ast.AugAssign) and isinstance(a.op, ast.Add) and same_expr(a.value, "1")
                          and ast.unparse(a.target) == f"{cnt}[{seqvar}]" for a in ast.walk(ts))
        # the same with a scalar counter that is reset for every sequence (loop over the sequences outside, positions inside)
        if isinstance(st, ast.Assign) and isinstance(st.targets[0], ast.Subscript) and ast.unparse(st.targets[0].value) == "trace" \
                and isinstance(st.value, ast.Name) and isinstance(st.targets[0].slice, ast.Tuple) and isinstance(st.targets[0].slice.elts[1], ast.Name):
            cnt, seqvar = st.value.id, st.targets[0].slice.elts[1].id
            seq_loops = [lp for lp in ast.walk(ts) if isinstance(lp, ast.For) and isinstance(lp.target, ast.Name) and lp.target.id == seqvar
                         and any(x is st for x in ast.walk(lp))]
            for lp in seq_loops:
                reset = any(isinstance(b, ast.Assign) and same_expr(b.targets[0], cnt) and same_expr(b.value, "0") for b in lp.body)
                bumped = [a for a in ast.walk(lp) if isinstance(a, ast.AugAssign) and isinstance(a.op, ast.Add) and same_expr(a.value, "1") and same_expr(a.target, cnt)]
                # the increment sits in the same block as the store (one increment per stored symbol)
                same_block = any(st in blk and a in blk for a in bumped for node_ in ast.walk(lp) for blk in
                                 (getattr(node_, "body", None), getattr(node_, "orelse", None)) if isinstance(blk, list))
                counted = counted or (reset and len(bumped) == 1 and same_block)
    # _gapped_str: position -1 is the gap, everything else a symbol
    wtest = [n_ for n_ in ast.walk(gs) if isinstance(n_, ast.Compare) and len(n_.ops) == 1 and same_expr(n_.comparators[0], "-1")]
    wok = bool(wtest) and all(isinstance(n_.ops[0], (ast.NotEq, ast.Eq)) for n_ in wtest)
    ctx.ob("R4.gap-is-minus-one", ALN, "Alignment.trace_from_strings", "gap -> -1, symbol -> running index",
           (init_minus1 or gap_store) and counted and wok,
           "gaps are -1 in the trace, symbols count up per sequence", ts.lineno)
    sa = fcv.func("set_alignment")
    # row i is stored under name i: the value stored under seq_names[k] is element k of the gapped strings
    okn = False
    for st in ast.walk(sa):
        if isinstance(st, ast.Assign) and isinstance(st.targets[0], ast.Subscript) and ast.unparse(st.targets[0].value) == "fasta_file" \
                and isinstance(st.targets[0].slice, ast.Subscript) and ast.unparse(st.targets[0].slice.value) == "seq_names":
            k = ast.unparse(st.targets[0].slice.slice)
            if same_expr(st.value, f"gapped_seq_strings[{k}]"):
                okn = True
            elif isinstance(st.value, ast.Name):
                # for k, v in enumerate(gapped_seq_strings)
                for lp in ast.walk(sa):
                    if isinstance(lp, ast.For) and isinstance(lp.target, ast.Tuple) and len(lp.target.elts) == 2 \
                            and ast.unparse(lp.target.elts[0]) == k and ast.unparse(lp.target.elts[1]) == st.value.id \
                            and same_expr(lp.iter, "enumerate(gapped_seq_strings)"):
                        okn = True
    ctx.ob("R4.fasta-names", FCONV, "set_alignment", "fasta_file[seq_names[i]] = gapped_seq_strings[i]",
           okn and contains_expr(sa, "alignment.get_gapped_sequences()"),
           "row i is written under name i", sa.lineno, nontrivial=False)
    gc = al.func("get_codes")
    ctx.ob("R4.codes-gap", ALN, "get_codes", "np.where(trace[:, i] != -1, code[trace[:, i]], -1)",
           has_code(gc, "np.where(trace[:, i] != -1, sequences[i].code[trace[:, i]], np.int64(-1))"),
           "the code matrix carries -1 exactly at gap positions", gc.lineno)
    ft_ = al.func("find_terminal_gaps")
    ctx.ob("R4.terminal-gaps", ALN, "find_terminal_gaps", "(max of first non-gap, min of last non-gap + 1)",
           has_code(ft_, "np.max(firsts).item(), np.min(lasts).item() + 1") and has_code(ft_, "trace[:, i] != -1"),
           "the non-terminal region runs from the latest first symbol to the earliest last symbol (exclusive stop)", ft_.lineno)
    # ---------------- R6 helpers: parameters honoured, per-sequence state, all-rows match ----
    n_par = 0
    for rel in (CIG, ALN, FCONV):
        src = ctx.src(rel)
        for q, f in src.funcs.items():
            used = {n.id for n in ast.walk(f) if isinstance(n, ast.Name) and isinstance(n.ctx, ast.Load)}
            for prm in param_names(f):
                if prm in ("self", "cls"):
                    continue
                n_par += 1
                ctx.ob("R6.parameter-read", rel, q, f"parameter {prm}", prm in used,
                       f"parameter `{prm}` of {q} is never read: the function ignores what the caller selects with it "
                       "(e.g. trims by all sequences instead of the given one)", f.lineno, nontrivial=False)
    ctx.floor("parameters", n_par, 60)
    sc = al.func("score")
    loops = [st for st in stmts(sc) if isinstance(st, ast.For) and ast.unparse(st.iter) == "codes"]
    ctx.need(loops, "per-sequence loop of score()")
    resets = [b for b in loops[0].body if isinstance(b, ast.Assign) and ast.unparse(b) == "in_gap = False"]
    ctx.ob("R6.gap-state-per-sequence", ALN, "score", "in_gap = False at the start of every sequence", bool(resets),
           "the open/extend state of the gap penalty must be reset for every sequence: otherwise a sequence that ends in a "
           "gap makes the first gap of the next sequence an extension (score differs from the column-wise definition)",
           loops[0].lineno)
    # substitution term: the pair (i, j) with i < j is scored as matrix[symbol of row i, symbol of row j] - the matrix is
    # indexed (first alphabet, second alphabet) and need not be symmetric
    from ..exprnorm import summarize_block, subst as _subst
    pair = [(lo, li) for lo in ast.walk(sc) if isinstance(lo, ast.For) and isinstance(lo.target, ast.Name)
            for li in lo.body if isinstance(li, ast.For) and isinstance(li.target, ast.Name) and isinstance(li.iter, ast.Call)
            and call_name(li.iter) == "range" and len(li.iter.args) == 2 and same_expr(li.iter.args[0], f"{lo.target.id} + 1")]
    ctx.need(len(pair) == 1, "loop over the row pairs i < j of score()")
    lo, li = pair[0]
    benv = summarize_block([b for b in li.body if isinstance(b, ast.Assign)]).env
    lookups = [n for n in ast.walk(li) if isinstance(n, ast.Subscript) and isinstance(n.value, ast.Name) and n.value.id == "matrix"]
    ctx.need(len(lookups) == 1, "substitution matrix lookup of score()")
    lk = _subst(lookups[0], benv)
    ctx.ob("R6.substitution-orientation", ALN, "score", ast.unparse(lk), same_expr(lk, f"matrix[column[{lo.target.id}], column[{li.target.id}]]"),
           "the score of rows i < j is matrix[code of row i, code of row j]: with a directed (non-symmetric) matrix or two "
           "alphabets the transposed lookup gives another score or an IndexError", lookups[0].lineno)
    # get_symbols: every row is decoded with the alphabet of ITS sequence
    gsy = al.func("get_symbols")
    row_loops = [lp for lp in ast.walk(gsy) if isinstance(lp, ast.For) and isinstance(lp.target, ast.Name)
                 and any(isinstance(c, ast.Call) and isinstance(c.func, ast.Attribute) and c.func.attr == "decode_multiple" for c in ast.walk(lp))]
    ctx.need(len(row_loops) == 1, "row loop of get_symbols()")
    rl = row_loops[0]
    renv = summarize_block([b for b in rl.body if isinstance(b, ast.Assign) and isinstance(b.targets[0], ast.Name)]).env
    dec = next(c for c in ast.walk(rl) if isinstance(c, ast.Call) and isinstance(c.func, ast.Attribute) and c.func.attr == "decode_multiple")
    recv = _subst(dec.func.value, renv)
    pre = summarize_block([b for b in gsy.body if isinstance(b, ast.Assign) and isinstance(b.targets[0], ast.Name)]).env
    recv = _subst(recv, {k: v for k, v in pre.items() if k not in renv})
    ctx.ob("R6.row-decoded-with-own-alphabet", ALN, "get_symbols", ast.unparse(recv)[:70],
           same_expr(recv, f"alignment.sequences[{rl.target.id}].get_alphabet()") or same_expr(recv, f"alignment.sequences[{rl.target.id}].alphabet"),
           "row i of the symbol matrix must be decoded with the alphabet of sequence i (the sequences of an alignment may have "
           "different alphabets)", dec.lineno)
    from ..lints import loop_updates_kept
    for rel_ in (FCONV, ALN, CIG):
        loop_updates_kept(ctx, rel_, "R6.loop-updates-kept")
    gi = al.func("get_sequence_identity")
    git = ast.unparse(gi)
    uses_any = any(isinstance(c, ast.Call) and isinstance(c.func, ast.Attribute) and c.func.attr == "any" and "codes" in ast.unparse(c.func.value)
                   for c in ast.walk(gi))
    all_rows = (has_code(gi, "len(unique_symbols) == 1 and unique_symbols[0] != -1")) or (".all(axis=0)" in git and "!= -1" in git)
    ctx.ob("R6.identity-all-rows", ALN, "get_sequence_identity", "a column matches iff all rows carry the same non-gap symbol",
           all_rows and not uses_any,
           "a column counts as identical only if *all* sequences carry the same symbol and it is not a gap", gi.lineno)
    gp = al.func("get_pairwise_sequence_identity")
    ctx.ob("R6.identity-all-rows", ALN, "get_pairwise_sequence_identity", "equal & both not gap",
           has_code(gp, "(codes[:, np.newaxis, :] == codes[np.newaxis, :, :]) & (codes[:, np.newaxis, :] != -1) & (codes[np.newaxis, :, :] != -1)"),
           "pairwise identity counts positions where both symbols are equal and neither is a gap", gp.lineno)

    # ---------------- R6 subclasses of Alignment keep sequences and trace together ---------
    # an indexed alignment is (sequences, trace, score) of ONE indexing operation: a subclass that re-wraps the result of
    # Alignment.__getitem__ must take all three from it (rows selected by the index belong to the selected sequences)
    BLA = "application/blast/alignment.py"
    bl = ctx.src(BLA)
    bgi = bl.func("BlastAlignment.__getitem__")
    sup_names = [st.targets[0].id for st in stmts(bgi) if isinstance(st, ast.Assign) and isinstance(st.targets[0], ast.Name)
                 and isinstance(st.value, ast.Call) and "super().__getitem__" in ast.unparse(st.value.func)]
    ctor = [c for c in calls(bgi) if call_name(c) == "BlastAlignment"]
    ctx.need(len(sup_names) == 1 and len(ctor) == 1, "BlastAlignment.__getitem__ re-wraps super().__getitem__(index)")
    sn = sup_names[0]
    got = [ast.unparse(a) for a in ctor[0].args[:3]]
    ctx.ob("R6.subclass-index-keeps-rows-together", BLA, "BlastAlignment.__getitem__", f"BlastAlignment({', '.join(got)}, ...)",
           got == [f"{sn}.sequences", f"{sn}.trace", f"{sn}.score"],
           "sequences, trace and score of the indexed alignment must all come from the one indexing operation: with the unindexed "
           "sequences a row-selecting index returns a trace whose columns belong to other sequences", bgi.lineno)

    # ---------------- R5 MSA reorder -------------------------------------------------------
    m = ctx.src(MULT)
    am = m.func("align_multiple")
    mt = ast.unparse(am)
    ctx.ob("R5.same-permutation", MULT, "align_multiple", "aligned_seqs and trace columns reordered by np.argsort(order)",
           has_code(am, "new_order = np.argsort(order)") and has_code(am, "aligned_seqs = [aligned_seqs[pos] for pos in new_order]")
           and has_code(am, "trace = trace[:, new_order]"),
           "rows and trace columns must be brought back to input order by the same permutation", am.lineno)
    ctx.ob("R5.gap-symbol", MULT, "align_multiple", "gap symbol code -> -1, then stripped from the codes",
           "if seq_code[i] == gap_symbol_code:" in mt and has_code(am, "trace[i, j] = -1") and has_code(am, "code[code != gap_symbol_code]")
           and has_code(am, "gap_symbol_code = new_alphabet.encode(gap_symbol)"),
           "the neutral gap symbol must become -1 in the trace and vanish from the sequences", am.lineno)
    ctx.ob("R5.returns", MULT, "align_multiple", "(Alignment, order, guide_tree, distances)",
           has_code(am, "return (Alignment(aligned_seqs, trace), order, guide_tree, distances)"), "", am.lineno, nontrivial=False)


MUTANTS = [
    Mutant("match-rows-first-two", CIG, "        ref_codes = symbol_codes[reference_index, :]\n        seg_codes = symbol_codes[segment_index, :]\n", "        ref_codes = symbol_codes[0, :]\n        seg_codes = symbol_codes[1, :]\n", "R3.match-rows-by-index"),
    Mutant("copy-alphabet-by-identity", "sequence/seqtypes.py", "        if self._alphabet == NucleotideSequence.alphabet_amb:\n", "        if self._alphabet is NucleotideSequence.alphabet_amb:\n", "R6.alphabet-compared-by-value", count=2),
    Mutant("score-matrix-transposed", ALN, "                    score += matrix[code_i, code_j]\n", "                    score += matrix[code_j, code_i]\n", "R6.substitution-orientation"),
    Mutant("symbols-first-alphabet", ALN, "        alphabet = alignment.sequences[i].get_alphabet()\n", "        alphabet = alignment.sequences[0].get_alphabet()\n", "R6.row-decoded-with-own-alphabet"),
    Mutant("gap-chars-loops-interchanged", FCONV, "    for char in additional_gap_chars:\n        for i, seq_str in enumerate(seq_strings):\n",
           "    for i, seq_str in enumerate(seq_strings):\n        for char in additional_gap_chars:\n", "R6.loop-updates-kept", "get_alignment"),
    Mutant("n-as-deletion", CIG, '    "N": CigarOp.INTRON,', '    "N": CigarOp.DELETION,', "R1.symbol-table"),
    Mutant("softclip-no-advance", CIG, "            clip_mask[i : i + length] = False\n            seg_pos += length\n", "            clip_mask[i : i + length] = False\n", "R2.consumes"),
    Mutant("insertion-advances-ref", CIG, "            trace[i : i + length, 0] = -1\n            trace[i : i + length, 1] = np.arange(seg_pos, seg_pos + length)\n            seg_pos += length",
           "            trace[i : i + length, 0] = -1\n            trace[i : i + length, 1] = np.arange(seg_pos, seg_pos + length)\n            seg_pos += length\n            ref_pos += length", "R2.consumes"),
    Mutant("masks-swapped", CIG, "    insertion_mask = ref_trace == -1\n    deletion_mask = seg_trace == -1", "    insertion_mask = seg_trace == -1\n    deletion_mask = ref_trace == -1", "R3.masks"),
    Mutant("clip-length", CIG, "end_clip_length = len(alignment.sequences[segment_index]) - seg_trace[-1] - 1", "end_clip_length = len(alignment.sequences[segment_index]) - seg_trace[-1]", "R3.clip-lengths"),
    Mutant("gap-char", ALN, '                seq_str += "-"', '                seq_str += "."', "R4.gap-character"),
    Mutant("msa-trace-not-permuted", MULT, "    trace = trace[:, new_order]\n", "", "R5.same-permutation"),
    Mutant("terminal-gaps-all-sequences", CIG, "    no_gap_pos = np.where(alignment.trace[:, segment_index] != -1)[0]\n    return alignment[no_gap_pos[0] : no_gap_pos[-1] + 1]",
           "    no_gap_pos = np.where((alignment.trace != -1).all(axis=1))[0]\n    return alignment[no_gap_pos[0] : no_gap_pos[-1] + 1]", "R6.parameter-read"),
    Mutant("identity-any", ALN, "        if len(unique_symbols) == 1 and unique_symbols[0] != -1:", "        if len(unique_symbols) <= 2 and unique_symbols[0] != -1:", "R6.identity-all-rows"),
    Mutant("intron-dropped-from-reader", CIG, "        elif op in (CigarOp.DELETION, CigarOp.INTRON):", "        elif op in (CigarOp.DELETION,):", "R2.op-handled"),
    # ---- one seeded fault per rule that had none -------------------------------------------
    Mutant("inverse-table-not-inverted", CIG, "_op_to_str = {v: k for k, v in _str_to_op.items()}", "_op_to_str = {k: v for k, v in _str_to_op.items()}", "R1.inverse-table"),
    Mutant("symbol-b-dropped", CIG, '    "X": CigarOp.DIFFERENT,\n    "B": CigarOp.BACK,\n}', '    "X": CigarOp.DIFFERENT,\n}', "R1.symbol-table-total"),
    Mutant("op-without-symbol", CIG, "    BACK = 9\n", "    BACK = 9\n    SKIP = 10\n", "R1.symbol-table-total"),
    Mutant("ref-start-off-by-one", CIG, "    ref_pos = position\n", "    ref_pos = position + 1\n", "R2.start-position"),
    Mutant("segment-positions-shifted", CIG, "            trace[i : i + length, 0] = -1\n            trace[i : i + length, 1] = np.arange(seg_pos, seg_pos + length)\n", "            trace[i : i + length, 0] = -1\n            trace[i : i + length, 1] = np.arange(seg_pos + 1, seg_pos + length + 1)\n", "R2.trace-columns"),
    Mutant("row-index-advanced-twice", CIG, "            clip_mask[i : i + length] = False\n            seg_pos += length\n", "            clip_mask[i : i + length] = False\n            seg_pos += length\n            i += length\n", "R2.output-index-advances"),
    Mutant("refactor-gap-store-implicit", ALN, "                    trace[pos_i, str_j] = -1\n", "                    pass\n", "R4.gap-is-minus-one", kind="silent"),
    Mutant("row-index-by-one", CIG, "        i += length\n", "        i += 1\n", "R2.output-index-advances"),
    Mutant("ref-start-zero", CIG, "    ref_pos = position\n", "    ref_pos = 0\n", "R2.start-position"),
    Mutant("clip-mask-not-applied", CIG, "    # Remove clipped positions\n    trace = trace[clip_mask]\n", "", "R2.start-position"),
    Mutant("deletion-columns-swapped", CIG, "            trace[i : i + length, 0] = np.arange(ref_pos, ref_pos + length)\n            trace[i : i + length, 1] = -1\n",
           "            trace[i : i + length, 1] = np.arange(ref_pos, ref_pos + length)\n            trace[i : i + length, 0] = -1\n", "R2.trace-columns"),
    Mutant("hard-clip-not-masked", CIG, "        elif op == CigarOp.HARD_CLIP:\n            clip_mask[i : i + length] = False\n", "        elif op == CigarOp.HARD_CLIP:\n            pass\n", "R2.trace-columns"),
    Mutant("unknown-op-skipped", CIG, '        else:\n            raise ValueError(f"CIGAR operation {op} is not implemented")\n', "", "R2.unsupported-rejected"),
    Mutant("padding-as-hard-clip", CIG, "        elif op == CigarOp.HARD_CLIP:\n", "        elif op in (CigarOp.HARD_CLIP, CigarOp.PADDING):\n", "R2.unsupported-rejected"),
    Mutant("clip-choice-inverted", CIG, "    clip_op = CigarOp.HARD_CLIP if hard_clip else CigarOp.SOFT_CLIP\n", "    clip_op = CigarOp.SOFT_CLIP if hard_clip else CigarOp.HARD_CLIP\n", "R3.clip-choice"),
    Mutant("intron-stop-inclusive", CIG, "(ref_trace >= start) & (ref_trace < stop)", "(ref_trace >= start) & (ref_trace <= stop)", "R3.intron"),
    Mutant("intron-outside-deletion-accepted", CIG, '        if np.any(intron_mask & ~deletion_mask):\n            raise ValueError("Introns must be within gaps in the reference sequence")\n', "", "R3.intron"),
    Mutant("different-on-gap-columns", CIG, "        operations[~equal_mask & match_mask] = CigarOp.DIFFERENT\n", "        operations[~equal_mask] = CigarOp.DIFFERENT\n", "R3.match-refinement"),
    Mutant("run-start-not-shifted", CIG, "    # Also include the first operation\n    op_start_indices += 1\n", "    # Also include the first operation\n", "R3.run-lengths"),
    Mutant("cigar-symbol-before-count", CIG, "        cigar += str(count) + CigarOp(op).to_cigar_symbol()\n", "        cigar += CigarOp(op).to_cigar_symbol() + str(count)\n", "R3.string-form", qualname="_cigar_from_op_tuples"),
    Mutant("cigar-symbol-as-code", CIG, "            op = CigarOp.from_cigar_symbol(char)\n", "            op = CigarOp[char]\n", "R3.string-form", qualname="_op_tuples_from_cigar"),
    Mutant("codes-gap-zero", ALN, "sequences[i].code[trace[:, i]], np.int64(-1)\n", "sequences[i].code[trace[:, i]], np.int64(0)\n", "R4.codes-gap"),
    Mutant("fasta-row-off-by-one", FCONV, "        fasta_file[seq_names[i]] = gapped_seq_strings[i]\n", "        fasta_file[seq_names[i]] = gapped_seq_strings[i - 1]\n", "R4.fasta-names"),
    Mutant("running-index-not-advanced", ALN, "                    trace[pos_i, str_j] = seq_i[str_j]\n                    seq_i[str_j] += 1\n", "                    trace[pos_i, str_j] = seq_i[str_j]\n", "R4.gap-is-minus-one"),
    Mutant("position-zero-written-as-gap", ALN, "            if j != -1:\n                seq_str += str(self.sequences[seq_index][j])", "            if j > 0:\n                seq_str += str(self.sequences[seq_index][j])", "R4.gap-is-minus-one"),
    Mutant("terminal-stop-inclusive", ALN, "    return np.max(firsts).item(), np.min(lasts).item() + 1\n", "    return np.max(firsts).item(), np.min(lasts).item()\n", "R4.terminal-gaps"),
    Mutant("terminal-start-earliest", ALN, "    return np.max(firsts).item(), np.min(lasts).item() + 1\n", "    return np.min(firsts).item(), np.min(lasts).item() + 1\n", "R4.terminal-gaps"),
    Mutant("msa-gap-code-kept", MULT, "        code[code != gap_symbol_code] for code in aligned_seq_codes\n", "        code for code in aligned_seq_codes\n", "R5.gap-symbol"),
    Mutant("msa-gap-position-zero", MULT, "            if seq_code[i] == gap_symbol_code:\n                trace[i,j] = -1\n", "            if seq_code[i] == gap_symbol_code:\n                trace[i,j] = 0\n", "R5.gap-symbol"),
    Mutant("msa-returns-inverse-order", MULT, "    return Alignment(aligned_seqs, trace), order, guide_tree, distances\n", "    return Alignment(aligned_seqs, trace), new_order, guide_tree, distances\n", "R5.returns"),
    Mutant("gap-state-shared", ALN, "    for seq_code in codes:\n        in_gap = False\n", "    in_gap = False\n    for seq_code in codes:\n", "R6.gap-state-per-sequence"),
]
