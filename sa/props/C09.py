"""
C09 - heuristic alignments (narrow).

Banded aligner: trace selectors and dispatch as in C08 (shared code), the
band-straightened stencil (diag (i-1,j), left (i,j-1), top (i-1,j+1)), the
index transformation between band column and sequence position, the visited
diagonals, and the swap pairing (sequences swapped => band negated, matrix
transposed, trace flipped on return).
Seeded aligners: every branch that assembles traces contains the seed;
upstream work is control-dependent on `upstream` and uses the reversed prefix
slices, downstream on `downstream` and the suffix slices; score-only
non-interference; the score returned in score-only mode is the variable passed
to Alignment; the two ungapped extension loops are equal.
NOT decided: upper bound by the optimum, band containment of results as a
value property, X-drop behaviour.
"""

import ast

from .. import tracetab
from ..astutil import call_name, calls, dotted, names_in, param_names, stmts, walk_local
from ..cfg import CFG
from ..core import AnalysisError, Mutant
from .C08 import AFFINE_GROUPS, LINEAR_GROUPS, fill_check
from ..exprnorm import has_code, same_expr

EXPLANATION = (
    "Stencil agreement of the banded and X-drop fill functions with the traceback, linear-form "
    "comparison of the band index transformations, swap pairing, seed containment, control "
    "dependence of direction-specific work, score-only non-interference, normalised comparison "
    "of the two ungapped extension loops - from the lowered banded.pyx, localgapped.pyx, localungapped.pyx."
)
ASSUMPTIONS = ["trace selectors and dispatch are those decided in C08 (re-run here)"]
MIN_OBLIGATIONS = 60

TT = tracetab.TT
BD = "sequence/align/banded.pyx"
LG = "sequence/align/localgapped.pyx"
LU = "sequence/align/localungapped.pyx"


def linear(e, env=None):
    env = env or {}
    if isinstance(e, ast.Name):
        return dict(env.get(e.id, {e.id: 1}))
    if isinstance(e, ast.Constant) and isinstance(e.value, int):
        return {"1": e.value} if e.value else {}
    if isinstance(e, ast.BinOp) and isinstance(e.op, (ast.Add, ast.Sub)):
        l, r = linear(e.left, env), linear(e.right, env)
        sg = 1 if isinstance(e.op, ast.Add) else -1
        for k, v in r.items():
            l[k] = l.get(k, 0) + sg * v
        return {k: v for k, v in l.items() if v}
    raise AnalysisError("non-linear index expression " + ast.unparse(e))


def seed_pair_dominates(f):
    """the seed pair's score is added on every path to every return that reports total_score (score-only and full mode)"""
    g = CFG(f, lambda st: isinstance(st, ast.Raise))
    dom = g.dominators()
    adds = [n.id for n in g.nodes if n.kind == "stmt" and isinstance(n.ast, ast.AugAssign) and isinstance(n.ast.op, ast.Add)
            and ast.unparse(n.ast.target) == "total_score" and ast.unparse(n.ast.value) == "score_matrix[code1[seq1_start], code2[seq2_start]]"]
    rets = [n.id for n in g.nodes if n.kind == "stmt" and isinstance(n.ast, ast.Return) and n.ast.value is not None
            and "total_score" in names_in(n.ast.value)]
    return len(adds) == 1 and bool(rets) and all(adds[0] in dom.get(r, set()) for r in rets)


_TRACE_STARTS_REFERENCE = '''
def get_global_trace_starts(seq1_len, seq2_len, lower_diag, upper_diag):
    band_width = upper_diag - lower_diag + 1
    j = np.arange(1, band_width + 1)
    seq_j = j + (seq1_len-1) + lower_diag - 1
    i = np.where(seq_j < seq2_len, np.full(len(j), (seq1_len-1) + 1, dtype=int), (seq2_len-1) - j - lower_diag + 2)
    return i, j
'''


def run(ctx):
    en = tracetab.enums(ctx)
    # the shared selectors/dispatch (cheap, keeps C09 self-contained)
    tracetab.selector_check(ctx, "R1", "get_trace_linear", LINEAR_GROUPS)
    tracetab.dispatch_check(ctx, "R2")
    stb = tracetab.stencil(ctx)
    ctx.ob("R3.banded-stencil-values", TT, "follow_trace", str(sorted(stb[True].items())),
           stb[True] == {"match": (-1, 0), "gap_left": (0, -1), "gap_top": (-1, 1)},
           "in the straightened band table the diagonal predecessor is (i-1, j), left (i, j-1), top (i-1, j+1)", 1)
    b = ctx.src(BD)
    fill_check(ctx, "R3", BD, "_fill_align_table", "get_trace_linear", LINEAR_GROUPS, stb[True])
    fa = b.func("_fill_align_table_affine")
    sel = [c for c in calls(fa) if call_name(c) == "get_trace_affine"][0]
    sparams = param_names(ctx.src(TT).func("get_trace_affine"))
    ptr_vars = {p[len("max_"):-len("_score")]: (sel.args[i].operand if isinstance(sel.args[i], ast.UnaryOp) else sel.args[i]).id
                for i, p in enumerate(sparams) if p.startswith("max_")}
    state_tables = {}
    for state, var in ptr_vars.items():
        tabs = {st.targets[0].value.id for st in stmts(fa) if isinstance(st, ast.Assign) and isinstance(st.targets[0], ast.Subscript)
                and isinstance(st.value, ast.Name) and st.value.id == var and isinstance(st.targets[0].value, ast.Name)}
        ctx.need(len(tabs) == 1, f"banded table of state {state}")
        state_tables[state] = next(iter(tabs))
    fill_check(ctx, "R3", BD, "_fill_align_table_affine", "get_trace_affine", AFFINE_GROUPS, stb[True], state_tables)
    # index transformation: fill j = seq_j - seq_i - L + 1  <->  traceback seq_j = j + seq_i + L - 1
    for q in ("_fill_align_table", "_fill_align_table_affine"):
        f = b.func(q)
        jdef = [st.value for st in stmts(f) if isinstance(st, ast.Assign) and isinstance(st.targets[0], ast.Name) and st.targets[0].id == "j"]
        idef = [st.value for st in stmts(f) if isinstance(st, ast.Assign) and isinstance(st.targets[0], ast.Name) and st.targets[0].id == "i"]
        ctx.need(jdef and idef, f"index definitions in {q}")
        lj = linear(jdef[0])
        ft = ctx.src(TT).func("follow_trace")
        sj = [st.value for st in ast.walk(ft) if isinstance(st, ast.Assign) and isinstance(st.targets[0], ast.Name) and st.targets[0].id == "seq_j"
              and "lower_diag" in ast.unparse(st.value)]
        si = [st.value for st in ast.walk(ft) if isinstance(st, ast.Assign) and isinstance(st.targets[0], ast.Name) and st.targets[0].id == "seq_i"]
        ctx.need(sj and si, "seq_i / seq_j of the banded traceback")
        # substitute j := lj, seq_i stays symbolic: traceback gives seq_j' = j + seq_i + L - 1
        back = linear(sj[0], {"j": lj})
        ctx.ob("R3.band-index-inverse", BD, q, f"j = {ast.unparse(jdef[0])} ; traceback seq_j = {ast.unparse(sj[0])}",
               back == {"seq_j": 1} and linear(idef[0]) == {"seq_i": 1, "1": 1} and linear(si[0]) == {"i": 1, "1": -1},
               "the band column computed when filling and the sequence position computed when tracing back are not "
               f"inverse to each other (composition gives {back})", f.lineno)
        rng = [st.iter for st in ast.walk(f) if isinstance(st, ast.For) and isinstance(st.target, ast.Name) and st.target.id == "seq_j"]
        ctx.need(rng, f"seq_j loop of {q}")
        t = ast.unparse(rng[0])
        ctx.ob("R3.band-diagonals", BD, q, t,
               t == "range(max(0, seq_i + lower_diag), min(code2.shape[0], seq_i + upper_diag + 1))",
               "the cells visited must be exactly the diagonals lower_diag..upper_diag inside the table", f.lineno)
    ab = b.func("align_banded")
    at = ast.unparse(ab)
    swap = [st for st in stmts(ab) if isinstance(st, ast.If) and has_code(st.test, "len(seq2) < len(seq1)")]
    ctx.need(swap, "swap branch of align_banded")
    sb = "\n".join(ast.unparse(x) for x in swap[0].body)
    ctx.ob("R3.swap-pairing", BD, "align_banded", "swap => band negated, matrix transposed, flag set",
           "seq1, seq2 = (seq2, seq1)" in sb and "band = [-diag for diag in band]" in sb and "matrix = matrix.transpose()" in sb
           and "is_swapped = True" in sb and any(has_code(x, "is_swapped = False") for x in swap[0].orelse),
           "swapping the sequences requires negating the band and transposing the matrix", swap[0].lineno)
    rets = [st for st in stmts(ab) if isinstance(st, ast.If) and ast.unparse(st.test) == "is_swapped"]
    ctx.ob("R3.swap-pairing", BD, "align_banded", "swapped result: Alignment([seq2, seq1], np.flip(trace, axis=1), ...)",
           bool(rets) and "Alignment([seq2, seq1], np.flip(trace, axis=1), max_score)" in ast.unparse(rets[0].body[0])
           and "Alignment([seq1, seq2], trace, max_score)" in ast.unparse(rets[0].orelse[0]),
           "a swapped computation must return the sequences in the caller's order with the trace columns flipped",
           rets[0].lineno if rets else ab.lineno)
    ctx.ob("R3.band-clipping", BD, "align_banded", "lower = max(lower, -len(seq1) + 1); upper = min(upper, len(seq2) - 1)",
           has_code(ab, "lower_diag = max(lower_diag, -len(seq1) + 1)") and has_code(ab, "upper_diag = min(upper_diag, len(seq2) - 1)")
           and has_code(ab, "lower_diag, upper_diag = (min(band), max(band))"),
           "the band is the pair (min, max) of the given diagonals clipped to the table", ab.lineno)
    # the band that is used is the band of the sequences AS THEY ARE ALIGNED: min / max are taken after the swap has negated it
    top_ = list(ab.body)
    k_swap = next((k for k, st in enumerate(top_) if st is swap[0]), None)
    k_band = next((k for k, st in enumerate(top_) if isinstance(st, ast.Assign) and has_code(st, "lower_diag, upper_diag = (min(band), max(band))")), None)
    ctx.ob("R3.swap-pairing", BD, "align_banded", "lower_diag, upper_diag = min(band), max(band) after the swap",
           k_swap is not None and k_band is not None and k_band > k_swap
           and not any(isinstance(x, ast.Name) and x.id in ("lower_diag", "upper_diag") and isinstance(x.ctx, ast.Store)
                       for st in top_[:k_band] for x in ast.walk(st)),
           "when the sequences are swapped the band is negated: diagonals taken from the band before the swap are those of the caller's "
           "order and select the mirrored band", ab.lineno)
    # both guard COLUMNS of every table hold the sentinel: a path cannot enter the band from outside its lower or its upper edge
    guard_cols = {}
    for st in ast.walk(ab):
        if isinstance(st, ast.Assign) and len(st.targets) == 1 and isinstance(st.targets[0], ast.Subscript) and isinstance(st.targets[0].value, ast.Name) \
                and same_expr(st.value, "neg_inf") and isinstance(st.targets[0].slice, ast.Tuple) and len(st.targets[0].slice.elts) == 2:
            r_, c_ = st.targets[0].slice.elts
            if isinstance(r_, ast.Slice) and r_.lower is None and r_.upper is None and r_.step is None:
                guard_cols.setdefault(st.targets[0].value.id, set()).add(ast.unparse(c_))
    ctx.ob("R3.band-guard-columns", BD, "align_banded", f"{sorted((k, sorted(v)) for k, v in guard_cols.items())}",
           all(guard_cols.get(t_, set()) >= {"0", "-1"} for t_ in ("m_table", "score_table")),
           "column 0 and column -1 of the banded tables lie outside the band: both must hold the sentinel, or a path starts for free at "
           "the band edge that was left at 0", ab.lineno)
    # the cells a semi-global trace may start from: every column of the band (1 .. band width) in the last row, or the row that the end of
    # the longer sequence gives - the whole helper against what it has to compute
    from ..equiv import same_function as _same_function
    gts = b.func("get_global_trace_starts")
    ok_gts, shown_gts = _same_function(gts, _TRACE_STARTS_REFERENCE)
    ctx.ob("R3.band-trace-starts", BD, "get_global_trace_starts", "j = 1 .. band_width; i = last row, or the row of the last position of seq2",
           ok_gts, "an end column that is left out (the last diagonal of the band) is never a start: the optimum that ends there is not found; "
           "the function computes " + shown_gts, gts.lineno)
    # the trace buffer holds the longest trace there is: every symbol of both sequences aligned to a gap
    ctx.ob("R3.trace-buffer", BD, "align_banded", "trace = np.full((len(seq1) + len(seq2), 2), -1, dtype=np.int64)",
           has_code(ab, "trace = np.full((len(seq1) + len(seq2), 2), -1, dtype=np.int64)"),
           "a trace has at most len(seq1) + len(seq2) columns; the band limits the DIFFERENCE of the gap counts, not the number of gaps", ab.lineno)
    ft_calls = [c for c in calls(ab) if call_name(c) == "follow_trace"]
    def _kw(c, name):
        return next((ast.unparse(k.value) for k in c.keywords if k.arg == name), None)

    ctx.ob("R3.banded-traceback", BD, "align_banded", "follow_trace(trace_table, True, ..., lower_diag=lower_diag, upper_diag=upper_diag)",
           bool(ft_calls) and all(
               len(c.args) >= 4 and ast.unparse(c.args[1]) == "True" and ast.unparse(c.args[2]) == "i_start" and ast.unparse(c.args[3]) == "j_start"
               and _kw(c, "lower_diag") == "lower_diag" and _kw(c, "upper_diag") == "upper_diag"
               and _kw(c, "max_trace_count") == "max_number" and _kw(c, "state") == "state_start" for c in ft_calls),
           "the traceback must run in banded mode with the band and budget used for filling", ab.lineno)
    ctx.ob("R4.max-number-truncated", BD, "align_banded", "trace_list = trace_list[:max_number]", has_code(ab, "trace_list = trace_list[:max_number]"),
           "", ab.lineno, nontrivial=False)
    starts = {}
    for st in ast.walk(ab):
        if isinstance(st, ast.If) and isinstance(st.test, ast.Compare) and ast.unparse(st.test).endswith("== max_score"):
            tab = ast.unparse(st.test.left).split("_")[0]
            states = [d.split(".")[-1] for d in (dotted(x) for b_ in st.body for x in ast.walk(b_) if isinstance(x, ast.Attribute)) if d and d.startswith("TraceState.")]
            if states:
                starts[tab] = states[0]
    ctx.ob("R3.start-states", BD, "align_banded", str(sorted(starts.items())),
           starts == {"m": "MATCH_STATE", "g1": "GAP_LEFT_STATE", "g2": "GAP_TOP_STATE"},
           "the traceback must start in the state of the table that holds the maximum", ab.lineno)
    # whole-list start states: np.full(len(i_list), TraceState.X) - X follows the table the maximum was searched in
    n_full = 0

    def scan_block(block):
        nonlocal n_full
        table = None
        for st in block:
            if isinstance(st, ast.Assign):
                for c in ast.walk(st.value):
                    if isinstance(c, ast.Call) and call_name(c) in ("np.where", "np.max"):
                        names = [n.id for n in ast.walk(c) if isinstance(n, ast.Name) and (n.id.endswith("table") or n.id == "scores")]
                        if names:
                            table = names[0]
                if any(isinstance(t, ast.Name) and t.id == "state_list" for t in st.targets) and isinstance(st.value, ast.Call) \
                        and call_name(st.value) == "np.full" and len(st.value.args) >= 2:
                    stt = (dotted(st.value.args[1]) or "").split(".")[-1]
                    want = {"m_table": "MATCH_STATE", "score_table": "NO_STATE", "scores": "NO_STATE"}.get(table)
                    n_full += 1
                    ctx.ob("R3.start-states", BD, "align_banded", f"maximum of {table} -> {stt}", want is not None and stt == want,
                           f"starts found in {table} must begin the traceback in state {want}", st.lineno)
            for fld in ("body", "orelse"):
                if isinstance(getattr(st, fld, None), list) and not isinstance(st, (ast.For, ast.While)):
                    scan_block(getattr(st, fld))

    scan_block(ab.body)
    ctx.floor("R3.whole-list-start-states", n_full, 3)

    # ---------------- gapped seed extension ---------------------------------------
    g = ctx.src(LG)
    stn = tracetab.stencil(ctx)[False]
    fill_check(ctx, "R3", LG, "_fill_align_table", "get_trace_linear", LINEAR_GROUPS, stn)
    fa2 = g.func("_fill_align_table_affine")
    sel2 = [c for c in calls(fa2) if call_name(c) == "get_trace_affine"][0]
    ptr2 = {p[len("max_"):-len("_score")]: (sel2.args[i].operand if isinstance(sel2.args[i], ast.UnaryOp) else sel2.args[i]).id
            for i, p in enumerate(sparams) if p.startswith("max_")}
    st2 = {}
    for state, var in ptr2.items():
        tabs = {st.targets[0].value.id for st in stmts(fa2) if isinstance(st, ast.Assign) and isinstance(st.targets[0], ast.Subscript)
                and isinstance(st.value, ast.Name) and st.value.id == var and isinstance(st.targets[0].value, ast.Name)}
        ctx.need(len(tabs) == 1, f"X-drop table of state {state}")
        st2[state] = next(iter(tabs))
    fill_check(ctx, "R3", LG, "_fill_align_table_affine", "get_trace_affine", AFFINE_GROUPS, stn, st2)
    # score-only non-interference
    for q, selector, groups, ptrs in (("_fill_align_table", "get_trace_linear", LINEAR_GROUPS, {"": "score"}),
                                      ("_fill_align_table_affine", "get_trace_affine", AFFINE_GROUPS, ptr2)):
        f = g.func(q)
        sp = param_names(ctx.src(TT).func(selector))
        call = [c for c in calls(f) if call_name(c) == selector][0]
        argname = {p: (call.args[i].id if isinstance(call.args[i], ast.Name) else None) for i, p in enumerate(sp)}
        branch = [st for st in ast.walk(f) if isinstance(st, ast.If) and ast.unparse(st.test) == "score_only"
                  and any(x is call for b_ in st.orelse for x in ast.walk(b_))]
        ctx.need(branch, f"score_only branch around {selector} in {q}")
        for ptr, ps in groups:
            state = ptr[len("max_"):-len("_score")] if ptr != "max_score" else ""
            var = ptrs[state]
            asg = [b_ for b_ in branch[0].body if isinstance(b_, ast.Assign) and isinstance(b_.targets[0], ast.Name) and b_.targets[0].id == var]
            cands = set()
            ok = False
            if asg:
                cands = names_in(asg[0].value) - {"_max", "max"}
                only_max = all((call_name(c) in ("_max", "max")) for c in ast.walk(asg[0].value) if isinstance(c, ast.Call))
                ok = cands == {argname[p] for p in ps} and only_max
            ctx.ob("R5.score-only-same-candidates", LG, q, f"{var} = max{sorted(cands)} vs selector arguments {[argname[p] for p in ps]}", ok,
                   f"in score-only mode `{var}` must be the maximum of exactly the candidates the trace selector compares, "
                   "otherwise the score-only call reports a different score than the full call", branch[0].lineno)
        # everything that depends on score_only writes only the trace (or the score variables above)
        allowed = set(ptrs.values()) | {"trace", "trace_table"}
        bad = []
        for st in ast.walk(f):
            if isinstance(st, ast.If) and "score_only" in names_in(st.test):
                for b_ in st.body + st.orelse:
                    for x in ast.walk(b_):
                        if isinstance(x, (ast.Assign, ast.AugAssign)):
                            for t_ in (x.targets if isinstance(x, ast.Assign) else [x.target]):
                                root = t_
                                while isinstance(root, ast.Subscript):
                                    root = root.value
                                if isinstance(root, ast.Name) and root.id not in allowed:
                                    bad.append(root.id)
        ctx.ob("R5.score-only-non-interference", LG, q, f"assignments under score_only tests: allowed {sorted(allowed)}", not bad,
               f"{sorted(set(bad))} are assigned depending on score_only: the score tables of a score-only call then differ "
               "from those of the full call", f.lineno)
    al = g.func("align_local_gapped")
    cfg = CFG(al, lambda st: isinstance(st, ast.Raise))
    cd = cfg.control_deps()
    for flag, slices in (("upstream", ("code1[seq1_start - 1::-1]", "code2[seq2_start - 1::-1]")),
                         ("downstream", ("code1[seq1_start + 1:]", "code2[seq2_start + 1:]"))):
        calls_ = [n for n in cfg.nodes if n.ast is not None and n.kind == "stmt" and "_align_region(" in ast.unparse(n.ast)
                  and all(s_ in ast.unparse(n.ast) for s_ in slices)]
        ctx.need(len(calls_) == 1, f"{flag} call of _align_region")
        tests = {n.id for n in cfg.nodes if n.kind == "test" and ast.unparse(n.ast.test) == flag}
        dep = any(t_ in tests and k == "t" for t_, k in cd.get(calls_[0].id, ()))
        ctx.ob("R5.direction-control", LG, "align_local_gapped", f"{flag}: _align_region({', '.join(slices)}) under `if {flag}`", dep,
               f"the {flag} extension must run exactly when `{flag}` is set and on the "
               + ("reversed prefixes before the seed" if flag == "upstream" else "suffixes after the seed"), calls_[0].line)
    tr_asg = [st for st in ast.walk(al) if isinstance(st, ast.Assign) and isinstance(st.targets[0], ast.Name) and st.targets[0].id == "traces"]
    ctx.need(len(tr_asg) == 4, "four trace assembly branches in align_local_gapped")
    for st in tr_asg:
        ctx.ob("R5.seed-in-every-trace", LG, "align_local_gapped", st, "seed" in names_in(st.value),
               "an assembled alignment must contain the seed position", st.lineno)
    t = ast.unparse(al)
    ctx.ob("R5.same-score-both-modes", LG, "align_local_gapped", "return total_score / Alignment(..., total_score)",
           has_code(al, "return total_score") and has_code(al, "Alignment([seq1, seq2], trace, total_score)")
           and seed_pair_dominates(al),
           "score-only and full mode must report the same variable, including the seed pair", al.lineno)
    ar = g.func("_align_region")
    art = ast.unparse(ar)
    ctx.ob("R5.same-score-both-modes", LG, "_align_region", "max_score - init_score in both returns",
           art.count("max_score - init_score") == 2, "both modes must report the table maximum minus the initial score", ar.lineno)
    ctx.ob("R5.upstream-trace-offset", LG, "align_local_gapped", "reversed, negated, offset by seed - 1",
           has_code(al, "upstream_traces = [trace[::-1] for trace in upstream_traces]") and has_code(al, "offset = np.array(seed) - 1")
           and has_code(al, "trace[non_gap_mask] *= -1") and has_code(al, "offset = np.array(seed) + 1"),
           "upstream traces are computed on reversed prefixes: positions map back as (seed - 1) - k, downstream as (seed + 1) + k",
           al.lineno)
    # ---------------- ungapped seed extension ----------------------------------------
    u = ctx.src(LU)
    a_, b_ = u.func("_seed_extend_generic"), u.func("_seed_extend_uint8")
    la = [st for st in a_.body if isinstance(st, ast.For)]
    lb = [st for st in b_.body if isinstance(st, ast.For)]
    ctx.need(la and lb, "extension loops")
    ctx.ob("R6.sibling-loops-equal", LU, "_seed_extend_uint8", "loop body equal to _seed_extend_generic",
           ast.dump(la[0]) == ast.dump(lb[0]),
           "the uint8 fast path and the generic extension must run the same loop", lb[0].lineno)
    ra = ast.unparse([st for st in a_.body if isinstance(st, ast.Return)][0])
    rb = ast.unparse([st for st in b_.body if isinstance(st, ast.Return)][0])
    ctx.ob("R6.sibling-results-equal", LU, "_seed_extend_uint8", f"{ra} / score[0] = max_score; {rb}",
           ra == "return (max_score, i_max_score + 1)" and rb == "return i_max_score + 1" and has_code(b_, "score[0] = max_score"),
           "both variants report the maximum score and the length up to its position", b_.lineno)
    au = u.func("align_local_ungapped")
    ut = ast.unparse(au)
    for flag, slices in (("upstream", "code1[seq1_start - 1::-1], code2[seq2_start - 1::-1]"), ("downstream", "code1[seq1_start + 1:], code2[seq2_start + 1:]")):
        blk = [st for st in stmts(au) if isinstance(st, ast.If) and flag in names_in(st.test) and "_seed_extend" in ast.unparse(st)]
        ctx.ob("R5.direction-control", LU, "align_local_ungapped", f"{flag} extension on ({slices})",
               bool(blk) and ast.unparse(blk[0]).count(slices) == 2,
               f"the {flag} extension must run under `{flag}` on the right slices in both code paths", au.lineno)
    # the upstream extension slices code[start - 1::-1] of BOTH sequences: it needs both starts to be positive
    from ..facts import conjuncts as _cj
    from ..exprnorm import canon as _cn
    up_blk = [st for st in stmts(au) if isinstance(st, ast.If) and "upstream" in names_in(st.test) and "_seed_extend" in ast.unparse(st)]
    got_up = sorted(repr(_cn(c_)) for c_ in _cj(up_blk[0].test)) if up_blk else []
    want_up = sorted(repr(_cn(ast.parse(t_, mode="eval").body)) for t_ in ("upstream", "seq1_start > 0", "seq2_start > 0"))
    ctx.ob("R2.upstream-needs-both-starts", LU, "align_local_ungapped", "if upstream and seq1_start > 0 and seq2_start > 0",
           got_up == want_up,
           "with a seed at index 0 of one sequence `code[start - 1::-1]` is the whole reversed sequence: the upstream extension must not run "
           "unless both starts are positive", au.lineno)
    ctx.ob("R5.same-score-both-modes", LU, "align_local_ungapped", "return total_score / Alignment(..., total_score)",
           has_code(au, "return total_score") and has_code(au, "Alignment([seq1, seq2], trace, total_score)")
           and seed_pair_dominates(au),
           "score-only and full mode must report the same variable, including the seed pair", au.lineno)
    ctx.ob("R5.seed-in-every-trace", LU, "align_local_ungapped", "np.arange(seq1_start + start_offset, seq1_start + stop_offset)",
           has_code(au, "start_offset = 0") and has_code(au, "stop_offset = 1") and has_code(au, "start_offset -= length") and has_code(au, "stop_offset += length")
           and has_code(au, "np.arange(seq1_start + start_offset, seq1_start + stop_offset)")
           and has_code(au, "np.arange(seq2_start + start_offset, seq2_start + stop_offset)"),
           "the diagonal stretch must run from seed - upstream length to seed + downstream length inclusive", au.lineno)

    extra_rules(ctx)


def extra_rules(ctx):
    from ..exprnorm import check_spec, same_expr as _same
    from ..lints import out_params_written
    from .. import facts as _facts
    from ..exprnorm import spec as _spec
    # ---- banded: the 'minus infinity' of cells outside the band leaves head-room for ONE gap penalty PLUS one negative
    # substitution score (a band-edge cell holds neg_inf + penalty and the next diagonal step adds a score to it)
    from ..exprnorm import local_value
    ab = ctx.src(BD).func("align_banded")
    nv = local_value(ab, "neg_inf")
    ctx.need(nv is not None, "neg_inf of align_banded")
    # local_value composes the value from the function's inputs: `affine_penalty` and `matrix` (transposed when the sequences are
    # swapped) appear with the values the function gave them before
    aff, mat = local_value(ab, "affine_penalty", descend=False), local_value(ab, "matrix", descend=False)
    # (a name the function never binds is the parameter itself)
    aff_s = f"({ast.unparse(aff)})" if aff is not None else "affine_penalty"
    mat_s = f"({ast.unparse(mat)})" if mat is not None else "matrix"
    ctx.ob("R3.sentinel-headroom", BD, "align_banded", "neg_inf = INT32_MIN - min penalty - min(0, min score)",
           _same(nv, f"(np.iinfo(np.int32).min - (min(gap_penalty) if {aff_s} else gap_penalty) - np.min({mat_s}.score_matrix())) "
                     f"if np.min({mat_s}.score_matrix()) < 0 else (np.iinfo(np.int32).min - (min(gap_penalty) if {aff_s} else gap_penalty))"),
           "the sentinel must stay above INT32_MIN after a gap penalty and a negative substitution score have BOTH been added (a band-edge "
           "cell holds neg_inf + penalty and the next diagonal step adds a score to it); the code computes " + ast.unparse(nv)[:200], ab.lineno)
    # ---- ... and that head-room is for ONE step.  The affine recurrence adds a penalty to entries of the gap tables that it wrote itself
    # (`g1_table[i, j-1] + gap_ext` goes into `g1_table[i, j]`): an entry that descends from the sentinel falls by one penalty per step along
    # the band, so the stored value needs a lower clamp (max(.., sentinel)) - or the head-room has to grow with the number of steps
    fa = ctx.src(BD).func("_fill_align_table_affine")
    stored_tabs = {t.value.id for st in ast.walk(fa) if isinstance(st, ast.Assign) for t in st.targets
                   if isinstance(t, ast.Subscript) and isinstance(t.value, ast.Name)}
    self_fed = sorted({x.left.value.id for x in ast.walk(fa) if isinstance(x, ast.BinOp) and isinstance(x.op, ast.Add) and isinstance(x.left, ast.Subscript)
                       and isinstance(x.left.value, ast.Name) and x.left.value.id in stored_tabs and x.left.value.id.startswith("g")
                       and isinstance(x.right, ast.Name) and x.right.id.startswith("gap")})
    ctx.need(bool(self_fed), "gap-table recurrence of _fill_align_table_affine (banded)")
    clamps = [c for c in ast.walk(fa) if isinstance(c, ast.Call) and (call_name(c) or "").split(".")[-1] in ("max", "_max", "maximum")
              and any(isinstance(a, ast.Name) and ("inf" in a.id or "sentinel" in a.id or "min" in a.id.lower()) for a in c.args)]
    ctx.ob("R3.sentinel-not-accumulated", BD, "_fill_align_table_affine", f"{self_fed}: entry + gap penalty stored back into the same table",
           bool(clamps),
           "gap-table entries that descend from the out-of-band sentinel lose one gap penalty per step and are never clamped: the head-room of the "
           "sentinel (one penalty, one score) is used up after two steps and the int32 wraps to a huge positive score", fa.lineno)
    # ---- gapped seed extension: the upstream part reverses code[start - 1::-1] of BOTH sequences: it is skipped when either start is 0
    # (start - 1 = -1 would slice the whole reversed sequence)
    lg = ctx.src(LG).func("align_local_gapped")
    neg_slices = sorted({x.value.slice.lower.left.id for x in ast.walk(lg) if isinstance(x, ast.Subscript) and isinstance(x.slice, ast.Slice)
                         and isinstance(x.slice.lower, ast.BinOp) and isinstance(x.slice.lower.op, ast.Sub) and isinstance(x.slice.lower.left, ast.Name)
                         and isinstance(x.slice.lower.right, ast.Constant) and x.slice.lower.right.value == 1 and x.slice.step is not None
                         for x in [ast.Subscript(value=x, slice=None, ctx=ast.Load())]} if False else
                        {x.slice.lower.left.id for x in ast.walk(lg) if isinstance(x, ast.Subscript) and isinstance(x.slice, ast.Slice)
                         and isinstance(x.slice.lower, ast.BinOp) and isinstance(x.slice.lower.op, ast.Sub) and isinstance(x.slice.lower.left, ast.Name)
                         and isinstance(x.slice.lower.right, ast.Constant) and x.slice.lower.right.value == 1 and x.slice.step is not None})
    ctx.need(len(neg_slices) == 2, "reversed upstream slices code[start - 1::-1] of align_local_gapped")
    offs = [st for st in ast.walk(lg) if isinstance(st, ast.If) and any(isinstance(b, ast.Assign) and _same(b.targets[0], "upstream") and _same(b.value, "False") for b in st.body)
            and not st.orelse]
    want_t = " or ".join(f"{v} == 0" for v in neg_slices)
    ctx.ob("R2.upstream-needs-both-starts", LG, "align_local_gapped", f"if {want_t}: upstream = False",
           any(_same(st.test, want_t) for st in offs),
           f"the upstream extension slices code[start - 1::-1] for {neg_slices}: it has to be switched off when EITHER start is 0 "
           "(with `and`, a seed at index 0 of one sequence aligns against the whole reversed other sequence)", lg.lineno)
    # ---- gapped seed extension: the index range of antidiagonal k follows from the ranges of k-1 (moved by a gap: +1 at the upper end) and
    # k-2 (moved by a match: +1 at both ends)
    for q in ("_fill_align_table", "_fill_align_table_affine"):
        ff = ctx.src(LG).func(q)
        # the only way out of the antidiagonal loop is an empty index range (a match step skips one antidiagonal: an antidiagonal without a
        # cell above the threshold does not end the extension)
        loops_k = [lp for lp in ff.body if isinstance(lp, (ast.For, ast.While))]
        outs_ = [x for lp in loops_k for x in ast.walk(lp) if isinstance(x, (ast.Break, ast.Return))
                 and not any(isinstance(il, (ast.For, ast.While)) and il is not lp and any(y is x for y in ast.walk(il)) for il in ast.walk(lp))]
        guarded_ = [st for lp in loops_k for st in ast.walk(lp) if isinstance(st, ast.If) and same_expr(st.test, "i_min > i_max")
                    and len(st.body) == 1 and isinstance(st.body[0], ast.Break)]
        ctx.ob("R3.extension-ends-on-empty-range", LG, q, f"{len(outs_)} way(s) out of the antidiagonal loop", len(outs_) == 1 and len(guarded_) == 1,
               "the table filling stops when the index range of an antidiagonal is empty, and only then", ff.lineno)
        ctx.ob("R3.antidiagonal-range", LG, q, "i_min = min(i_min(k-1), i_min(k-2) + 1); i_max = max(i_max(k-1) + 1, i_max(k-2) + 1), clipped to the sequences",
               has_code(ff, "i_min = _min(i_min_k_1, i_min_k_2 + 1)") and has_code(ff, "i_max = _max(i_max_k_1 + 1, i_max_k_2 + 1)")
               and has_code(ff, "i_min = _max(i_min, k - code2.shape[0])") and has_code(ff, "i_max = _min(i_max, code1.shape[0])"),
               "a cell on the diagonal of the best cell two antidiagonals back must stay in range: without the `+ 1` the extension stops although "
               "the score never dropped", ff.lineno)
    # ---- gapped seed extension, table fill: a cell that was pruned (score 0 = never reached from the seed) is not extended
    # by a substitution score (a positive score would otherwise start a new path away from the seed)
    for q, preds in (("_fill_align_table", ["from_diag"]), ("_fill_align_table_affine", ["mm_score", "g1m_score", "g2m_score"])):
        f = ctx.src(LG).func(q)
        for v in preds:
            adds = [st for st in ast.walk(f) if isinstance(st, ast.AugAssign) and isinstance(st.op, ast.Add) and _same(st.target, v)]
            plain = [st for st in ast.walk(f) if isinstance(st, ast.Assign) and _same(st.targets[0], v) and isinstance(st.value, ast.BinOp)
                     and any(isinstance(x, ast.Subscript) and isinstance(x.value, ast.Name) and x.value.id == "matrix" for x in ast.walk(st.value))]
            ok = len(adds) == 1 and not plain and _spec(f"{v} != 0") in _facts.facts_at(f, adds[0]) and (
                any(isinstance(x, ast.Subscript) and isinstance(x.value, ast.Name) and x.value.id == "matrix" for x in ast.walk(adds[0].value))
                or _same(adds[0].value, "similarity_score"))
            ctx.ob("R3.pruned-cell-not-extended", LG, q, f"{v} += substitution score only if {v} != 0", ok,
                   f"the diagonal predecessor `{v}` is 0 when that cell was pruned: the substitution score may only be added to a "
                   "reached cell (guard `!= 0`), otherwise alignments start away from the seed", (adds[0].lineno if adds else f.lineno))
    # ---- gapped seed extension: a neighbour cell is read exactly where it exists - `T[i-1, j]` under `i != 0` (and nothing about j: the first
    # column HAS upper neighbours), `T[i, j-1]` under `j != 0`, `T[i-1, j-1]` under both
    from ..facts import conjuncts as _conj
    n_nb = 0
    for q in ("_fill_align_table", "_fill_align_table_affine"):
        f = ctx.src(LG).func(q)
        par = {}
        for p_ in ast.walk(f):
            for ch_ in ast.iter_child_nodes(p_):
                par[id(ch_)] = p_
        for sub in ast.walk(f):
            if not (isinstance(sub, ast.Subscript) and isinstance(sub.ctx, ast.Load) and isinstance(sub.slice, ast.Tuple) and len(sub.slice.elts) == 2
                    and isinstance(sub.value, ast.Name) and sub.value.id.endswith("_table")):
                continue
            dec = {e.left.id for e in sub.slice.elts if isinstance(e, ast.BinOp) and isinstance(e.op, ast.Sub) and isinstance(e.left, ast.Name)
                   and isinstance(e.right, ast.Constant) and e.right.value == 1}
            idx_names = {e.id for e in sub.slice.elts if isinstance(e, ast.Name)} | dec
            if not dec or not idx_names <= {"i", "j"}:
                continue
            guards_ = set()
            cur = sub
            while id(cur) in par:
                up = par[id(cur)]
                if isinstance(up, ast.If) and any(cur is b_ or any(cur is x for x in ast.walk(b_)) for b_ in up.body):
                    for c_ in _conj(up.test):
                        if isinstance(c_, ast.Compare) and len(c_.ops) == 1 and isinstance(c_.ops[0], ast.NotEq) and isinstance(c_.left, ast.Name) \
                                and isinstance(c_.comparators[0], ast.Constant) and c_.comparators[0].value == 0 and c_.left.id in ("i", "j"):
                            guards_.add(c_.left.id)
                cur = up
            n_nb += 1
            ctx.ob("R3.neighbour-read-where-it-exists", LG, q, sub, guards_ == dec,
                   f"`{ast.unparse(sub)}` is read under the test(s) {sorted(guards_)} != 0 but steps back in {sorted(dec)}: "
                   + ("the neighbour does not exist at the border" if dec - guards_ else "an existing neighbour (first row / first column next to the seed) is never used, "
                      "so an extension cannot begin with a gap there and the optimum is missed"), sub.lineno)
    ctx.floor("neighbour-reads", n_nb, 8)
    # ---- ungapped seed extension: the uint8 kernel takes uint8 buffers: it is chosen only when BOTH code arrays are uint8
    lu_f = ctx.src(LU).func("align_local_ungapped")
    flags_ = [st for st in ast.walk(lu_f) if isinstance(st, ast.Assign) and len(st.targets) == 1 and isinstance(st.targets[0], ast.Name)
              and ast.unparse(st.value).count("uint8") >= 2 and "dtype" in ast.unparse(st.value)]
    ctx.need(len(flags_) == 1, "the both-uint8 test of align_local_ungapped")
    v_ = flags_[0].value
    both_ = isinstance(v_, ast.BinOp) and isinstance(v_.op, ast.BitAnd) or isinstance(v_, ast.BoolOp) and isinstance(v_.op, ast.And)
    ctx.ob("R6.uint8-kernel-needs-both", LU, "align_local_ungapped", flags_[0], both_ and "code1" in ast.unparse(v_) and "code2" in ast.unparse(v_),
           "the uint8 kernel is typed for two uint8 buffers: chosen when only one of the code arrays is uint8 it refuses the other "
           "(ValueError: Buffer dtype mismatch) instead of aligning", flags_[0].lineno)
    # ---- every heuristic aligner checks both alphabets against the matrix before it indexes it
    from ..lints import alphabets_fit_matrix
    for rel_, q_ in ((BD, "align_banded"), (LG, "align_local_gapped"), (LU, "align_local_ungapped")):
        alphabets_fit_matrix(ctx, rel_, q_, "R2.alphabets-checked")
    # ---- ungapped seed extension: the C variant reports the score through a pointer
    out_params_written(ctx, LU, "R5.score-out-parameter", 1)


MUTANTS = [
    Mutant("sentinel-headroom-merged", BD, "    neg_inf -= min(gap_penalty) if affine_penalty else gap_penalty\n    min_score = np.min(matrix.score_matrix())\n    if min_score < 0:\n        neg_inf -= min_score\n",
           "    min_penalty = min(gap_penalty) if affine_penalty else gap_penalty\n    min_score = np.min(matrix.score_matrix())\n    neg_inf -= min(min_penalty, min_score, 0)\n", "R3.sentinel-headroom"),
    Mutant("upstream-range-check-and", LG, "    if seq1_start == 0 or seq2_start == 0:\n", "    if seq1_start == 0 and seq2_start == 0:\n", "R2.upstream-needs-both-starts"),
    Mutant("pruned-diagonal-extended", LG, "                if from_diag != 0:\n                    # -1 in sequence index is necessary\n                    # due to the shift of the sequences\n                    # to the bottom/right in the table\n                    from_diag += matrix[code1[i-1], code2[j-1]]\n                else:\n                    from_diag = 0\n",
           "                from_diag += matrix[code1[i-1], code2[j-1]]\n", "R3.pruned-cell-not-extended"),
    Mutant("pruned-g1m-extended", LG, "                if g1m_score != 0:\n                    g1m_score += similarity_score\n", "                g1m_score += similarity_score\n", "R3.pruned-cell-not-extended"),
    Mutant("seed-extend-early-return", LU, "    cdef int32 total_score = 0, max_score = 0\n    cdef int i_max_score = -1\n\n    # Iterate over the symbols in both sequences\n    # The alignment automatically terminates,\n    # if the the end of either sequence is reached\n    for i in range(_min(",
           "    cdef int32 total_score = 0, max_score = 0\n    cdef int i_max_score = -1\n\n    if code1.shape[0] == 0 or code2.shape[0] == 0:\n        return 0\n    for i in range(_min(", "R5.score-out-parameter", count=2),
    Mutant("seed-pair-only-in-full-mode", LG, "    total_score += score_matrix[code1[seq1_start], code2[seq2_start]]\n", "    if not score_only:\n        total_score += score_matrix[code1[seq1_start], code2[seq2_start]]\n", "R5.same-score-both-modes", qualname="align_local_gapped"),
    Mutant("banded-upper-diag-zero", BD, "            lower_diag=lower_diag, upper_diag=upper_diag\n", "            lower_diag=lower_diag, upper_diag=0\n", "R3.banded-traceback"),
    Mutant("banded-local-affine-start-nostate", BD, "            state_list = np.full(\n                len(i_list), TraceState.MATCH_STATE, dtype=int\n            )", "            state_list = np.full(\n                len(i_list), TraceState.NO_STATE, dtype=int\n            )", "R3.start-states"),
    Mutant("banded-top-cell", BD, "            from_top  = score_table[i-1, j+1] + gap_penalty", "            from_top  = score_table[i-1, j] + gap_penalty", "R3.stencil"),
    Mutant("band-index", BD, "            j = seq_j - seq_i - lower_diag + 1\n            # Calculate the scores for possible transitions",
           "            j = seq_j - seq_i - lower_diag\n            # Calculate the scores for possible transitions", "R3.band-index-inverse"),
    Mutant("swap-no-transpose", BD, "        matrix = matrix.transpose()\n", "", "R3.swap-pairing"),
    Mutant("seed-dropped", LG, "                np.concatenate([trace, [seed]]) for trace in upstream_traces", "                np.concatenate([trace]) for trace in upstream_traces",
           "R5.seed-in-every-trace"),
    Mutant("score-only-different", LG, "                score = _max(from_diag, _max(from_left, from_top))", "                score = _max(from_diag, from_left)",
           "R5.score-only-same-candidates"),
    Mutant("score-write-conditional", LG, "                score_table[i,j] = score\n                if not score_only:\n                    trace_table[i,j] = trace",
           "                if not score_only:\n                    score_table[i,j] = score\n                    trace_table[i,j] = trace", "R5.score-only-non-interference"),
    Mutant("ungapped-loop-differs", LU, "        elif max_score - total_score > threshold:\n            # Score drops too low -> terminate alignment\n            break\n\n    # Return the total score and the number of aligned symbols at the\n    # point with maximum total score\n    score[0] = max_score",
           "        elif max_score - total_score >= threshold:\n            # Score drops too low -> terminate alignment\n            break\n\n    # Return the total score and the number of aligned symbols at the\n    # point with maximum total score\n    score[0] = max_score", "R6.sibling-loops-equal"),
    Mutant("downstream-uncontrolled", LG, "    if downstream:\n        score, downstream_traces = _align_region(", "    if True:\n        score, downstream_traces = _align_region(", "R5.direction-control"),
    # ---- one seeded fault per rule that had none --------------------------------------
    Mutant("linear-gt-ge", TT, "    if match_score > gap_left_score:\n        if match_score > gap_top_score:\n            trace = TraceDirectionLinear.MATCH",
           "    if match_score >= gap_left_score:\n        if match_score > gap_top_score:\n            trace = TraceDirectionLinear.MATCH", "R1.argmax-flags"),
    Mutant("linear-wrong-max", TT, "                TraceDirectionLinear.GAP_LEFT |\n                TraceDirectionLinear.GAP_TOP\n            )\n            max_score[0] = gap_left_score\n",
           "                TraceDirectionLinear.GAP_LEFT |\n                TraceDirectionLinear.GAP_TOP\n            )\n            max_score[0] = match_score\n", "R1.argmax-flags"),
    Mutant("linear-score-arithmetic", TT, "            trace = TraceDirectionLinear.MATCH\n            max_score[0] = match_score\n",
           "            trace = TraceDirectionLinear.MATCH\n            max_score[0] = match_score + 1\n", "R1.comparison-only"),
    Mutant("linear-difference-test", TT, "    elif match_score == gap_left_score:\n", "    elif match_score - gap_left_score == 0:\n", "R1.comparison-only"),
    Mutant("dispatch-next-state", TT, "                next_indices.append((i_match, j_match))\n                next_states.append(TraceState.GAP_TOP_STATE)",
           "                next_indices.append((i_match, j_match))\n                next_states.append(TraceState.MATCH_STATE)", "R2.affine-dispatch"),
    Mutant("dispatch-affine-cell", TT, "                next_indices.append((i_gap_top, j_gap_top))\n                next_states.append(TraceState.MATCH_STATE)",
           "                next_indices.append((i_gap_left, j_gap_left))\n                next_states.append(TraceState.MATCH_STATE)", "R2.affine-dispatch"),
    Mutant("budget-not-counted-linear", TT, "                if curr_trace_count[0] < max_trace_count:\n                    curr_trace_count[0] += 1\n                    new_i, new_j = next_indices[k]\n                    follow_trace(",
           "                if curr_trace_count[0] < max_trace_count:\n                    new_i, new_j = next_indices[k]\n                    follow_trace(", "R2.branch-budget"),
    Mutant("budget-unguarded-affine", TT, "                if curr_trace_count[0] < max_trace_count:\n                    curr_trace_count[0] += 1\n                    new_i, new_j = next_indices[k]\n                    new_state = next_states[k]",
           "                if True:\n                    curr_trace_count[0] += 1\n                    new_i, new_j = next_indices[k]\n                    new_state = next_states[k]", "R2.branch-budget"),
    Mutant("linear-branch-shares-trace", TT, "                        np.copy(trace), trace_list, 0,\n", "                        trace, trace_list, 0,\n", "R2.branch-copies-trace"),
    Mutant("affine-branch-shares-trace", TT, "                        np.copy(trace), trace_list, new_state,\n", "                        trace, trace_list, new_state,\n",
           "R2.branch-copies-trace"),
    Mutant("linear-flags-overlap", tracetab.PXD, "    GAP_LEFT = 2    # bit 2", "    GAP_LEFT = 3    # bit 2", "R2.flag-values"),
    Mutant("affine-flag-duplicate", tracetab.PXD, "    GAP_LEFT_TO_GAP_LEFT = 16   # bit 5", "    GAP_LEFT_TO_GAP_LEFT = 8    # bit 5", "R2.flag-values"),
    Mutant("dispatch-linear-cell", TT, "            if trace_value & TraceDirectionLinear.MATCH:\n                next_indices.append((i_match, j_match))",
           "            if trace_value & TraceDirectionLinear.MATCH:\n                next_indices.append((i_gap_top, j_gap_top))", "R2.linear-dispatch"),
    Mutant("dispatch-linear-flag-untested", TT, "            if trace_value & TraceDirectionLinear.GAP_LEFT:\n                next_indices.append((i_gap_left, j_gap_left))\n", "",
           "R2.linear-dispatch"),
    Mutant("loop-mask-foreign-flag", TT, "                state == TraceState.MATCH_STATE and trace_table[i,j] & (\n                    TraceDirectionAffine.MATCH_TO_MATCH |\n                    TraceDirectionAffine.GAP_LEFT_TO_MATCH |\n                    TraceDirectionAffine.GAP_TOP_TO_MATCH\n",
           "                state == TraceState.MATCH_STATE and trace_table[i,j] & (\n                    TraceDirectionAffine.MATCH_TO_MATCH |\n                    TraceDirectionAffine.MATCH_TO_GAP_LEFT |\n                    TraceDirectionAffine.GAP_TOP_TO_MATCH\n", "R2.state-mask"),
    Mutant("value-mask-drops-flag", TT, "                trace_value = trace_table[i,j] & (\n                    TraceDirectionAffine.MATCH_TO_GAP_LEFT |\n                    TraceDirectionAffine.GAP_LEFT_TO_GAP_LEFT\n                )",
           "                trace_value = trace_table[i,j] & (\n                    TraceDirectionAffine.GAP_LEFT_TO_GAP_LEFT\n                )", "R2.state-mask"),
    Mutant("band-lower-clip-off-by-one", BD, "    lower_diag = max(lower_diag, -len(seq1)+1)\n", "    lower_diag = max(lower_diag, -len(seq1))\n", "R3.band-clipping"),
    Mutant("band-not-sorted", BD, "    lower_diag, upper_diag = min(band), max(band)\n", "    lower_diag, upper_diag = band[0], band[1]\n", "R3.band-clipping"),
    Mutant("band-upper-diagonal-skipped", BD, "            min(code2.shape[0], seq_i + upper_diag+1)\n        ):\n            # Transform sequence index into table index\n",
           "            min(code2.shape[0], seq_i + upper_diag)\n        ):\n            # Transform sequence index into table index\n", "R3.band-diagonals", qualname="_fill_align_table"),
    Mutant("band-affine-unclamped", BD, "            max(0,              seq_i + lower_diag),\n            min(code2.shape[0], seq_i + upper_diag+1)\n        ):\n            j = seq_j - seq_i - lower_diag + 1\n",
           "            seq_i + lower_diag,\n            min(code2.shape[0], seq_i + upper_diag+1)\n        ):\n            j = seq_j - seq_i - lower_diag + 1\n", "R3.band-diagonals",
           qualname="_fill_align_table_affine"),
    # the linear and the affine part of follow_trace must agree, hence both sites
    Mutant("banded-top-not-shifted", TT, "                j_match, j_gap_left, j_gap_top = j  , j-1, j+1\n", "                j_match, j_gap_left, j_gap_top = j  , j-1, j\n",
           "R3.banded-stencil-values", count=2),
    Mutant("traceback-not-banded", BD, "            trace_table, True, i_start, j_start, 0,\n", "            trace_table, False, i_start, j_start, 0,\n", "R3.banded-traceback"),
    Mutant("traceback-unclipped-band", BD, "            lower_diag=lower_diag, upper_diag=upper_diag\n        )\n", "            lower_diag=min(band), upper_diag=max(band)\n        )\n",
           "R3.banded-traceback"),
    Mutant("traceback-fixed-budget", BD, "            curr_trace_count=&curr_trace_count, max_trace_count=max_number,\n", "            curr_trace_count=&curr_trace_count, max_trace_count=1000,\n",
           "R3.banded-traceback"),
    Mutant("banded-start-state-g1", BD, "                    TraceState.GAP_LEFT_STATE, dtype=int)\n", "                    TraceState.GAP_TOP_STATE, dtype=int)\n", "R3.start-states"),
    Mutant("banded-no-truncation", BD, "    trace_list = trace_list[:max_number]\n", "", "R4.max-number-truncated"),
    Mutant("gapped-score-only-last-region", LG, "    if score_only:\n        return total_score\n    else:\n        if upstream and downstream:",
           "    if score_only:\n        return score\n    else:\n        if upstream and downstream:", "R5.same-score-both-modes", qualname="align_local_gapped"),
    Mutant("region-score-only-keeps-init", LG, "        return max_score - init_score, None\n", "        return max_score, None\n", "R5.same-score-both-modes", qualname="_align_region"),
    Mutant("ungapped-seed-pair-not-scored", LU, "    total_score += score_matrix[code1[seq1_start], code2[seq2_start]]\n", "", "R5.same-score-both-modes",
           qualname="align_local_ungapped"),
    Mutant("upstream-offset-is-seed", LG, "            offset = np.array(seed) - 1\n", "            offset = np.array(seed)\n", "R5.upstream-trace-offset"),
    Mutant("upstream-not-negated", LG, "                trace[non_gap_mask] *= -1\n", "", "R5.upstream-trace-offset"),
    Mutant("uint8-reports-last-score", LU, "    score[0] = max_score\n    return i_max_score + 1", "    score[0] = total_score\n    return i_max_score + 1", "R6.sibling-results-equal"),
    Mutant("uint8-length-off-by-one", LU, "    score[0] = max_score\n    return i_max_score + 1", "    score[0] = max_score\n    return i_max_score", "R6.sibling-results-equal"),
]
