"""
C03 - symbol encoding is a bijection; sequences behave like strings.

R1  tables: complement dictionary total on the ambiguous alphabet, an
    involution, consistent with the IUPAC base sets; 1<->3 letter tables
    inverse; codon radix weights and digit extraction use the same order.
R2  range-guard polarity: a guard that rejects a code against an alphabet
    length uses >= (contradiction rule over all sibling guards).
R3  narrowing: a cast of caller codes to a narrower unsigned type is dominated
    by a range check; a lookup table is sized by the alphabet whose codes it
    stores.
R4  codec: the 256-entry C table is subscripted only by unsigned char values;
    the illegal-code sentinel is the alphabet length; decode compares >=
    before the unchecked read.
R5  Copyable contract over all Sequence subclasses; reverse(copy=True) copies.
R6  exception discipline of encode*/decode*; coupled lists in translate() are
    permuted together.
"""

import ast

from .. import copycontract
from ..astutil import call_name, calls, const_eval, dotted, names_in, param_names, stmts, walk_local
from ..cfg import CFG
from ..core import AnalysisError, Mutant
from ..exprnorm import same_expr
from ..program import ClassIndex
from ..exprnorm import has_code

EXPLANATION = (
    "Literal table evaluation (complement, 1<->3 letter), sibling comparison of range guards over "
    "alphabet.py / codec.pyx / kmeralphabet.pyx (lowered), cast-before-check dominance, typed "
    "subscripts of the codec table, Copyable contract over the Sequence hierarchy."
)
ASSUMPTIONS = [
    "IUPAC nucleotide codes as in the NC-IUB 1984 recommendation (oracle table in the checker)",
    "Sequence.code setter is documented as unchecked (is_valid() exists); its narrowing cast is a known finding",
]
MIN_OBLIGATIONS = 60

ALPH = "sequence/alphabet.py"
SEQ = "sequence/sequence.py"
TYPES = "sequence/seqtypes.py"
CODON = "sequence/codon.py"
CODEC = "sequence/codec.pyx"
KMER = "sequence/align/kmeralphabet.pyx"
COPYABLE = "copyable.py"
I3D = "structure/alphabet/i3d.py"
PB = "structure/alphabet/pb.py"

IUPAC = {
    "A": "A", "C": "C", "G": "G", "T": "T", "R": "AG", "Y": "CT", "W": "AT", "S": "CG", "M": "AC",
    "K": "GT", "H": "ACT", "B": "CGT", "V": "ACG", "D": "AGT", "N": "ACGT",
}
BASE_COMPL = {"A": "T", "C": "G", "G": "C", "T": "A"}
LENGTH_NAMES = ("alphabet_length", "alph_len", "alphabet_size")


def class_assign(cls, name):
    for st in cls.body:
        if isinstance(st, ast.Assign) and isinstance(st.targets[0], ast.Name) and st.targets[0].id == name:
            return st.value
    raise AnalysisError(f"anchor vanished: {cls.name}.{name}")


def is_length_expr(e):
    if isinstance(e, ast.Call) and call_name(e) == "len":
        return True
    if isinstance(e, ast.Name) and e.id in LENGTH_NAMES:
        return True
    return False


def complement_table_rules(ctx, R="R1"):
    """the complement table against the IUPAC definition of every ambiguity code (shared with C13: reverse-strand parts of a
    feature are read and written through complement())"""
    t = ctx.src(TYPES)
    nuc = t.cls("NucleotideSequence")
    compl = const_eval(class_assign(nuc, "compl_symbol_dict"))
    amb = const_eval(class_assign(nuc, "alphabet_amb").args[0])
    unamb = const_eval(class_assign(nuc, "alphabet_unamb").args[0])
    ctx.ob(f"{R}.alphabet-order", TYPES, "NucleotideSequence.alphabet_amb", str(amb),
           amb[:len(unamb)] == unamb == ["A", "C", "G", "T"] and sorted(amb) == sorted(IUPAC),
           "the ambiguous alphabet must extend the unambiguous one and consist of the IUPAC codes",
           nuc.lineno)
    for sym in amb:
        c = compl.get(sym)
        want = None
        if sym in IUPAC:
            target = "".join(sorted(BASE_COMPL[b] for b in IUPAC[sym]))
            want = [k for k, v in IUPAC.items() if "".join(sorted(v)) == target][0]
        ctx.ob(f"{R}.complement-iupac", TYPES, "NucleotideSequence.compl_symbol_dict", f"{sym} -> {c}",
               c is not None and c == want,
               f"the complement of {sym} ({IUPAC.get(sym)}) is {want}, the table says {c}", nuc.lineno)
        ctx.ob(f"{R}.complement-involution", TYPES, "NucleotideSequence.compl_symbol_dict", f"{sym} -> {c} -> {compl.get(c)}",
               compl.get(c) == sym, "complementing twice must restore the symbol", nuc.lineno)


_TO_CODON_REFERENCE = """
def _to_codon(numbers):
    if isinstance(numbers, Integral):
        return CodonTable._to_codon(np.array([numbers]))[0]
    if not isinstance(numbers, np.ndarray):
        numbers = np.array(list(numbers), dtype=int)
    codons = np.zeros(numbers.shape + (3,), dtype=int)
    d2 = numbers // _radix ** 2
    codons[..., -3] = d2
    numbers = numbers - d2 * _radix ** 2
    d1 = numbers // _radix ** 1
    codons[..., -2] = d1
    numbers = numbers - d1 * _radix ** 1
    d0 = numbers // _radix ** 0
    codons[..., -1] = d0
    return codons
"""
_TO_NUMBER_REFERENCE = """
def _to_number(codons):
    if not isinstance(codons, np.ndarray):
        codons = np.array(list(codons), dtype=int)
    return np.sum(_radix_multiplier * codons, axis=-1)
"""


_SEQ_ADD_REFERENCE = """
def __add__(self, sequence):
    if self.get_alphabet().extends(sequence.get_alphabet()):
        new_code = np.concatenate((self._seq_code, sequence._seq_code))
        new_seq = self.copy(new_code)
        return new_seq
    elif sequence.get_alphabet().extends(self.get_alphabet()):
        new_code = np.concatenate((self._seq_code, sequence._seq_code))
        new_seq = sequence.copy(new_code)
        return new_seq
    else:
        raise ValueError('x')
"""


def sequence_add_rule(ctx, R):
    """a + b is a NEW sequence over the concatenated codes (np.concatenate copies): a shortcut that hands one operand's code
    array on makes the sum a window into that operand (shared with C13: AnnotatedSequence[feature] is built by `+=`)"""
    from ..equiv import same_function
    f = ctx.src(SEQ).func("Sequence.__add__")
    ok, shown = same_function(f, _SEQ_ADD_REFERENCE)
    ctx.ob(R + ".sum-is-new-sequence", SEQ, "Sequence.__add__", "copy(np.concatenate((self code, other code))) of the operand with the larger alphabet", ok,
           "the sum must own its code array; the code computes " + shown, f.lineno)


def common_alphabet_rule(ctx, rule):
    """`common_alphabet(alphabets)` answers an alphabet of the list that EXTENDS every one of them (codes of each mean the same symbols
    in it), or None.  By ways through the loop: the candidate is kept only where it extends the next alphabet, replaced only by an
    alphabet that extends it (or when there is none yet), and any other way gives up"""
    from .. import machine
    f = ctx.src(ALPH).func("common_alphabet")
    lps = [st for st in f.body if isinstance(st, ast.For)]
    ctx.need(len(lps) == 1 and isinstance(lps[0].target, ast.Name), "the loop of common_alphabet")
    lp = lps[0]
    item = lp.target.id
    # the candidate is the name the function answers with
    finals = [st.value.id for st in f.body if isinstance(st, ast.Return) and isinstance(st.value, ast.Name)]
    ctx.need(len(finals) == 1 and finals[0] in machine.assigned_names(lp), "the candidate that common_alphabet returns")
    cand = finals[0]
    tracked = {cand}
    from ..exprnorm import canon as _canon
    k_none = repr(_canon(ast.parse(f"{cand} is None", mode="eval").body))
    k_keep = repr(_canon(ast.parse(f"{cand}.extends({item})", mode="eval").body))
    k_take = repr(_canon(ast.parse(f"{item}.extends({cand})", mode="eval").body))
    bad = []
    for w in machine.ways(lp.body, tracked):
        if w.exit is not None and w.exit != "return None":
            bad.append(f"leaves with `{w.exit}`")
        elif w.exit == "return None":
            continue
        elif w.updates == (f"{cand} = {item}",):
            if k_none not in w.conds and k_take not in w.conds:
                bad.append(f"takes `{item}` without `{item}.extends({cand})`")
        elif not w.updates:
            if k_keep not in w.conds:
                bad.append(f"keeps `{cand}` without `{cand}.extends({item})`")
        else:
            ctx.cannot_decide(False, f"common_alphabet: a way through the loop does {list(w.updates)} - not one of the steps this rule reads (keep, take the next alphabet, give up)")
    ctx.ob(rule, ALPH, "common_alphabet", f"kept under {cand}.extends({item}), replaced under {item}.extends({cand})", not bad,
           "a way through the loop " + "; ".join(bad) + ": the answer need not extend every alphabet of the list (codes of the others would "
           "be read as other symbols)", lp.lineno)


def run(ctx):
    common_alphabet_rule(ctx, "R3.common-alphabet-extends-all")
    sequence_add_rule(ctx, "R5")
    t = ctx.src(TYPES)
    nuc = t.cls("NucleotideSequence")
    prot = t.cls("ProteinSequence")

    # ---------------- R1 tables ---------------------------------------------
    complement_table_rules(ctx, "R1")
    amb = const_eval(class_assign(nuc, "alphabet_amb").args[0])
    unamb = const_eval(class_assign(nuc, "alphabet_unamb").args[0])
    compl = const_eval(class_assign(nuc, "compl_symbol_dict"))
    # the mapper is built from the table over the ambiguous alphabet, into the ambiguous alphabet
    body = ast.unparse(nuc)
    # the mapper is what the class body BUILDS (evaluated: classeval): AlphabetMapper(source, target) sends code i to the code of
    # source symbol i in target - source symbol i must be the complement of the i-th ambiguous symbol, target the ambiguous alphabet
    from ..classeval import evaluate_class_body, CannotEvaluate
    try:
        nenv = evaluate_class_body(nuc)
        mp = nenv.get("_compl_mapper")
    except CannotEvaluate as ex:
        nenv, mp = {}, ("?", str(ex))
    ok_mp = isinstance(mp, tuple) and len(mp) == 3 and mp[0] == "AlphabetMapper" and isinstance(mp[1], tuple) and isinstance(mp[2], tuple) \
        and mp[1][0] == mp[2][0] == "LetterAlphabet" and list(mp[2][1]) == list(amb) \
        and list(mp[1][1]) == [compl[s_] for s_ in amb]
    ctx.ob("R1.complement-mapper", TYPES, "NucleotideSequence", "_compl_mapper = AlphabetMapper(LetterAlphabet([complement of each ambiguous symbol]), alphabet_amb)",
           ok_mp, "the complement mapper must map code i to the code of the complement of symbol i; the class body builds " + str(mp)[:160],
           nuc.lineno)
    d13 = const_eval(class_assign(prot, "_dict_1to3"))
    palph = const_eval(class_assign(prot, "alphabet").args[0])
    ctx.ob("R1.letter-table-total", TYPES, "ProteinSequence._dict_1to3", f"{len(d13)} entries",
           sorted(d13) == sorted(palph), f"1->3 letter table misses {sorted(set(palph) - set(d13))}", prot.lineno)
    ctx.ob("R1.letter-table-injective", TYPES, "ProteinSequence._dict_1to3", f"{len(set(d13.values()))} distinct codes",
           len(set(d13.values())) == len(d13), "two symbols share a three-letter code: the reverse table loses one",
           prot.lineno)
    try:
        penv = evaluate_class_body(prot)
        d31 = penv.get("_dict_3to1")
    except CannotEvaluate as ex:
        d31 = None
    want31 = {v: k for k, v in d13.items()}
    ctx.ob("R1.letter-table-inverse", TYPES, "ProteinSequence._dict_3to1", "the inverse of _dict_1to3 (plus the SEC / MSE synonyms)",
           isinstance(d31, dict) and all(d31.get(k) == v for k, v in want31.items())
           and all(k in want31 or k in ("SEC", "MSE") for k in d31) and d31.get("SEC", "C") == "C" and d31.get("MSE", "M") == "M",
           "the reverse table must be the forward table read backwards; the class body builds "
           + (str(sorted(set(d31.items()) ^ set(want31.items()))[:4]) if isinstance(d31, dict) else "something that cannot be evaluated"),
           prot.lineno)
    # codon radix
    c = ctx.src(CODON)
    rm = c.module_assign("_radix_multiplier")
    exps = None
    for n in ast.walk(rm):
        if isinstance(n, ast.ListComp):
            exps = const_eval(n.generators[0].iter)
    tc = c.func("CodonTable._to_codon")
    # the digits of a codon number, most significant first: the function is compared - as a whole, through the summariser, with
    # its literal loop written out - with the computation it has to be (equiv.same_function): a second loop whose result is
    # returned instead, another digit order or a dropped remainder differ
    from ..equiv import same_function
    ok_tc, shown_tc = same_function(tc, _TO_CODON_REFERENCE)
    ctx.need(ok_tc or any(isinstance(st, ast.For) for st in stmts(tc)),
             "digit loop of CodonTable._to_codon (another way of splitting the number into digits cannot be decided here)")
    ctx.ob("R1.codon-radix", CODON, "CodonTable._to_codon", f"weights {exps}; digits number // _radix**n for n = 2, 1, 0 into codons[..., -(n + 1)]",
           tuple(exps or ()) == (2, 1, 0) and ok_tc and ast.unparse(c.module_assign("_radix")) == "len(_NUC_ALPH)",
           "the first base of a codon is the most significant digit in both directions; the code computes " + shown_tc, tc.lineno)
    # the caller's array of codon numbers is read, never changed: the remainder is a new array (`numbers = numbers - ..`),
    # not an in-place update (`numbers -= ..`, `numbers[..] = ..`)
    pnum = param_names(tc)[0]
    inplace = [x for x in ast.walk(tc) if isinstance(x, ast.AugAssign) and isinstance(x.target, ast.Name) and x.target.id == pnum
               and not getattr(x, "_rebind", False)]
    inplace += [x for x in ast.walk(tc) if isinstance(x, (ast.Subscript, ast.Attribute)) and isinstance(x.ctx, ast.Store)
                and isinstance(x.value, ast.Name) and x.value.id == pnum]
    ctx.ob("R1.codon-input-untouched", CODON, "CodonTable._to_codon", f"{pnum} is only rebound", not inplace,
           "decoding codon numbers must not overwrite the caller's array of numbers", tc.lineno)
    tn = c.func("CodonTable._to_number")
    ok_tn, shown_tn = same_function(tn, _TO_NUMBER_REFERENCE)
    ctx.ob("R1.codon-radix", CODON, "CodonTable._to_number", "np.sum(_radix_multiplier * codons, axis=-1)",
           ok_tn, "codon number = weighted digit sum over the last axis; the code computes " + shown_tn, tn.lineno)

    # ---------------- R2 range guard polarity -------------------------------
    n_g = 0
    for rel in (ALPH, CODEC, KMER, SEQ):
        src = ctx.src(rel)
        for qual, f in src.funcs.items():
            for st in walk_local(f):
                if not (isinstance(st, ast.If) and any(isinstance(b, ast.Raise) for b in st.body)):
                    continue
                for cmp_ in ast.walk(st.test):
                    if isinstance(cmp_, ast.Compare) and len(cmp_.ops) == 1 and isinstance(cmp_.ops[0], (ast.Gt, ast.GtE)) \
                            and is_length_expr(cmp_.comparators[0]):
                        left_ = cmp_.left.args[1] if isinstance(cmp_.left, ast.Call) and call_name(cmp_.left) == "__cast__" else cmp_.left
                        if "shape" in ast.unparse(left_) or "len(" in ast.unparse(left_) or ast.unparse(left_) in ("k", "self._k", "max_offset"):
                            continue  # a length compared with a length (k / the spaced window are k-mer lengths, not codes)
                        n_g += 1
                        ctx.ob("R2.range-guard-polarity", rel, qual, cmp_, isinstance(cmp_.ops[0], ast.GtE),
                               f"`{ast.unparse(cmp_)}` accepts a code equal to the alphabet length (valid codes "
                               "are 0..len-1); every sibling guard uses >=", cmp_.lineno)
    ctx.floor("range-guards", n_g, 8)

    # ---------------- R3 narrowing casts -------------------------------------
    a = ctx.src(ALPH)
    dm = a.func("LetterAlphabet.decode_multiple")
    g = CFG(dm, lambda st: isinstance(st, ast.Raise))
    dom = g.dominators()
    casts = [n for n in g.nodes if n.ast is not None and n.kind == "stmt" and isinstance(n.ast, ast.Assign)
             and any(isinstance(c_, ast.Call) and ((isinstance(c_.func, ast.Attribute) and c_.func.attr == "astype")
                                                   or (call_name(c_) in ("np.array", "np.asarray") and any(k.arg == "dtype" for k in c_.keywords)))
                     and "uint8" in ast.unparse(c_) for c_ in ast.walk(n.ast.value))]
    checks = [n for n in g.nodes if n.kind == "test" and any(isinstance(b, ast.Raise) for b in n.ast.body)
              and any(isinstance(c_, ast.Compare) and isinstance(c_.ops[0], ast.GtE) and is_length_expr(c_.comparators[0])
                      for c_ in ast.walk(n.ast.test))
              and any(isinstance(c_, ast.Compare) and isinstance(c_.ops[0], ast.Lt) for c_ in ast.walk(n.ast.test))]
    ctx.need(casts, "uint8 conversion in LetterAlphabet.decode_multiple")
    for cn in casts:
        ctx.ob("R3.cast-after-range-check", ALPH, "LetterAlphabet.decode_multiple", cn.ast,
               any(ch.id in dom.get(cn.id, set()) for ch in checks),
               "caller codes are converted to uint8 before they are range-checked: 256 wraps to 0 and decodes "
               "to the first symbol instead of raising AlphabetError", cn.line)
    s = ctx.src(SEQ)
    setter = None
    for q, f in s.funcs.items():
        if q == "Sequence.code" and any((dotted(d) or "").endswith("code.setter") for d in f.decorator_list):
            setter = f
    # funcs dict keeps the last definition of the name: find setter explicitly
    for n in s.cls("Sequence").body:
        if isinstance(n, ast.FunctionDef) and n.name == "code" and any((dotted(d) or "") == "code.setter" for d in n.decorator_list):
            setter = n
    ctx.need(setter is not None, "Sequence.code setter")
    has_check = any(isinstance(x, ast.If) and any(isinstance(b, ast.Raise) for b in x.body)
                    and any(isinstance(c_, ast.Compare) and isinstance(c_.ops[0], (ast.GtE, ast.Gt)) for c_ in ast.walk(x.test))
                    for x in ast.walk(setter))
    narrowing = [x for x in ast.walk(setter) if isinstance(x, ast.Call) and isinstance(x.func, ast.Attribute) and x.func.attr == "astype"]
    ctx.ob("R3.cast-after-range-check", SEQ, "Sequence.code.setter", narrowing[0] if narrowing else "astype",
           has_check or not narrowing,
           "the code setter converts the caller's array to the alphabet's (narrower) dtype without a range "
           "check: seq.code = np.array([256]) silently becomes code 0", setter.lineno)
    am = a.func("AlphabetMapper.__init__")
    # the table is either allocated (np.zeros(len(source), dtype=..)) and filled in a loop, or built in one expression
    # (np.array([.. for c in range(len(source))], dtype=..)): in both forms the length comes from the source alphabet
    zeros = [st.value for st in ast.walk(am) if isinstance(st, ast.Assign) and same_expr(st.targets[0], "self._mapper") and isinstance(st.value, ast.Call)
             and call_name(st.value) in ("np.zeros", "np.empty", "np.array", "np.fromiter") and st.value.args]
    ctx.need(zeros, "mapper allocation")
    dt = [k.value for k in zeros[0].keywords if k.arg == "dtype"]
    length_src = zeros[0].args[0].generators[0].iter if isinstance(zeros[0].args[0], (ast.ListComp, ast.GeneratorExp)) else zeros[0].args[0]
    ctx.ob("R3.table-dtype-from-stored-alphabet", ALPH, "AlphabetMapper.__init__", zeros[0],
           bool(dt) and "target_alphabet" in names_in(dt[0]) and "source_alphabet" not in names_in(dt[0])
           and "source_alphabet" in names_in(length_src),
           "the mapper is indexed by source codes and stores target codes: its length comes from the source "
           "alphabet, its dtype must hold the largest *target* code", zeros[0].lineno)
    ctx.ob("R3.table-dtype-from-stored-alphabet", ALPH, "AlphabetMapper.__init__", "mapper[old] = target.encode(source.decode(old))",
           mapper_through_symbol(am),
           "mapping must go through the symbol", am.lineno, nontrivial=False)
    # the identity shortcut: mapping c -> target.encode(source.decode(c)) is the identity exactly when the
    # alphabet that *encodes* extends the alphabet that *decodes* (X.extends(Y): Y's symbols are a prefix of X's)
    enc_recv = {dotted(c_.func.value) for c_ in calls(am) if isinstance(c_.func, ast.Attribute) and c_.func.attr == "encode"}
    dec_recv = {dotted(c_.func.value) for c_ in calls(am) if isinstance(c_.func, ast.Attribute) and c_.func.attr == "decode"}
    ext = [c_ for c_ in calls(am) if isinstance(c_.func, ast.Attribute) and c_.func.attr == "extends" and len(c_.args) == 1]
    ctx.need(len(ext) == 1 and len(enc_recv) == 1 and len(dec_recv) == 1, "AlphabetMapper.__init__: extends test, encode and decode receivers")
    ctx.ob("R3.mapper-identity-condition", ALPH, "AlphabetMapper.__init__", ext[0],
           {dotted(ext[0].func.value)} == enc_recv and {dotted(ext[0].args[0])} == dec_recv,
           f"codes may pass through unmapped only if the encoding alphabet ({sorted(enc_recv)[0]}) extends the decoding one "
           f"({sorted(dec_recv)[0]}); the reverse test lets codes outside the target alphabet through", ext[0].lineno)
    flag_true = [st for st in stmts(am) if isinstance(st, ast.If) and any(c_ is ext[0] for c_ in ast.walk(st.test))]
    okflag = bool(flag_true) and any(ast.unparse(b) == "self._necessary_mapping = False" for b in flag_true[0].body) \
        and not isinstance(flag_true[0].test, ast.UnaryOp)
    ctx.ob("R3.mapper-identity-condition", ALPH, "AlphabetMapper.__init__", "extends -> no mapping", okflag,
           "the shortcut is taken when the extends test is true", am.lineno)
    # dtype ladders: thresholds are the sizes of the unsigned types, compared with <=
    for rel, q in ((ALPH, "AlphabetMapper._dtype"), (SEQ, "Sequence.dtype")):
        f = ctx.src(rel).func(q)
        ladder = []
        node = next((st for st in f.body if isinstance(st, ast.If)), None)
        while node is not None:
            op = type(node.test.ops[0]).__name__
            ret = [dotted(r.value) for r in node.body if isinstance(r, ast.Return)]
            ladder.append((op, ast.unparse(node.test.comparators[0]), ret[0] if ret else None))
            node = node.orelse[0] if node.orelse and isinstance(node.orelse[0], ast.If) else None
        # decided arithmetically on the summary: the rung that returns an unsigned type of b bits accepts exactly the sizes
        # n <= 2**b (codes 0 .. n-1 fit), whatever names and offsets the code uses
        from ..exprnorm import summarize as _sm
        src_ = ctx.src(rel)
        pn = param_names(f)[-1]

        def val(e, env_):
            """integer value of a constant expression (module constants, np.iinfo(np.uintK).max)"""
            if isinstance(e, ast.Constant) and isinstance(e.value, int):
                return e.value
            if isinstance(e, ast.Name):
                if e.id in env_:
                    return val(env_[e.id], env_)
                return val(src_.module_assign(e.id), env_)
            if isinstance(e, ast.Attribute) and e.attr in ("max", "min") and isinstance(e.value, ast.Call) and call_name(e.value) == "np.iinfo":
                t_ = (dotted(e.value.args[0]) or "").split(".")[-1]
                bits = int("".join(ch for ch in t_ if ch.isdigit()))
                signed = not t_.startswith("uint")
                return (2 ** (bits - 1) - 1 if signed else 2 ** bits - 1) if e.attr == "max" else (-(2 ** (bits - 1)) if signed else 0)
            if isinstance(e, ast.BinOp) and isinstance(e.op, (ast.Add, ast.Sub, ast.Mult, ast.Pow)):
                a_, b_ = val(e.left, env_), val(e.right, env_)
                return {ast.Add: a_ + b_, ast.Sub: a_ - b_, ast.Mult: a_ * b_, ast.Pow: a_ ** b_}[type(e.op)]
            raise AnalysisError(f"anchor vanished: dtype ladder of {q} uses a non-constant bound {ast.unparse(e)}")

        def lin(e, env_):
            """(coefficient of the size parameter, constant)"""
            if isinstance(e, ast.Name) and e.id == pn:
                return 1, 0
            if isinstance(e, ast.BinOp) and isinstance(e.op, (ast.Add, ast.Sub)):
                (a1, c1), (a2, c2) = lin(e.left, env_), lin(e.right, env_)
                return (a1 + a2, c1 + c2) if isinstance(e.op, ast.Add) else (a1 - a2, c1 - c2)
            return 0, val(e, env_)
        sm_ = _sm(f)
        rungs = []
        e_ = sm_.result
        while isinstance(e_, ast.IfExp):
            t_ = e_.test
            ctx.need(isinstance(t_, ast.Compare) and len(t_.ops) == 1, f"rung test of {q}")
            (a1, c1), (a2, c2) = lin(t_.left, {}), lin(t_.comparators[0], {})
            # a1*n + c1 OP a2*n + c2   ->   n OP' bound     (only n on one side occurs in practice)
            ctx.need((a1, a2) in ((1, 0), (0, 1)), f"rung test of {q} is linear in the alphabet size")
            op = type(t_.ops[0])
            if (a1, a2) == (0, 1):
                op = {ast.Lt: ast.Gt, ast.LtE: ast.GtE, ast.Gt: ast.Lt, ast.GtE: ast.LtE}.get(op, op)
                bound = c1 - c2
            else:
                bound = c2 - c1
            max_n = bound if op is ast.LtE else bound - 1 if op is ast.Lt else None
            rungs.append((max_n, (dotted(e_.body) or "?").split(".")[-1]))
            e_ = e_.orelse
        last = (dotted(e_) or "?").split(".")[-1] if e_ is not None else "?"
        want = [(2 ** 8, "uint8"), (2 ** 16, "uint16"), (2 ** 32, "uint32")]
        ctx.ob("R3.dtype-ladder", rel, q, f"largest alphabet size per type: {rungs}, else {last}", rungs == want and last == "uint64",
               "an alphabet of n symbols has the codes 0..n-1: it fits an unsigned type of b bits exactly when n <= 2**b "
               "(257 symbols need uint16: the code 256 would wrap to 0 in uint8)", f.lineno)

    from ..lints import alphabets_compared_by_value
    for rel_ in (TYPES, SEQ, ALPH):
        alphabets_compared_by_value(ctx, rel_, "R5.alphabet-compared-by-value")
    # positions and codes arrive as NumPy integers as often as Python ints
    from ..lints import integer_tests_accept_numpy
    # the symbols a constructor is given are encoded from a list, not from a one-shot iterator that a fallback reads again
    from ..lints import iterators_consumed_once
    for rel_ in (TYPES, SEQ, ALPH, CODON):
        iterators_consumed_once(ctx, rel_, "R2.symbols-iterated-once")
    integer_tests_accept_numpy(ctx, SEQ, "R6.integer-test-accepts-numpy", 1)
    integer_tests_accept_numpy(ctx, CODON, "R6.integer-test-accepts-numpy", 2)

    # ---------------- R4 codec ------------------------------------------------
    cd = ctx.src(CODEC)
    low = cd.low
    enc = cd.func("encode_chars")
    ptypes = {p: t_ for p, t_, _ in low.funcs["encode_chars"].params}
    decl = low.decls.get("encode_chars", {})
    size = low.carrays.get(("encode_chars", "sym_to_code"))
    ctx.ob("R4.table-size", CODEC, "encode_chars", f"sym_to_code[{size}]", size == "256",
           "the lookup table must have one entry per byte value", enc.lineno)
    for n in walk_local(enc):
        if isinstance(n, ast.Subscript) and isinstance(n.value, ast.Name) and n.value.id == "sym_to_code" \
                and not isinstance(n.slice, ast.Slice):
            ix = n.slice
            ok = False
            why = ast.unparse(ix)
            if isinstance(ix, ast.Subscript) and isinstance(ix.value, ast.Name):
                ok = "unsigned char" in ptypes.get(ix.value.id, "")
            elif isinstance(ix, ast.Name):
                # loop variable over a typed unsigned char view, or declared unsigned char
                ok = "unsigned char" in decl.get(ix.id, "") or any(
                    isinstance(st, ast.For) and ix.id in names_in(st.target)
                    and any("unsigned char" in ptypes.get(nm, "") for nm in names_in(st.iter)) for st in stmts(enc))
                # the byte value is the table index, its position in the alphabet the stored code
                if ok and isinstance(n.ctx, ast.Store):
                    for st in stmts(enc):
                        if isinstance(st, ast.For) and any(x is n for x in ast.walk(st)) and same_expr(st.iter, "enumerate(alphabet)") \
                                and isinstance(st.target, ast.Tuple) and len(st.target.elts) == 2:
                            ok = ast.unparse(st.target.elts[1]) == ix.id
            ctx.ob("R4.table-index-is-byte", CODEC, "encode_chars", n, ok,
                   f"sym_to_code is subscripted by `{why}`, which is not an unsigned char: under "
                   "boundscheck(False) a larger value reads outside the 256-entry table", n.lineno)
    def local_def(f_, name):
        ds = [st.value for st in stmts(f_) if isinstance(st, ast.Assign) and any(isinstance(t_, ast.Name) and t_.id == name for t_ in st.targets)]
        return ds[0] if len(ds) == 1 else None

    fill = [st for st in stmts(enc) if isinstance(st, ast.Assign) and isinstance(st.targets[0], ast.Subscript)
            and ast.unparse(st.targets[0].value) == "sym_to_code" and isinstance(st.targets[0].slice, ast.Slice)]
    tests = [n for n in ast.walk(enc) if isinstance(n, ast.If) and any(isinstance(b, ast.Raise) for b in n.body)]
    ctx.ob("R4.sentinel", CODEC, "encode_chars", "illegal_code = alphabet.shape[0]; == illegal_code -> AlphabetError",
           same_expr(local_def(enc, "illegal_code"), "alphabet.shape[0]")
           and len(fill) == 1 and same_expr(fill[0].value, "[illegal_code] * 256")
           and any(same_expr(t_.test, "symbol_code == illegal_code") for t_ in tests)
           and same_expr(local_def(enc, "symbol_code"), "sym_to_code[symbols[i]]"),
           "every byte that is not a symbol must map to the sentinel = alphabet length", enc.lineno)
    dec = cd.func("decode_to_chars")
    g2 = CFG(dec, lambda st: isinstance(st, ast.Raise))
    dom2 = g2.dominators()
    reads = [n for n in g2.nodes if n.ast is not None and n.kind == "stmt" and isinstance(n.ast, (ast.Assign, ast.AugAssign, ast.Expr))
             and has_code(n.ast, "alphabet[symbol_code]")]
    guards = [n for n in g2.nodes if n.kind == "test" and has_code(n.ast.test, "symbol_code >= alphabet_length")
              and any(isinstance(b, ast.Raise) for b in n.ast.body)]
    ctx.need(reads, "alphabet[symbol_code] read in decode_to_chars")
    ctx.ob("R4.decode-guarded", CODEC, "decode_to_chars", "symbol_code >= alphabet_length before alphabet[symbol_code]",
           bool(guards) and all(any(gd.id in dom2.get(r.id, set()) for gd in guards) for r in reads)
           and same_expr(local_def(dec, "alphabet_length"), "alphabet.shape[0]"),
           "the unchecked read of the alphabet must be dominated by the range test", dec.lineno)

    # ---------------- R5 copy contract ---------------------------------------
    idx = ClassIndex(ctx, [COPYABLE, SEQ, TYPES, I3D, PB])
    seqs = ["GeneralSequence", "NucleotideSequence", "ProteinSequence", "PositionalSequence",
            "PurePositionalSequence", "I3DSequence", "ProteinBlocksSequence"]
    copycontract.check(ctx, idx, seqs, "R5", immutable={
        ("GeneralSequence", "_alphabet"): "alphabets are immutable once built and are shared between sequences by design",
        ("PositionalSequence", "original_sequence"): "the constructor keeps the ALPHABET of the sequence it is given (reconstruct() builds "
                                                     "a new sequence around the original's alphabet): alphabets are immutable and shared by design",
        ("PurePositionalSequence", "original_sequence"): "as for PositionalSequence"})
    cp = s.func("Sequence.copy")
    fresh = [st for st in stmts(cp) if isinstance(st, ast.Assign) and ast.unparse(st.targets[0]) == "clone.code"]
    # (if / else statements or one conditional expression: the clone gets a COPY of the code unless the caller hands in a new one)
    def copies_unless_given(v):
        return isinstance(v, ast.IfExp) and (
            same_expr(v.test, "new_seq_code is None") and copycontract.is_fresh(v.body) is True and same_expr(v.orelse, "new_seq_code")
            or same_expr(v.test, "new_seq_code is not None") and copycontract.is_fresh(v.orelse) is True and same_expr(v.body, "new_seq_code"))
    ctx.ob("R5.fresh", SEQ, "Sequence.copy", "clone.code = np.copy(self.code)",
           any(copycontract.is_fresh(st.value) is True or copies_unless_given(st.value) for st in fresh),
           "copy() must copy the sequence code", cp.lineno)
    shallow_copy_mutation(ctx, "R5.shallow-copy-mutated", [SEQ, TYPES, ALPH, CODON])
    rv = s.func("Sequence.reverse")
    under_flag = [st for st in stmts(rv) if isinstance(st, ast.If) and "copy" in names_in(st.test)]
    ok = False
    for st in under_flag:
        for b in st.body:
            if isinstance(b, ast.Assign) and isinstance(b.value, ast.Call):
                fn = call_name(b.value) or ""
                ok = fn in ("np.copy", "np.array") or fn.endswith(".copy")
    ctx.ob("R5.fresh", SEQ, "Sequence.reverse", "if copy: reversed_code = np.copy(reversed_code)", ok,
           "with copy=True the flipped view must be copied (np.copy / .copy()); np.ascontiguousarray and "
           "np.asarray return the same memory for arrays that are already contiguous", rv.lineno)

    # ---------------- R6 exception discipline, coupled lists -------------------
    for q in ("Alphabet.encode", "Alphabet.decode", "LetterAlphabet.encode", "LetterAlphabet.decode",
              "LetterAlphabet.decode_multiple"):
        f = a.func(q)
        rs = [r for r in walk_local(f) if isinstance(r, ast.Raise) and r.exc is not None]
        ctx.ob("R6.alphabet-error", ALPH, q, f"{len(rs)} raise statement(s)",
               bool(rs) and all("AlphabetError" in ast.unparse(r.exc) for r in rs),
               "invalid symbols/codes must raise AlphabetError", f.lineno)
    ae = a.func("Alphabet.encode")
    # every lookup in the symbol dictionary happens inside a try whose KeyError handler raises AlphabetError
    lookups = [n for n in ast.walk(ae) if isinstance(n, ast.Subscript) and isinstance(n.ctx, ast.Load)
               and isinstance(n.value, ast.Attribute) and n.value.attr == "_symbol_dict"]
    ctx.need(bool(lookups), "Alphabet.encode looks the symbol up in self._symbol_dict")

    def translated(node):
        for tr_ in ast.walk(ae):
            if isinstance(tr_, ast.Try) and any(x is node for b in tr_.body for x in ast.walk(b)):
                for h in tr_.handlers:
                    catches = h.type is None or any(isinstance(x, ast.Name) and x.id in ("KeyError", "LookupError", "Exception") for x in ast.walk(h.type))
                    if catches and h.body and isinstance(h.body[-1], ast.Raise) and h.body[-1].exc is not None \
                            and "AlphabetError" in ast.unparse(h.body[-1].exc):
                        return True
        return False
    ctx.ob("R6.alphabet-error", ALPH, "Alphabet.encode", "KeyError -> AlphabetError",
           all(translated(n) for n in lookups),
           "a missing dictionary key must be translated into AlphabetError: the lookup has to sit inside the try", ae.lineno)
    # decode refuses exactly the codes outside 0 .. len-1: the refusing guards of the summarised function contain `code < 0` and
    # `code >= len(self._symbols)` (in any spelling the canonical form identifies: `not 0 <= code < len(..)`, two ifs, ...)
    from ..exprnorm import summarize as _summ, canon as _canon, spec as _spec
    from ..facts import disjuncts as _disj
    for q_ in ("Alphabet.decode", "LetterAlphabet.decode"):
        ad = a.func(q_)
        pc_ = param_names(ad)[1]
        sm_ = _summ(ad)
        ds_ = set()
        if not sm_.unsupported:
            for g_ in sm_.guards:
                for d_ in _disj(g_):
                    try:
                        ds_.add(repr(_canon(d_)))
                    except Exception:
                        pass
        ctx.ob("R6.negative-code", ALPH, q_, f"refused iff {pc_} < 0 or {pc_} >= len(self._symbols)",
               repr(_spec(f"{pc_} < 0")) in ds_ and repr(_spec(f"{pc_} >= len(self._symbols)")) in ds_,
               "a negative code would index from the end of the symbol tuple (and a code equal to the length is no symbol): both bounds "
               "must be refused at exactly 0 and len", ad.lineno)
    tr = t.func("NucleotideSequence.translate")
    coupled = set()
    for st in ast.walk(tr):
        if isinstance(st, ast.For):
            apps = [dotted(c_.func.value) for b in st.body for c_ in ast.walk(b)
                    if isinstance(c_, ast.Call) and isinstance(c_.func, ast.Attribute) and c_.func.attr == "append"
                    and isinstance(b, ast.Expr)]
            if len(set(apps)) >= 2:
                coupled |= set(apps)
    if len(coupled) < 2:
        # one list of (protein, position) pairs instead of two parallel lists: the pairing holds by construction; both returned
        # lists must then be read from it through the same permutation
        pair_lists = {dotted(c_.func.value) for st in ast.walk(tr) if isinstance(st, ast.For) for b in st.body for c_ in ast.walk(b)
                      if isinstance(c_, ast.Call) and isinstance(c_.func, ast.Attribute) and c_.func.attr == "append" and isinstance(b, ast.Expr)
                      and len(c_.args) == 1 and isinstance(c_.args[0], ast.Tuple) and len(c_.args[0].elts) == 2}
        ctx.need(len(pair_lists) == 1, "coupled ORF lists in translate() (two parallel lists or one list of pairs)")
        pl = sorted(pair_lists)[0]
        order_vars = [st.targets[0].id for st in stmts(tr) if isinstance(st, ast.Assign) and isinstance(st.value, ast.Call) and call_name(st.value) == "np.argsort"]
        ctx.need(order_vars, "argsort in translate()")
        ov = order_vars[0]
        picks = [st for st in stmts(tr) if isinstance(st, ast.Assign) and isinstance(st.value, ast.ListComp) and len(st.value.generators) == 1
                 and same_expr(st.value.generators[0].iter, ov) and isinstance(st.value.generators[0].target, ast.Name)]
        comps = sorted(k for st in picks for k in (0, 1) if same_expr(st.value.elt, f"{pl}[{st.value.generators[0].target.id}][{k}]"))
        ctx.ob("R6.coupled-permutation", TYPES, "NucleotideSequence.translate", f"both lists read from {pl} through {ov}", comps == [0, 1],
               f"proteins and positions are stored pairwise in `{pl}`: both returned lists must be `[{pl}[i][k] for i in {ov}]`", tr.lineno)
        osrc = [st for st in stmts(tr) if isinstance(st, ast.Assign) and isinstance(st.targets[0], ast.Name) and st.targets[0].id == ov]
        ctx.ob("R6.coupled-permutation", TYPES, "NucleotideSequence.translate", ast.unparse(osrc[0])[:80], pl in names_in(osrc[0].value),
               "the permutation must be computed from the list it is applied to", osrc[0].lineno)
        return
    order_vars = [st.targets[0].id for st in stmts(tr) if isinstance(st, ast.Assign) and isinstance(st.value, ast.Call)
                  and call_name(st.value) == "np.argsort"]
    ctx.need(order_vars, "argsort in translate()")
    ov = order_vars[0]
    for lst in sorted(coupled):
        re_ = [st for st in stmts(tr) if isinstance(st, ast.Assign) and isinstance(st.targets[0], ast.Name) and st.targets[0].id == lst
               and not (isinstance(st.value, ast.List) and not st.value.elts)]
        ok = len(re_) == 1 and isinstance(re_[0].value, ast.ListComp) and ast.unparse(re_[0].value.elt) == f"{lst}[i]" \
            and ast.unparse(re_[0].value.generators[0].iter) == ov
        ctx.ob("R6.coupled-permutation", TYPES, "NucleotideSequence.translate", f"{lst} = [{lst}[i] for i in {ov}]", ok,
               f"the ORF lists {sorted(coupled)} are filled pairwise and must be reordered by the same permutation; "
               f"`{lst}` is reordered differently, so proteins[i] no longer belongs to positions[i]",
               re_[0].lineno if re_ else tr.lineno)
    sorts = [c_ for c_ in calls(tr) if (call_name(c_) == "sorted" and c_.args and dotted(c_.args[0]) in coupled)
             or (isinstance(c_.func, ast.Attribute) and c_.func.attr == "sort" and dotted(c_.func.value) in coupled)]
    ctx.ob("R6.coupled-permutation", TYPES, "NucleotideSequence.translate", "no independent sort of a coupled list",
           not sorts, "one of the coupled ORF lists is sorted on its own", sorts[0].lineno if sorts else tr.lineno)
    # the permutation is computed from the list it is applied to
    osrc = [st for st in stmts(tr) if isinstance(st, ast.Assign) and isinstance(st.targets[0], ast.Name) and st.targets[0].id == ov]
    ctx.ob("R6.coupled-permutation", TYPES, "NucleotideSequence.translate", ast.unparse(osrc[0]),
           bool(names_in(osrc[0].value) & coupled), "the permutation must be computed from one of the coupled lists", osrc[0].lineno)


def mapper_through_symbol(am):
    """inside `for V in range(len(source_alphabet))`: self._mapper[V] = target_alphabet.encode(source_alphabet.decode(V)),
    however many temporaries the loop body uses"""
    from ..exprnorm import summarize_block, subst
    for lp in ast.walk(am):
        if isinstance(lp, ast.For) and isinstance(lp.target, ast.Name) and same_expr(lp.iter, "range(len(source_alphabet))"):
            v = lp.target.id
            env = summarize_block(lp.body).env
            m = env.get("self")
            # the store is recorded as __setattr__/__set__ on self._mapper: look for the raw statement and substitute its value
            for st in lp.body:
                if isinstance(st, ast.Assign) and isinstance(st.targets[0], ast.Subscript) and same_expr(st.targets[0].value, "self._mapper") \
                        and same_expr(st.targets[0].slice, v):
                    pre = summarize_block(lp.body[:lp.body.index(st)]).env
                    return same_expr(subst(st.value, pre), f"target_alphabet.encode(source_alphabet.decode({v}))")
    # built in one expression: self._mapper = np.array([target.encode(source.decode(V)) for V in range(len(source))], ..)
    for st in ast.walk(am):
        if isinstance(st, ast.Assign) and same_expr(st.targets[0], "self._mapper") and isinstance(st.value, ast.Call) and st.value.args \
                and isinstance(st.value.args[0], (ast.ListComp, ast.GeneratorExp)) and len(st.value.args[0].generators) == 1:
            g_ = st.value.args[0].generators[0]
            if isinstance(g_.target, ast.Name) and not g_.ifs and same_expr(g_.iter, "range(len(source_alphabet))"):
                return same_expr(st.value.args[0].elt, f"target_alphabet.encode(source_alphabet.decode({g_.target.id}))")
    return False


_MUTATORS = {"append", "extend", "insert", "update", "sort", "fill", "remove", "pop", "clear", "add", "setdefault", "put", "resize", "itemset"}


def shallow_copy_mutation(ctx, rule, rels):
    """a local bound to `copy.copy(obj)` (or to `obj` itself) shares obj's attribute objects: writing *into*
    such an attribute (subscript store, augmented assignment, mutator call) changes obj as well"""
    n = 0

    def scan(rel, q, f):
        nonlocal n
        shallow = {}
        for st in stmts(f):
            if isinstance(st, ast.Assign) and len(st.targets) == 1 and isinstance(st.targets[0], ast.Name) and isinstance(st.value, ast.Call) \
                    and call_name(st.value) in ("copy.copy", "copy") and len(st.value.args) == 1:
                shallow[st.targets[0].id] = ast.unparse(st.value.args[0])
        for v, origin in shallow.items():
            n += 1
            bad = []
            for node in walk_local(f):
                tgt = None
                if isinstance(node, ast.Assign):
                    tgt = [t for t in node.targets if isinstance(t, ast.Subscript)]
                elif isinstance(node, ast.AugAssign):
                    tgt = [node.target]
                for t in tgt or []:
                    base = t
                    depth = 0
                    while isinstance(base, (ast.Subscript, ast.Attribute)):
                        depth += isinstance(base, ast.Attribute)
                        base = base.value
                    direct_attr_aug = isinstance(node, ast.AugAssign) and isinstance(t, ast.Attribute) and isinstance(t.value, ast.Name)
                    if isinstance(base, ast.Name) and base.id == v and depth >= 1 and (isinstance(t, ast.Subscript) or direct_attr_aug):
                        bad.append(ast.unparse(node))
                if isinstance(node, ast.Call) and isinstance(node.func, ast.Attribute) and node.func.attr in _MUTATORS:
                    b = node.func.value
                    if isinstance(b, ast.Attribute) and isinstance(b.value, ast.Name) and b.value.id == v:
                        bad.append(ast.unparse(node))
            ctx.ob(rule, rel, q, f"{v} = copy.copy({origin})", not bad,
                   f"`{v}` is a shallow copy of `{origin}`: `{bad[0] if bad else ''}` writes into an object both share, so the original changes too "
                   "(copy.deepcopy or a copy of that attribute is needed)", f.lineno)

    for rel in rels:
        src = ctx.src(rel)
        for q, f in src.funcs.items():
            scan(rel, q, f)
    # positive control: the rule must recognise the construct it forbids
    probe = ast.parse("def f(self):\n    t = copy.copy(self)\n    t._codons[1] = 2\n    return t\n").body[0]
    before = len(ctx.findings)
    scan("<control>", "f", probe)
    if len(ctx.findings) != before + 1:
        raise AnalysisError("positive control of shallow-copy-mutated failed")
    ctx.findings.pop()
    ctx.obligations.pop()
    # derived tables must start from a deep copy
    cod = ctx.src(CODON)
    for q in ("CodonTable.with_codon_mappings", "CodonTable.with_start_codons"):
        f = cod.func(q)
        src_ = [st.value for st in stmts(f) if isinstance(st, ast.Assign) and isinstance(st.value, ast.Call)
                and call_name(st.value) in ("copy.deepcopy", "copy.copy", "self.copy")]
        ret = [st.value for st in stmts(f) if isinstance(st, ast.Return)]
        ctx.ob(rule, CODON, q, "derived table starts from copy.deepcopy(self)",
               len(src_) == 1 and (call_name(src_[0]) == "copy.deepcopy" or not any(
                   isinstance(x, (ast.Subscript,)) and isinstance(x.ctx, ast.Store) for x in ast.walk(f))),
               "a table derived from another one must not share the codon array with it (the default table is a module-level singleton)", f.lineno)


MUTANTS = [
    Mutant("common-alphabet-by-length", ALPH, "        elif not common_alphabet.extends(alphabet):\n", "        elif len(alphabet) > len(common_alphabet):\n", "R3.common-alphabet-extends-all"),
    Mutant("setitem-python-int-only", SEQ, "        if isinstance(index, numbers.Integral):\n            # Expect a single symbol\n", "        if isinstance(index, int):\n            # Expect a single symbol\n",
           "R6.integer-test-accepts-numpy", "Sequence.__setitem__"),
    Mutant("regress-codon-table-int", CODON, "        elif isinstance(item, Integral):\n            # Code for amino acid", "        elif isinstance(item, int):\n            # Code for amino acid",
           "R6.integer-test-accepts-numpy", "CodonTable.__getitem__"),
    Mutant("dtype-ladder-max-code", SEQ, "        if alphabet_size <= _size_uint8:\n            return np.uint8\n        elif alphabet_size <= _size_uint16:\n",
           "        max_code = alphabet_size - 1\n        if max_code <= _size_uint8:\n            return np.uint8\n        elif max_code <= _size_uint16:\n", "R3.dtype-ladder"),
    Mutant("dtype-ladder-max-code-correct", SEQ, "        if alphabet_size <= _size_uint8:\n            return np.uint8\n        elif alphabet_size <= _size_uint16:\n",
           "        max_code = alphabet_size - 1\n        if max_code < _size_uint8:\n            return np.uint8\n        elif max_code <= _size_uint16 - 1:\n", "R3.dtype-ladder", kind="silent"),
    Mutant("codon-numbers-updated-in-place", CODON, "            numbers = numbers - digit * val\n", "            numbers -= digit * val\n", "R1.codon-input-untouched"),
    Mutant("encode-lookup-before-try", ALPH, "        try:\n            return self._symbol_dict[symbol]\n        except KeyError:",
           "        code = self._symbol_dict[symbol]\n        try:\n            return code\n        except KeyError:", "R6.alphabet-error", "Alphabet.encode"),
    Mutant("codon-table-shallow-copy", CODON, "        # Copy this table and replace the codon\n        new_table = copy.deepcopy(self)", "        # Copy this table and replace the codon\n        new_table = copy.copy(self)", "R5.shallow-copy-mutated"),
    Mutant("mapper-identity-reversed", ALPH, "if target_alphabet.extends(source_alphabet):", "if source_alphabet.extends(target_alphabet):", "R3.mapper-identity-condition"),
    Mutant("compl-m", TYPES, '"M": "K",', '"M": "M",', "R1.complement-iupac"),
    Mutant("decode-gt", ALPH, "    def decode(self, code):\n", "    def decode(self, code):\n        pass\n", "R2.range-guard-polarity") if False else
    Mutant("alphabet-decode-gt", ALPH, "        if code < 0 or code >= len(self._symbols):\n            raise AlphabetError(f\"'{code:d}' is not a valid code\")\n        return self._symbols[code]",
           "        if code < 0 or code > len(self._symbols):\n            raise AlphabetError(f\"'{code:d}' is not a valid code\")\n        return self._symbols[code]",
           "R2.range-guard-polarity"),
    Mutant("codec-decode-gt", CODEC, "if symbol_code >= alphabet_length:", "if symbol_code > alphabet_length:", "R2.range-guard-polarity"),
    Mutant("regress-decode-multiple", ALPH, "        if ((code < 0) | (code >= len(self._symbols))).any():\n            raise AlphabetError(\n                f\"'{code[(code < 0) | (code >= len(self._symbols))][0]:d}' \"\n                \"is not a valid code\"\n            )\n", "",
           "R3.cast-after-range-check"),
    Mutant("mapper-dtype-source", ALPH, "dtype=AlphabetMapper._dtype(len(target_alphabet))", "dtype=AlphabetMapper._dtype(len(source_alphabet))",
           "R3.table-dtype-from-stored-alphabet"),
    Mutant("regress-positional-copy", TYPES, "    def __copy_create__(self):\n        return PositionalSequence(self.reconstruct())\n\n", "", "R5.create-arity"),
    Mutant("general-copy-create-removed", TYPES, "    def __copy_create__(self):\n        return GeneralSequence(self._alphabet)\n\n", "", "R5.create-arity"),
    Mutant("reverse-ascontiguous", SEQ, "            reversed_code = np.copy(reversed_code)", "            reversed_code = np.ascontiguousarray(reversed_code)", "R5.fresh"),
    Mutant("translate-sorted-pos", TYPES, "            order = np.argsort([start for start, stop in pos])\n", "            pos = sorted(pos)\n            order = np.argsort([start for start, stop in pos])\n",
           "R6.coupled-permutation"),
    Mutant("dtype-ladder-lt", SEQ, "        if alphabet_size <= _size_uint8:\n            return np.uint8\n        elif alphabet_size <= _size_uint16:\n            return np.uint16\n        elif alphabet_size <= _size_uint32:\n            return np.uint32\n        else:\n            return np.uint64\n",
           "        if alphabet_size < _size_uint8:\n            return np.uint8\n        elif alphabet_size <= _size_uint16:\n            return np.uint16\n        elif alphabet_size <= _size_uint32:\n            return np.uint32\n        else:\n            return np.uint64\n",
           "R3.dtype-ladder"),
    Mutant("dict-1to3-dup", TYPES, '"B": "ASX",', '"B": "ASP",', "R1.letter-table-injective"),
    Mutant("codon-radix-order", CODON, "for n in (2, 1, 0):\n            val = _radix**n", "for n in (0, 1, 2):\n            val = _radix**n", "R1.codon-radix"),
    Mutant("repair-fuse", KMER, "if np.any(codes > len(self._base_alph)):", "if np.any(codes >= len(self._base_alph)):",
           "R2.range-guard-polarity", "KmerAlphabet.fuse", kind="repair"),
    # --- one seeded fault per remaining rule ---------------------------------
    Mutant("unamb-order-swapped", TYPES, 'alphabet_unamb = LetterAlphabet(["A", "C", "G", "T"])', 'alphabet_unamb = LetterAlphabet(["A", "C", "T", "G"])',
           "R1.alphabet-order"),
    Mutant("amb-alphabet-drops-n", TYPES, '"K", "H", "B", "V", "D", "N"]', '"K", "H", "B", "V", "D"]', "R1.alphabet-order"),
    Mutant("compl-v-not-involutive", TYPES, '        "V": "B",\n', '        "V": "D",\n', "R1.complement-involution"),
    Mutant("compl-mapper-over-unamb", TYPES, "    for _symbol in alphabet_amb.get_symbols():\n", "    for _symbol in alphabet_unamb.get_symbols():\n",
           "R1.complement-mapper"),
    Mutant("compl-mapper-identity", TYPES, "        _compl_symbols.append(compl_symbol_dict[_symbol])\n", "        _compl_symbols.append(_symbol)\n",
           "R1.complement-mapper"),
    Mutant("dict-1to3-drops-x", TYPES, '        "X": "UNK",\n', "", "R1.letter-table-total"),
    Mutant("dict-3to1-not-inverted", TYPES, "        _dict_3to1[_value] = _key\n", "        _dict_3to1[_key] = _value\n", "R1.letter-table-inverse"),
    Mutant("codec-sentinel-last-code", CODEC, "    cdef uint8 illegal_code = alphabet.shape[0]\n", "    cdef uint8 illegal_code = alphabet.shape[0] - 1\n", "R4.sentinel"),
    Mutant("codec-length-plus-one", CODEC, "    cdef int alphabet_length = alphabet.shape[0]\n", "    cdef int alphabet_length = alphabet.shape[0] + 1\n", "R4.decode-guarded"),
    Mutant("codec-table-transposed", CODEC, "    for i, symbol in enumerate(alphabet):\n        sym_to_code[symbol] = i\n", "    for i, symbol in enumerate(alphabet):\n        sym_to_code[i] = symbol\n", "R4.table-index-is-byte"),
    Mutant("codec-table-128", CODEC, "    cdef uint8 sym_to_code[256]\n", "    cdef uint8 sym_to_code[128]\n", "R4.table-size"),
    Mutant("codec-symbols-signed-char", CODEC, "                 const unsigned char[:] symbols not None):", "                 const char[:] symbols not None):",
           "R4.table-index-is-byte"),
    Mutant("codec-table-filled-with-zero", CODEC, "    sym_to_code[:] = [illegal_code] * 256\n", "    sym_to_code[:] = [0] * 256\n", "R4.sentinel"),
    Mutant("codec-sentinel-255", CODEC, "    cdef uint8 illegal_code = alphabet.shape[0]\n", "    cdef uint8 illegal_code = 255\n", "R4.sentinel"),
    Mutant("codec-decode-read-before-guard", CODEC,
           "        symbol_code = code[i]\n        if symbol_code >= alphabet_length:\n            # Local import to avoid circular imports\n            from .alphabet import AlphabetError\n            raise AlphabetError(f\"'{symbol_code:d}' is not a valid code\")\n        symbols_view[i] = alphabet[symbol_code]\n",
           "        symbol_code = code[i]\n        symbols_view[i] = alphabet[symbol_code]\n        if symbol_code >= alphabet_length:\n            # Local import to avoid circular imports\n            from .alphabet import AlphabetError\n            raise AlphabetError(f\"'{symbol_code:d}' is not a valid code\")\n",
           "R4.decode-guarded"),
    Mutant("codec-decode-guard-dropped", CODEC,
           "        if symbol_code >= alphabet_length:\n            # Local import to avoid circular imports\n            from .alphabet import AlphabetError\n            raise AlphabetError(f\"'{symbol_code:d}' is not a valid code\")\n        symbols_view[i] = alphabet[symbol_code]\n",
           "        symbols_view[i] = alphabet[symbol_code]\n",
           "R4.decode-guarded"),
    Mutant("alphabet-decode-indexerror", ALPH,
           "            raise AlphabetError(f\"'{code:d}' is not a valid code\")\n        return self._symbols[code]",
           "            raise IndexError(f\"'{code:d}' is not a valid code\")\n        return self._symbols[code]",
           "R6.alphabet-error", "Alphabet.decode"),
    Mutant("alphabet-encode-wrong-except", ALPH, "        except KeyError:\n            raise AlphabetError(f\"Symbol {repr(symbol)} is not in the alphabet\")",
           "        except IndexError:\n            raise AlphabetError(f\"Symbol {repr(symbol)} is not in the alphabet\")",
           "R6.alphabet-error", "Alphabet.encode"),
    Mutant("alphabet-decode-no-negative-test", ALPH, "        if code < 0 or code >= len(self._symbols):\n            raise AlphabetError(f\"'{code:d}' is not a valid code\")\n        return self._symbols[code]",
           "        if code >= len(self._symbols):\n            raise AlphabetError(f\"'{code:d}' is not a valid code\")\n        return self._symbols[code]",
           "R6.negative-code"),
]
