"""
C16 - superimposition (the clauses visible in the code's shape).

R1  AffineTransformation.apply and .as_matrix describe the same map: the
    order of operations in apply (translate, rotate, translate) is the reverse
    of the matrix product in as_matrix, each 4x4 factor is an identity with
    the matching attribute in the rotation block / translation column, and
    the column-vector convention of _multi_matmul matches the translation
    column.  Rank dispatch of _reshape_to_3d, model-count guard, copy before
    in-place arithmetic, original shape restored.
R2  role provenance: every variable named fixed*/mobile* (fix*/mob*) derives
    from the parameter of that role only; every call passes fixed-derived
    values to fixed parameters and mobile-derived to mobile parameters; the
    transformation is built as (-mobile centroid, rotation, +fixed centroid)
    and applied to the mobile structure; both structures get the same mask.
R3  Kabsch step: covariance rows index the fixed, columns the mobile
    coordinates; rotation = V W from svd(cov); reflection correction (flip of
    the last singular direction where det(V) det(W) < 0) dominates the product.
R4  outlier variant: the anchors returned are the mask the returned transform
    was fitted on; masks mutated in place are copies; threshold form.
R5  homolog variant: column 0 of the anchor pairs selects fixed indices,
    column 1 mobile ones, offsets accumulate per role; kwargs forwarded.
R6  rmsd is sqrt(mean(|subject - reference|^2, atom axis)).
NOT decided: optimality of the SVD solution and float32 accuracy as value
statements; quality guarantees of the outlier/homolog heuristics.
"""

import ast

from ..astutil import NotConst, call_name, calls, const_eval, names_in, param_names, stmts, walk_local
from ..cfg import CFG
from ..core import AnalysisError, Mutant
from .. import alias as _alias
from ..exprnorm import canon, check_spec, contains_expr, same_expr, show, spec, summarize, summarize_block
from .C15 import assigns, dead_params, ret_expr, single_def

EXPLANATION = (
    "Operation-order agreement between apply() and the as_matrix() product, block placement in the "
    "4x4 factors, role-provenance dataflow (fixed/mobile) over every function of superimpose.py, "
    "Kabsch covariance orientation and dominance of the reflection correction, anchor/transform "
    "consistency of the outlier loop, column roles of anchor pairs, rmsd definition."
)
ASSUMPTIONS = [
    "numpy.linalg.svd returns (U, S, Vh) with cov = U diag(S) Vh",
    "the first sequence passed to align_optimal is column 0 of the trace",
]
MIN_OBLIGATIONS = 60

SUP = "structure/superimpose.py"
TM = "structure/tm.py"
CMP = "structure/compare.py"


def role(name):
    toks = set(name.lower().split("_"))
    f = bool(toks & {"fix", "fixed"})
    m = bool(toks & {"mob", "mobile"})
    if f and not m:
        return "F"
    if m and not f:
        return "M"
    return None


def expr_roles(e, env):
    """roles an expression's *data* derives from; subscript indices select, they do not contribute"""
    if e is None:
        return set()
    if isinstance(e, ast.Name):
        return set(env.get(e.id, set()))
    if isinstance(e, ast.Subscript):
        return expr_roles(e.value, env)
    if isinstance(e, ast.Constant):
        return set()
    out = set()
    for ch in ast.iter_child_nodes(e):
        if isinstance(ch, ast.expr):
            out |= expr_roles(ch, env)
        elif isinstance(ch, ast.keyword):
            out |= expr_roles(ch.value, env)
    return out


def role_env(func):
    env = {p: {role(p)} for p in param_names(func) if role(p)}
    changed = True

    def put(name, rs):
        nonlocal changed
        cur = env.setdefault(name, set())
        if not rs <= cur:
            cur |= rs
            changed = True

    def bind(t, rs):
        if isinstance(t, ast.Name):
            put(t.id, rs)
        elif isinstance(t, (ast.Tuple, ast.List)):
            for x in t.elts:
                bind(x, rs)
        elif isinstance(t, ast.Starred):
            bind(t.value, rs)
        elif isinstance(t, ast.Subscript) and isinstance(t.value, ast.Name):
            put(t.value.id, rs)

    guard = 0
    while changed:
        changed = False
        guard += 1
        if guard > 50:
            raise AnalysisError("role dataflow does not converge")
        for st in stmts(func):
            if isinstance(st, ast.Assign):
                for t in st.targets:
                    if isinstance(t, ast.Tuple) and isinstance(st.value, ast.Tuple) and len(t.elts) == len(st.value.elts):
                        for a, b in zip(t.elts, st.value.elts):
                            bind(a, expr_roles(b, env))
                    else:
                        bind(t, expr_roles(st.value, env))
            elif isinstance(st, ast.AugAssign):
                bind(st.target, expr_roles(st.value, env))
            elif isinstance(st, ast.For):
                it = st.iter
                if isinstance(st.target, ast.Tuple) and isinstance(it, ast.Call) and call_name(it) == "zip" \
                        and len(it.args) == len(st.target.elts):
                    for a, b in zip(st.target.elts, it.args):
                        bind(a, expr_roles(b, env))
                else:
                    bind(st.target, expr_roles(it, env))
    return env


def run(ctx):
    s = ctx.src(SUP)
    r1_transform(ctx, s)
    r2_roles(ctx, s)
    r3_kabsch(ctx, s)
    r4_outliers(ctx, s)
    r5_homologs(ctx, s)
    r6_rmsd(ctx)
    dead_params(ctx, "R2.param-used", [SUP], 14)


# ---------------- R1 ---------------------------------------------------------

def _self_attr(e):
    return e.attr if isinstance(e, ast.Attribute) and isinstance(e.value, ast.Name) and e.value.id == "self" else None


def apply_ops(e, data_names):
    """operations applied to the coordinates, innermost first, read off the
    nesting of the summarised result expression"""
    def has_data(x):
        return any(isinstance(n, ast.Name) and n.id in data_names for n in ast.walk(x))

    if isinstance(e, ast.IfExp):
        a, b = apply_ops(e.body, data_names), apply_ops(e.orelse, data_names)
        return a if a == b else [("?branches-differ", None)]
    if isinstance(e, ast.BinOp) and isinstance(e.op, (ast.Add, ast.Sub)):
        l, r = e.left, e.right
        for data, other in ((l, r), (r, l)):
            attrs = [_self_attr(n) for n in ast.walk(other) if _self_attr(n)]
            if has_data(data) and attrs and not has_data(other):
                kind = "translate" if isinstance(e.op, ast.Add) else ("translate-negated" if data is l else "?")
                return apply_ops(data, data_names) + [(kind, attrs[0])]
    if isinstance(e, ast.Call):
        cn = call_name(e)
        if cn == "_multi_matmul" and len(e.args) == 2:
            a = _self_attr(e.args[0])
            return apply_ops(e.args[1], data_names) + [("rotate" if a else "?rotate-arg", a)]
        if cn == "__setattr__":
            return apply_ops(e.args[2], data_names)
        if isinstance(e.func, ast.Attribute) and has_data(e.func.value):
            return apply_ops(e.func.value, data_names)
        for a in e.args:
            if has_data(a):
                return apply_ops(a, data_names)
    if isinstance(e, (ast.Subscript, ast.Attribute)) and has_data(e.value):
        return apply_ops(e.value, data_names)
    return []


def r1_transform(ctx, s):
    ap = s.func("AffineTransformation.apply")
    sm = summarize(ap)
    ctx.need(sm.result is not None, "apply: summarisable result")
    ops = apply_ops(sm.result, {"atoms"})
    ctx.ob("R1.apply-sequence", SUP, "AffineTransformation.apply", str(ops),
           ops == [("translate", "center_translation"), ("rotate", "rotation"), ("translate", "target_translation")],
           "apply is: add center_translation, rotate, add target_translation", ap.lineno)
    am = s.func("AffineTransformation.as_matrix")
    sa_ = summarize(am)
    ctx.need(sa_.result is not None, "as_matrix: summarisable result")
    cr = canon(sa_.result)
    ctx.need(isinstance(cr, tuple) and cr[0] == "@" and len(cr) == 4, "as_matrix: product of three factors")
    factor_attr = []
    for fac in cr[1:]:
        okf = isinstance(fac, tuple) and fac[:2] == ("call", "__set__") and len(fac) >= 5
        ctx.need(okf, "as_matrix: each factor is an identity with one block assigned")
        init, idx, val = fac[2], fac[3], fac[4]
        attr = val[2] if isinstance(val, tuple) and val[:2] == ("attr", "self") else None
        factor_attr.append(attr)
        block = idx[2] if isinstance(idx, tuple) and idx[0] == "[]" else None
        rows = ("slice", None, ("const", 3), None)
        allm = ("slice", None, None, None)
        want = ("tuple", allm, rows, rows) if attr == "rotation" else ("tuple", allm, rows, ("const", 3))
        ctx.ob("R1.matrix-block", SUP, "AffineTransformation.as_matrix", f"self.{attr} -> block {show(block, 90)}", block == want,
               f"{attr} belongs into block {'[:, :3, :3]' if attr == 'rotation' else '[:, :3, 3]'} of a homogeneous 4x4 matrix acting on column vectors",
               am.lineno)
        okid = isinstance(init, tuple) and init[:2] == ("call", "_3d_identity") and init[3] == ("const", 4)
        ctx.ob("R1.matrix-identity", SUP, "AffineTransformation.as_matrix", f"factor of self.{attr} starts as {show(init, 80)}", okid,
               "every factor starts as a 4x4 identity per model", am.lineno)
    ctx.ob("R1.matrix-order", SUP, "AffineTransformation.as_matrix", " @ ".join(str(a) for a in factor_attr),
           factor_attr == [a for _, a in reversed(ops)],
           f"the product must list the operations of apply() right to left: apply does {[a for _, a in ops]}", am.lineno)
    check_spec(ctx, "R1.identity-helper", SUP, "_3d_identity",
               "__set__(np.zeros((m, n, n), dtype=float), __idx__[:, np.arange(n), np.arange(n)], 1)", "m identity matrices of size n")
    check_spec(ctx, "R1.column-convention", SUP, "_multi_matmul",
               "np.transpose(matrices @ np.transpose(vectors, axes=(0, 2, 1)), axes=(0, 2, 1))",
               "coordinates are rotated as R @ x per model (column vectors), the convention as_matrix uses")
    # rank dispatch
    r3 = s.func("_reshape_to_3d")
    tests = {}
    for st in stmts(r3):
        if isinstance(st, ast.If) and isinstance(st.test, ast.Compare) and ast.unparse(st.test.left) == "coord.ndim":
            body = st.body[0]
            tests[ast.unparse(st.test)] = ast.unparse(body.value) if isinstance(body, ast.Return) else ("raise" if isinstance(body, ast.Raise) else "?")
            if st.orelse and not isinstance(st.orelse[0], ast.If):
                tests["else"] = "raise" if isinstance(st.orelse[0], ast.Raise) else "?"
    ctx.ob("R1.rank-dispatch", SUP, "_reshape_to_3d", str(sorted(tests.items())),
           tests == {"coord.ndim < 2": "raise", "coord.ndim == 2": "coord[np.newaxis, ...]", "coord.ndim == 3": "coord", "else": "raise"},
           "(n,3) is lifted to one model, (m,n,3) kept, everything else refused", r3.lineno)
    # apply: guard, copy, reshape back
    cfg = CFG(ap)
    dom = cfg.dominators()
    guard = [n for n in cfg.nodes if n.kind == "test" and isinstance(n.ast, ast.If)
             and same_expr(n.ast.test, "mobile_coord.shape[0] != self.rotation.shape[0]")
             and any(isinstance(b, ast.Raise) for b in n.ast.body)]
    rotn = [n for n in cfg.nodes if n.kind == "stmt" and isinstance(n.ast, ast.Assign) and "_multi_matmul" in ast.unparse(n.ast)]
    ctx.need(len(rotn) == 1, "apply: rotation statement")
    ctx.ob("R1.model-count-guard", SUP, "AffineTransformation.apply", "shape[0] mismatch -> IndexError",
           len(guard) == 1 and guard[0].id in dom[rotn[0].id],
           "m transformations applied to k != m models must be refused (numpy would broadcast or fail obscurely)", ap.lineno)
    d = assigns(ap)
    first = d.get("superimposed_coord", [None])[0]
    ctx.ob("R1.apply-copy", SUP, "AffineTransformation.apply", "superimposed_coord = mobile_coord.copy()",
           first is not None and ast.unparse(first) == "mobile_coord.copy()",
           "the in-place translation must not reach the caller's coordinates", ap.lineno)
    # read off the composed result: the outermost operation on the coordinates is .reshape(<shape of the input coordinates>)
    res_ = sm.result.body if isinstance(sm.result, ast.IfExp) else sm.result
    ctx.ob("R1.apply-shape", SUP, "AffineTransformation.apply", "reshape(coord(atoms).shape)",
           isinstance(res_, ast.Call) and isinstance(res_.func, ast.Attribute) and res_.func.attr == "reshape" and len(res_.args) == 1
           and same_expr(res_.args[0], "coord(atoms).shape"),
           "the result has the shape of the input", ap.lineno)
    rets = [st for st in stmts(ap) if isinstance(st, ast.Return)]
    okr = sorted(ast.unparse(r.value) for r in rets) == ["superimposed", "superimposed_coord"] \
        and "superimposed.coord = superimposed_coord" in [ast.unparse(x) for x in stmts(ap)] \
        and ast.unparse(single_def(ap, "superimposed")) == "atoms.copy()"
    ctx.ob("R1.apply-return", SUP, "AffineTransformation.apply", "ndarray -> coordinates, structure -> copy with coord", okr,
           "structures are returned as copies carrying the transformed coordinates", ap.lineno)
    # constructor
    init = s.func("AffineTransformation.__init__")
    got = {ast.unparse(st.targets[0]): ast.unparse(st.value) for st in stmts(init) if isinstance(st, ast.Assign)
           and ast.unparse(st.targets[0]).startswith("self.")}
    ctx.ob("R1.init-dims", SUP, "AffineTransformation.__init__", str(sorted(got.items())),
           got == {"self.center_translation": "_expand_dims(center_translation, 2)", "self.rotation": "_expand_dims(rotation, 3)",
                   "self.target_translation": "_expand_dims(target_translation, 2)"},
           "each attribute is stored from its own argument with a leading model axis", init.lineno)
    for attr, tail in (("center_translation", "[:, np.newaxis, :]"), ("target_translation", "[:, np.newaxis, :]")):
        uses = [ast.unparse(n) for n in ast.walk(ap) if isinstance(n, ast.Subscript) and ast.unparse(n.value) == "self." + attr]
        ctx.ob("R1.per-model-broadcast", SUP, "AffineTransformation.apply", f"self.{attr}{tail}", uses == [f"self.{attr}{tail}"],
               "translation m acts on all atoms of model m (broadcast over the atom axis)", ap.lineno)


# ---------------- R2 ---------------------------------------------------------

def r2_roles(ctx, s):
    role_funcs = {}
    for q, f in s.funcs.items():
        if "." in q:
            continue
        ps = param_names(f)
        if any(role(p) for p in ps):
            role_funcs[q] = ps
    n_var = n_call = 0
    for q, f in s.funcs.items():
        if q not in role_funcs:
            continue
        env = role_env(f)
        for v, rs in sorted(env.items()):
            r = role(v)
            if r is None or v in role_funcs[q]:
                continue
            n_var += 1
            ctx.ob("R2.role-provenance", SUP, q, v, rs == {r},
                   f"`{v}` is named as {'fixed' if r == 'F' else 'mobile'} data but derives from {sorted(rs) or 'nothing'}", f.lineno)
        for c in calls(f):
            cn = call_name(c)
            if cn in role_funcs:
                ps = role_funcs[cn]
                for i, a in enumerate(c.args):
                    if isinstance(a, ast.Starred) or i >= len(ps):
                        break
                    r = role(ps[i])
                    if r is None:
                        continue
                    n_call += 1
                    rs = expr_roles(a, env)
                    ctx.ob("R2.role-argument", SUP, q, f"{cn}(#{i} {ps[i]} = {ast.unparse(a)})", rs == {r},
                           f"parameter `{ps[i]}` of {cn} receives data derived from {sorted(rs)}", c.lineno)
                for k in c.keywords:
                    if k.arg and role(k.arg):
                        n_call += 1
                        rs = expr_roles(k.value, env)
                        ctx.ob("R2.role-argument", SUP, q, f"{cn}({k.arg}={ast.unparse(k.value)})", rs == {role(k.arg)},
                               f"parameter `{k.arg}` of {cn} receives data derived from {sorted(rs)}", c.lineno)
            if cn == "align_optimal" and len(c.args) >= 2:
                n_call += 1
                rs = [expr_roles(a, env) for a in c.args[:2]]
                ctx.ob("R2.role-argument", SUP, q, f"align_optimal({ast.unparse(c.args[0])}, {ast.unparse(c.args[1])})", rs == [{"F"}, {"M"}],
                       "the fixed sequence must be the first aligned sequence: anchor column 0 is used for the fixed structure", c.lineno)
            if isinstance(c.func, ast.Attribute) and c.func.attr == "apply" and isinstance(c.func.value, ast.Name) and c.func.value.id == "transform":
                n_call += 1
                rs = expr_roles(c.args[0], env) if c.args else set()
                ctx.ob("R2.apply-mobile", SUP, q, ast.unparse(c), rs == {"M"},
                       "the fitted transformation is applied to the mobile structure", c.lineno)
    ctx.floor("R2.role-provenance", n_var, 20)
    ctx.floor("R2.role-argument", n_call, 10)
    # superimpose specifics
    f = s.func("superimpose")
    env = role_env(f)
    tr = single_def(f, "transform")
    ctx.need(isinstance(tr, ast.Call) and call_name(tr) == "AffineTransformation" and len(tr.args) == 3, "superimpose: AffineTransformation(...)")
    a0, a1, a2 = tr.args
    d = assigns(f)

    def is_centroid(name):
        v = d.get(name, [None])[0]
        return isinstance(v, ast.Call) and call_name(v) == "centroid"

    ok0 = isinstance(a0, ast.UnaryOp) and isinstance(a0.op, ast.USub) and isinstance(a0.operand, ast.Name) \
        and expr_roles(a0, env) == {"M"} and is_centroid(a0.operand.id)
    ok2 = isinstance(a2, ast.Name) and expr_roles(a2, env) == {"F"} and is_centroid(a2.id)
    ctx.ob("R2.center-translation", SUP, "superimpose", ast.unparse(a0), ok0,
           "the first translation moves the mobile centroid to the origin: minus the mobile centroid", tr.lineno)
    ctx.ob("R2.target-translation", SUP, "superimpose", ast.unparse(a2), ok2,
           "the second translation moves the origin to the fixed centroid: plus the fixed centroid", tr.lineno)
    ctx.ob("R2.rotation-source", SUP, "superimpose", ast.unparse(a1),
           isinstance(a1, ast.Name) and call_name(d.get(a1.id, [ast.Constant(0)])[0]) == "_get_rotation_matrices" if isinstance(a1, ast.Name) and isinstance(d.get(a1.id, [None])[0], ast.Call) else False,
           "the rotation is the Kabsch rotation of the centred, masked coordinates", tr.lineno)
    # the whole function, composed symbolically (robust to renaming/temporaries)
    MF = "(_reshape_to_3d(coord(mobile))[:, atom_mask, :] if atom_mask is not None else np.copy(_reshape_to_3d(coord(mobile))))"
    FF = "(_reshape_to_3d(coord(fixed))[:, atom_mask, :] if atom_mask is not None else np.copy(_reshape_to_3d(coord(fixed))))"
    T = (f"AffineTransformation(-centroid({MF}), _get_rotation_matrices({FF} - centroid({FF})[:, np.newaxis, :], "
         f"{MF} - centroid({MF})[:, np.newaxis, :]), centroid({FF}))")
    check_spec(ctx, "R2.superimpose-composition", SUP, "superimpose", f"({T}.apply(mobile), {T})",
               "both structures are lifted to 3-D, masked by the same atom mask, centred on the centroid of their own masked atoms; "
               "T = (-mobile centroid, Kabsch(fixed centred, mobile centred), +fixed centroid); returns (T.apply(mobile), T)")


# ---------------- R3 ---------------------------------------------------------

def r3_kabsch(ctx, s):
    """read off the composed result expression of _get_rotation_matrices:  A @ B  with A, B built from one SVD"""
    f = s.func("_get_rotation_matrices")
    ctx.need(param_names(f) == ["fixed", "mobile"], "_get_rotation_matrices(fixed, mobile)")
    sm = summarize(f)
    res = sm.result
    ctx.need(res is not None, "_get_rotation_matrices: summarisable result")
    if isinstance(res, ast.Call) and call_name(res) == "np.matmul" and len(res.args) == 2:
        a, b = res.args
    elif isinstance(res, ast.BinOp) and isinstance(res.op, ast.MatMult):
        a, b = res.left, res.right
    else:
        ctx.ob("R3.product", SUP, f.name, ast.unparse(res)[:80], False, "rotation = U @ Vh: the result is not a product of two factors", f.lineno)
        return

    def strip_set(e):
        """(base, [(index expr, value expr)]) of nested __set__(base, __idx__[..], value)"""
        sets = []
        while isinstance(e, ast.Call) and call_name(e) == "__set__" and len(e.args) == 3:
            sets.append((e.args[1], e.args[2]))
            e = e.args[0]
        return e, sets

    ab, asets = strip_set(a)
    bb, bsets = strip_set(b)

    def svd_item(e):
        if isinstance(e, ast.Call) and call_name(e) == "__item__" and len(e.args) == 2 and isinstance(e.args[0], ast.Call) \
                and call_name(e.args[0]) == "np.linalg.svd" and isinstance(e.args[1], ast.Constant):
            return e.args[0], e.args[1].value
        return None, None

    sa_, ia = svd_item(ab)
    sb_, ib = svd_item(bb)
    ctx.ob("R3.product", SUP, f.name, f"item {ia} @ item {ib} of the SVD", sa_ is not None and sb_ is not None and ast.dump(sa_) == ast.dump(sb_)
           and (ia, ib) == (0, 2), "rotation = U @ Vh (first and third SVD output, in this order)", f.lineno)
    svd = sa_ if sa_ is not None else sb_
    ctx.need(svd is not None, "np.linalg.svd in the rotation")
    ctx.ob("R3.svd-input", SUP, f.name, ast.unparse(svd)[:90], len(svd.args) == 1 and not svd.keywords, "the SVD of the covariance (batched, full matrices)", f.lineno)
    cov = svd.args[0]
    ctx.ob("R3.covariance", SUP, f.name, ast.unparse(cov), same_expr(cov, "np.sum(fixed[:, :, :, np.newaxis] * mobile[:, :, np.newaxis, :], axis=1)"),
           "cov[m, i, j] = sum over atoms of fixed_i * mobile_j: with R = U Vh this orientation maps mobile onto fixed "
           "(the transposed covariance yields the inverse rotation)", f.lineno)
    U, VH = f"__item__({ast.unparse(svd)}, 0)", f"__item__({ast.unparse(svd)}, 2)"
    test = f"np.linalg.det({U}) * np.linalg.det({VH}) < 0"
    sets = [("U", i_, v_) for i_, v_ in asets] + [("Vh", i_, v_) for i_, v_ in bsets]
    okt = okf = False
    con = "no reflection correction"
    for which, idx, val in sets:
        con = f"{which}{ast.unparse(idx)[7:]} = ..."
        ctx.need(isinstance(idx, ast.Subscript) and isinstance(idx.slice, ast.Tuple) and len(idx.slice.elts) == 3, "three-axis index of the correction")
        m_, r_, c_ = idx.slice.elts
        okt = same_expr(m_, test)
        base = U if which == "U" else VH
        want_idx = (":", "-1") if which == "U" else ("-1", ":")
        okf = (ast.unparse(r_), ast.unparse(c_)) == want_idx and same_expr(val, f"{base}[{ast.unparse(m_)}, {want_idx[0]}, {want_idx[1]}] * -1")
        if not okt and ast.unparse(m_) == ":":
            # the same correction for all models at once: the last column (row) times -1 where improper and times 1 elsewhere
            for one_ in ("1", "1.0"):
                for neg_ in ("-1", "-1.0"):
                    factor_ = f"np.where({test}, {neg_}, {one_})[:, np.newaxis]"
                    if (ast.unparse(r_), ast.unparse(c_)) == want_idx and same_expr(val, f"{base}[:, {want_idx[0]}, {want_idx[1]}] * {factor_}"):
                        okt = okf = True
    ctx.ob("R3.reflection-test", SUP, f.name, "det(U) * det(Vh) < 0", okt and len(sets) == 1,
           "an improper solution is recognised by the sign of det(U) det(Vh)", f.lineno)
    ctx.ob("R3.reflection-fix", SUP, f.name, con, okf and len(sets) == 1,
           "where the solution is improper, the direction of the smallest singular value (last column of U / last row of Vh) "
           "is negated before the product: the result is the optimal proper rotation", f.lineno)


# ---------------- R4 ---------------------------------------------------------

def r4_outliers(ctx, s):
    f = s.func("superimpose_without_outliers")
    loop = next((st for st in f.body if isinstance(st, ast.For)), None)
    ctx.need(loop is not None, "outlier loop")
    body = [ast.unparse(st) for st in loop.body]
    sup = [st for st in loop.body if isinstance(st, ast.Assign) and isinstance(st.value, ast.Call) and call_name(st.value) == "superimpose"]
    ctx.need(len(sup) == 1, "superimpose call in loop")
    args = [a.id for a in sup[0].value.args if isinstance(a, ast.Name)]
    d = {}
    for st in loop.body:
        if isinstance(st, ast.Assign) and isinstance(st.targets[0], ast.Name):
            d[st.targets[0].id] = st.value
    fit_masks = set()
    for a in args:
        v = d.get(a)
        if isinstance(v, ast.Subscript) and isinstance(v.slice, ast.Tuple):
            fit_masks.add(ast.unparse(v.slice.elts[-2]))
    after = [st for st in f.body[f.body.index(loop) + 1:]]
    anchors = next((st.value for st in after if isinstance(st, ast.Assign) and ast.unparse(st.targets[0]) == "anchor_indices"), None)
    ctx.need(anchors is not None, "anchor_indices after loop")
    am = ast.unparse(anchors.value.args[0]) if isinstance(anchors, ast.Subscript) and isinstance(anchors.value, ast.Call) and anchors.value.args else None
    ctx.ob("R4.anchor-mask", SUP, f.name, f"fit on {sorted(fit_masks)}, anchors from {am}", len(fit_masks) == 1 and am in fit_masks,
           "the reported anchors must be the atoms the returned transformation was fitted on", f.lineno)
    # the fit mask is not reassigned/mutated after the fit inside the loop
    m = next(iter(fit_masks)) if fit_masks else None
    idx = loop.body.index(sup[0])
    later_writes = [ast.unparse(st) for st in loop.body[idx + 1:] for n in ast.walk(st)
                    if isinstance(n, (ast.Assign, ast.AugAssign)) and any(
                        (isinstance(t, ast.Name) and t.id == m) or (isinstance(t, ast.Subscript) and ast.unparse(t.value) == m)
                        for t in (n.targets if isinstance(n, ast.Assign) else [n.target]))]
    ctx.ob("R4.mask-stable", SUP, f.name, f"writes to {m} after the fit: {later_writes}", not later_writes,
           "the mask the fit used must stay unchanged until it is reported", f.lineno)
    # in-place mutated masks are copies
    for st in loop.body:
        if isinstance(st, ast.Assign) and isinstance(st.targets[0], ast.Subscript) and isinstance(st.targets[0].value, ast.Name):
            nm = st.targets[0].value.id
            src = d.get(nm)
            ctx.ob("R4.mask-copy", SUP, f.name, f"{nm} = {ast.unparse(src) if src is not None else '?'}",
                   src is not None and not _alias.roots(src),       # .copy(), np.zeros_like(..), np.array(..): a new array (alias.roots)
                   "a mask updated in place must be a copy, otherwise the mask the fit used changes with it", st.lineno)
    carry = [k for k, st in enumerate(loop.body) if m and ast.unparse(st) == f"{m} = updated_{m}"]
    ctx.ob("R4.loop-carry", SUP, f.name, "inlier_mask = updated_inlier_mask", len(carry) == 1 and carry[0] < idx,
           "each iteration fits on the mask produced by the previous one", loop.lineno)
    # one iteration composed symbolically (break tests dropped): what is written into the updated mask
    it = summarize_block(loop.body, skip=lambda st: isinstance(st, ast.If) and any(isinstance(b, ast.Break) for b in st.body))
    upd = it.env.get(f"updated_{m}") if m else None
    ctx.need(isinstance(upd, ast.Call) and call_name(upd) == "__set__" and len(upd.args) == 3, "in-place update of the inlier mask in the loop")
    written = upd.args[2]
    M = m or "inlier_mask"
    FIX, MOB = f"fixed_coord[..., updated_{M}, :]", f"mobile_coord[..., updated_{M}, :]"
    D = f"distance({FIX}, __item__(superimpose({FIX}, {MOB}), 0)) ** 2"
    S = f"(np.mean({D}, axis=0) if ({D}).ndim == 2 else {D})"
    Q = f"np.quantile({S}, quantiles)"
    ctx.ob("R4.distance-pair", SUP, f.name, "squared distance of fixed anchors to the fitted mobile anchors (mean over models)",
           contains_expr(written, S) or contains_expr(written, D),
           "outliers are judged by the squared distance between the fixed anchors and the mobile anchors fitted on the current mask", loop.lineno)
    ctx.ob("R4.threshold", SUP, f.name, "sq_dist <= upper_quantile + outlier_threshold * (upper_quantile - lower_quantile)",
           same_expr(written, f"{S} <= __item__({Q}, 1) + outlier_threshold * (__item__({Q}, 1) - __item__({Q}, 0))"),
           "kept: sq_dist <= upper quantile + threshold * inter-percentile range; the loop writes " + ast.unparse(written)[:160], loop.lineno)
    ret = ret_expr(f)
    ctx.ob("R4.return", SUP, f.name, ast.unparse(ret), ast.unparse(ret) == "(transform.apply(mobile), transform, anchor_indices)",
           "the full mobile structure is transformed with the last fitted transformation", f.lineno)
    g = next((st for st in f.body if isinstance(st, ast.If) and "max_iterations" in ast.unparse(st.test)), None)
    ctx.ob("R4.iterations-guard", SUP, f.name, "max_iterations < 1 -> ValueError",
           g is not None and ast.unparse(g.test) == "max_iterations < 1" and isinstance(g.body[0], ast.Raise),
           "with zero iterations no transformation exists", f.lineno)


# ---------------- R5 ---------------------------------------------------------

def anchor_column_roles(ctx, rel, f, anchor_names):
    """every `<expression of one structure>[anchors[:, k]]`: k = 0 selects from the fixed, k = 1 from the mobile structure.  The
    indexed expression may be a name (`fixed_anchor_indices`) or built from one (`np.where(mobile.atom_name == "CA")[0]`): its
    role is that of the names it mentions"""
    n = 0
    for node in walk_local(f):
        if isinstance(node, ast.Subscript) and isinstance(node.slice, ast.Subscript) and isinstance(node.slice.value, ast.Name) \
                and node.slice.value.id in anchor_names and isinstance(node.slice.slice, ast.Tuple) and len(node.slice.slice.elts) == 2:
            try:
                col = const_eval(node.slice.slice.elts[1])
            except NotConst:
                col = None
            roles = {role(x.id) for x in ast.walk(node.value) if isinstance(x, ast.Name)} - {None}
            n += 1
            ctx.ob("R5.column-role", rel, f.name, ast.unparse(node)[:90], len(roles) == 1 and (next(iter(roles)), col) in (("F", 0), ("M", 1)),
                   "anchor pairs are (fixed index, mobile index): column 0 indexes the fixed, column 1 the mobile anchors", node.lineno)
    return n


def r5_homologs(ctx, s):
    f = s.func("superimpose_homologs")
    n = anchor_column_roles(ctx, SUP, f, {"anchor_indices"})
    # the structural-alphabet variant (tm.py) reports its anchors the same way
    tmf = ctx.src(TM).func("superimpose_structural_homologs")
    n_tm = anchor_column_roles(ctx, TM, tmf, {"anchors", "anchor_indices"})
    ctx.floor("R5.column-role:tm", n_tm, 2)
    ctx.floor("R5.column-role", n, 2)
    sel = [st for st in stmts(f) if isinstance(st, ast.Assign) and isinstance(st.value, ast.Subscript)
           and ast.unparse(st.value.slice) == "selected_anchor_indices"]
    ctx.ob("R5.selected-both", SUP, f.name, str(sorted(ast.unparse(x) for x in sel)),
           sorted(ast.unparse(x) for x in sel) == ["fixed_anchor_indices = fixed_anchor_indices[selected_anchor_indices]",
                                                    "mobile_anchor_indices = mobile_anchor_indices[selected_anchor_indices]"],
           "outlier removal selects the same rows of both index lists", f.lineno)
    c = [x for x in calls(f) if call_name(x) == "superimpose_without_outliers"]
    ctx.need(len(c) == 1, "superimpose_without_outliers call")
    kw = any(k.arg is None and ast.unparse(k.value) == "kwargs" for k in c[0].keywords)
    ctx.ob("R5.kwargs", SUP, f.name, "**kwargs", kw and ast.unparse(c[0].args[2]) == "min_anchors" if len(c[0].args) > 2 else False,
           "min_anchors and the outlier options reach superimpose_without_outliers", c[0].lineno)
    ret = ret_expr(f)
    ctx.ob("R5.return", SUP, f.name, ast.unparse(ret),
           ast.unparse(ret) == "(transform.apply(mobile), transform, fixed_anchor_indices, mobile_anchor_indices)", "documented return order", f.lineno)
    # _find_matching_anchors offsets
    g = s.func("_find_matching_anchors")
    sts = [ast.unparse(x) for x in stmts(g)]
    tup = next((st for st in stmts(g) if isinstance(st, ast.AugAssign) and ast.unparse(st.target) == "anchors"), None)
    okt = tup is not None and isinstance(tup.value, ast.Tuple) and [role(ast.unparse(e)) for e in tup.value.elts] == ["F", "M"]
    ctx.ob("R5.offset-columns", SUP, g.name, ast.unparse(tup) if tup is not None else "anchors += ...", okt,
           "column 0 is shifted by the fixed offset, column 1 by the mobile offset", g.lineno)
    ctx.ob("R5.offset-accumulate", SUP, g.name, "offset += len(seq)",
           "fixed_seq_offset += len(fixed_seq)" in sts and "mobile_seq_offset += len(mobile_seq)" in sts,
           "offsets advance by the length of the chain of the same role", g.lineno)
    bb = ret_expr(s.func("_get_backbone_anchor_indices"))
    ctx.ob("R5.backbone-anchors", SUP, "_get_backbone_anchor_indices", ast.unparse(bb)[:80],
           ast.unparse(bb) == "np.where(filter_amino_acids(atoms) & (atoms.atom_name == 'CA') | filter_nucleotides(atoms) & (atoms.atom_name == 'P'))[0]",
           "CA of amino acids, P of nucleotides", bb.lineno)


# ---------------- R6 ---------------------------------------------------------

def r6_rmsd(ctx):
    check_spec(ctx, "R6.rmsd", CMP, "rmsd", "np.sqrt(np.mean(_sq_euclidian(reference, subject), axis=-1))",
               "root of the mean over the atom axis of the squared deviations")
    f = ctx.src(CMP).func("_sq_euclidian")
    sm = summarize(f)
    ctx.need(sm.result is not None, "_sq_euclidian result")
    specs = [spec("vector_dot(coord(subject) - coord(reference), coord(subject) - coord(reference))"),
             spec("vector_dot(coord(reference) - coord(subject), coord(reference) - coord(subject))")]
    ctx.ob("R6.sq-deviation", CMP, f.name, "vector_dot(d, d), d = subject - reference", canon(sm.result) in specs,
           "squared Euclidean distance of corresponding atoms; the code computes " + ast.unparse(sm.result)[:200], f.lineno)


MUTANTS = [
    Mutant("matrix-order", SUP, "return target_translation_mat @ rotation_mat @ center_translation_mat", "return center_translation_mat @ rotation_mat @ target_translation_mat", "R1.matrix-order"),
    Mutant("apply-order", SUP, "        superimposed_coord += self.center_translation[:, np.newaxis, :]\n        superimposed_coord = _multi_matmul(self.rotation, superimposed_coord)\n", "        superimposed_coord = _multi_matmul(self.rotation, superimposed_coord)\n        superimposed_coord += self.center_translation[:, np.newaxis, :]\n", "R1.apply-sequence"),
    Mutant("translation-row", SUP, "center_translation_mat[:, :3, 3] = self.center_translation", "center_translation_mat[:, 3, :3] = self.center_translation", "R1.matrix-block"),
    Mutant("matrix-swapped-attr", SUP, "target_translation_mat[:, :3, 3] = self.target_translation", "target_translation_mat[:, :3, 3] = self.center_translation", "R1.matrix-order"),
    Mutant("row-convention", SUP, "np.matmul(matrices, np.transpose(vectors, axes=(0, 2, 1)))", "np.matmul(np.transpose(matrices, axes=(0, 2, 1)), np.transpose(vectors, axes=(0, 2, 1)))", "R1.column-convention"),
    Mutant("no-model-guard", SUP, "        if mobile_coord.shape[0] != self.rotation.shape[0]:", "        if False:", "R1.model-count-guard"),
    Mutant("apply-in-place", SUP, "superimposed_coord = mobile_coord.copy()", "superimposed_coord = mobile_coord", "R1.apply-copy"),
    Mutant("rank-4-accepted", SUP, "    elif coord.ndim == 3:\n        return coord\n    else:\n        raise ValueError(\"Coordinates must be at most three-dimensional\")", "    else:\n        return coord", "R1.rank-dispatch"),
    Mutant("init-swapped", SUP, "self.target_translation = _expand_dims(target_translation, 2)", "self.target_translation = _expand_dims(center_translation, 2)", "R1.init-dims"),
    Mutant("kabsch-args-swapped", SUP, "_get_rotation_matrices(fix_centered_filtered, mob_centered_filtered)", "_get_rotation_matrices(mob_centered_filtered, fix_centered_filtered)", "R2.role-argument"),
    Mutant("centroids-swapped", SUP, "AffineTransformation(-mob_centroid, rotation, fix_centroid)", "AffineTransformation(-fix_centroid, rotation, mob_centroid)", "R2.center-translation"),
    Mutant("center-sign", SUP, "AffineTransformation(-mob_centroid, rotation, fix_centroid)", "AffineTransformation(mob_centroid, rotation, fix_centroid)", "R2.center-translation"),
    Mutant("mobile-centred-on-fixed", SUP, "mob_centered_filtered = mob_filtered - mob_centroid[:, np.newaxis, :]", "mob_centered_filtered = mob_filtered - fix_centroid[:, np.newaxis, :]", "R2.role-provenance"),
    Mutant("apply-to-fixed", SUP, "    return transform.apply(mobile), transform\n", "    return transform.apply(fixed), transform\n", "R2.apply-mobile"),
    Mutant("mask-one-side", SUP, "fix_filtered = fix_coord[:, atom_mask, :]", "fix_filtered = fix_coord[:, :, :]", "R2.superimpose-composition"),
    Mutant("covariance-transposed", SUP, "fixed[:, :, :, np.newaxis] * mobile[:, :, np.newaxis, :]", "mobile[:, :, :, np.newaxis] * fixed[:, :, np.newaxis, :]", "R3.covariance"),
    Mutant("no-reflection-fix", SUP, "    v[reflected_mask, :, -1] *= -1\n", "", "R3.reflection-fix"),
    Mutant("reflection-first-column", SUP, "v[reflected_mask, :, -1] *= -1", "v[reflected_mask, :, 0] *= -1", "R3.reflection-fix"),
    Mutant("reflection-test-sign", SUP, "np.linalg.det(v) * np.linalg.det(w) < 0", "np.linalg.det(v) * np.linalg.det(w) > 0", "R3.reflection-test"),
    Mutant("product-order", SUP, "matrices = np.matmul(v, w)", "matrices = np.matmul(w, v)", "R3.product"),
    Mutant("anchors-from-updated-mask", SUP, "anchor_indices = np.where(inlier_mask)[0]", "anchor_indices = np.where(updated_inlier_mask)[0]", "R4.anchor-mask"),
    Mutant("mask-aliased", SUP, "updated_inlier_mask = inlier_mask.copy()", "updated_inlier_mask = inlier_mask", "R4.mask-copy"),
    Mutant("threshold-lower", SUP, "sq_dist <= upper_quantile + outlier_threshold * ipr", "sq_dist <= lower_quantile + outlier_threshold * ipr", "R4.threshold"),
    Mutant("outlier-fit-swapped", SUP, "superimpose(\n            filtered_fixed_coord, filtered_mobile_coord\n        )", "superimpose(\n            filtered_mobile_coord, filtered_fixed_coord\n        )", "R2.role-argument"),
    Mutant("anchor-columns-swapped", SUP, "fixed_anchor_indices = fixed_anchor_indices[anchor_indices[:, 0]]", "fixed_anchor_indices = fixed_anchor_indices[anchor_indices[:, 1]]", "R5.column-role"),
    Mutant("align-order", SUP, "            fixed_seq,\n            mobile_seq,\n            substitution_matrix,", "            mobile_seq,\n            fixed_seq,\n            substitution_matrix,", "R2.role-argument"),
    Mutant("offset-role", SUP, "mobile_seq_offset += len(mobile_seq)", "mobile_seq_offset += len(fixed_seq)", "R2.role-provenance"),
    Mutant("homolog-selected-one-side", SUP, "    mobile_anchor_indices = mobile_anchor_indices[selected_anchor_indices]\n", "", "R5.selected-both"),
    Mutant("refactor-apply-no-augassign", SUP, "superimposed_coord += self.center_translation[:, np.newaxis, :]", "superimposed_coord = self.center_translation[:, np.newaxis, :] + superimposed_coord", "R1.apply-sequence", kind="silent"),
    Mutant("refactor-asmatrix-names", SUP, "center_translation_mat", "c4", "R1.matrix-order", count=3, kind="silent"),
    Mutant("refactor-multimatmul-operator", SUP, "np.matmul(matrices, np.transpose(vectors, axes=(0, 2, 1)))", "matrices @ np.transpose(vectors, axes=(0, 2, 1))", "R1.column-convention", kind="silent"),
    Mutant("refactor-rmsd-temporary", CMP, "    return np.sqrt(np.mean(_sq_euclidian(reference, subject), axis=-1))", "    sq = _sq_euclidian(reference, subject)\n    return np.sqrt(np.mean(sq, axis=-1))", "R6.rmsd", kind="silent"),
    Mutant("centroid-of-unmasked", SUP, "mob_centroid = centroid(mob_filtered)", "mob_centroid = centroid(mob_coord)", "R2.superimpose-composition"),
    Mutant("refactor-superimpose-inline", SUP, "    mob_centroid = centroid(mob_filtered)\n    fix_centroid = centroid(fix_filtered)\n", "    fix_centroid = centroid(fix_filtered)\n    mob_centroid = centroid(mob_filtered)\n", "R2.superimpose-composition", kind="silent"),
    Mutant("rmsd-sum", CMP, "np.sqrt(np.mean(_sq_euclidian(reference, subject), axis=-1))", "np.sqrt(np.sum(_sq_euclidian(reference, subject), axis=-1))", "R6.rmsd"),
    # one seeded fault per rule that had none
    Mutant("apply-returns-input-structure", SUP, "            superimposed = atoms.copy()\n", "            superimposed = atoms\n", "R1.apply-return"),
    Mutant("apply-returns-coord-only", SUP, "            superimposed.coord = superimposed_coord\n            return superimposed\n", "            return superimposed_coord\n", "R1.apply-return"),
    Mutant("apply-shape-taken-after-lifting", SUP, "        original_shape = mobile_coord.shape\n        mobile_coord = _reshape_to_3d(mobile_coord)\n", "        mobile_coord = _reshape_to_3d(mobile_coord)\n        original_shape = mobile_coord.shape\n", "R1.apply-shape"),
    Mutant("apply-shape-not-restored", SUP, "        superimposed_coord = superimposed_coord.reshape(original_shape)\n", "", "R1.apply-shape"),
    Mutant("identity-helper-ones", SUP, "matrices = np.zeros((m, n, n), dtype=float)", "matrices = np.ones((m, n, n), dtype=float)", "R1.identity-helper"),
    Mutant("identity-helper-antidiagonal", SUP, "matrices[:, indices, indices] = 1", "matrices[:, indices, indices[::-1]] = 1", "R1.identity-helper"),
    Mutant("rotation-factor-3x3", SUP, "rotation_mat = _3d_identity(n_models, 4)", "rotation_mat = _3d_identity(n_models, 3)", "R1.matrix-identity"),
    Mutant("target-translation-model-axis", SUP, "superimposed_coord += self.target_translation[:, np.newaxis, :]", "superimposed_coord += self.target_translation[np.newaxis, :, :]", "R1.per-model-broadcast"),
    Mutant("gap-penalty-ignored", SUP, "        substitution_matrix,\n        gap_penalty,\n        terminal_penalty,\n    )", "        substitution_matrix,\n        -10,\n        terminal_penalty,\n    )", "R2.param-used", qualname="superimpose_homologs"),
    Mutant("rotation-transposed", SUP, "AffineTransformation(-mob_centroid, rotation, fix_centroid)", "AffineTransformation(-mob_centroid, rotation.transpose(0, 2, 1), fix_centroid)", "R2.rotation-source"),
    Mutant("target-is-mobile-centroid", SUP, "AffineTransformation(-mob_centroid, rotation, fix_centroid)", "AffineTransformation(-mob_centroid, rotation, mob_centroid)", "R2.target-translation"),
    Mutant("target-sign", SUP, "AffineTransformation(-mob_centroid, rotation, fix_centroid)", "AffineTransformation(-mob_centroid, rotation, -fix_centroid)", "R2.target-translation"),
    Mutant("kabsch-returns-uncorrected-factor", SUP, "    matrices = np.matmul(v, w)\n    return matrices", "    matrices = np.matmul(v, w)\n    return v", "R3.product"),
    Mutant("svd-of-transposed-covariance", SUP, "v, s, w = np.linalg.svd(cov)", "v, s, w = np.linalg.svd(cov.transpose(0, 2, 1))", "R3.covariance"),
    Mutant("svd-reduced", SUP, "v, s, w = np.linalg.svd(cov)", "v, s, w = np.linalg.svd(cov, full_matrices=False, hermitian=True)", "R3.svd-input"),
    Mutant("outliers-judged-on-unfitted", SUP, "sq_dist = distance(filtered_fixed_coord, superimposed_coord) ** 2", "sq_dist = distance(filtered_fixed_coord, filtered_mobile_coord) ** 2", "R4.distance-pair"),
    Mutant("zero-iterations-accepted", SUP, "    if max_iterations < 1:", "    if max_iterations < 0:", "R4.iterations-guard"),
    Mutant("carry-hoisted-out-of-loop", SUP, "    for _ in range(max_iterations):\n        # Run superimposition\n        inlier_mask = updated_inlier_mask\n", "    inlier_mask = updated_inlier_mask\n    for _ in range(max_iterations):\n        # Run superimposition\n", "R4.loop-carry"),
    Mutant("mask-advanced-after-fit", SUP, "            sq_dist <= upper_quantile + outlier_threshold * ipr\n        )\n", "            sq_dist <= upper_quantile + outlier_threshold * ipr\n        )\n        inlier_mask = updated_inlier_mask\n", "R4.mask-stable"),
    Mutant("outlier-returns-anchor-coord", SUP, "    return transform.apply(mobile), transform, anchor_indices", "    return superimposed_coord, transform, anchor_indices", "R4.return"),
    Mutant("backbone-anchor-c", SUP, "(atoms.atom_name == \"CA\")", "(atoms.atom_name == \"C\")", "R5.backbone-anchors"),
    Mutant("backbone-anchor-nucleotide-any-p", SUP, "        | ((filter_nucleotides(atoms)) & (atoms.atom_name == \"P\"))\n", "        | (atoms.atom_name == \"P\")\n", "R5.backbone-anchors"),
    Mutant("homolog-kwargs-dropped", SUP, "        min_anchors,\n        **kwargs,\n    )", "        min_anchors,\n    )", "R5.kwargs"),
    Mutant("homolog-min-anchors-dropped", SUP, "        min_anchors,\n        **kwargs,\n    )", "        **kwargs,\n    )", "R5.kwargs"),
    Mutant("offset-not-accumulated", SUP, "fixed_seq_offset += len(fixed_seq)", "fixed_seq_offset = len(fixed_seq)", "R5.offset-accumulate"),
    Mutant("offset-columns-swapped", SUP, "anchors += fixed_seq_offset, mobile_seq_offset", "anchors += mobile_seq_offset, fixed_seq_offset", "R5.offset-columns"),
    Mutant("homolog-return-order", SUP, "        transform,\n        fixed_anchor_indices,\n        mobile_anchor_indices,\n    )", "        transform,\n        mobile_anchor_indices,\n        fixed_anchor_indices,\n    )", "R5.return"),
    Mutant("sq-deviation-sum", CMP, "dif = subject_coord - reference_coord", "dif = subject_coord + reference_coord", "R6.sq-deviation"),
]
